// Analysis driver TU: never linked, never run. It instantiates the public API
// of sonic-cpp for both allocator kinds so that every template body exists in
// the AST for sonic-facts. Explicit class-template instantiation instantiates
// every non-template member; member templates are odr-used below.
#include "sonic/sonic.h"
#include "sonic/experiment/lazy_update.h"

using namespace sonic_json;
using PAlloc = MemoryPoolAllocator<>;
using SAlloc = SimpleAllocator;
using PNode = DNode<PAlloc>;
using SNode = DNode<SAlloc>;
using PDoc = GenericDocument<PNode>;
using SDoc = GenericDocument<SNode>;

template class sonic_json::MemoryPoolAllocator<>;
template class sonic_json::DNode<PAlloc>;
template class sonic_json::DNode<SAlloc>;
template class sonic_json::GenericDocument<PNode>;
template class sonic_json::GenericDocument<SNode>;
template class sonic_json::SAXHandler<PNode>;
template class sonic_json::SAXHandler<SNode>;
template class sonic_json::LazySAXHandler<PNode>;
template class sonic_json::LazySAXHandler<SNode>;
template class sonic_json::SchemaHandler<PNode>;
template class sonic_json::SchemaHandler<SNode>;
template class sonic_json::GenericJsonPointer<std::string>;
template class sonic_json::GenericJsonPointer<StringView>;

template <typename Doc, typename Node>
void drive_doc() {
  typename Doc::Allocator* ap = nullptr;
  Doc d;
  Doc d2(ap);
  d.Parse("1");
  d.Parse("1", 1);
  d.ParseSchema("1");
  d.ParseSchema("1", 1);
  d.ParseOnDemand("1", GenericJsonPointer<std::string>({"a", 1}));
  d.ParseOnDemand("1", GenericJsonPointer<StringView>({"a", 1}));
  d.ParseOnDemand("1", 1, GenericJsonPointer<StringView>({"a", 1}));
  WriteBuffer wb;
  d.Serialize(wb);
  (void)d.Dump();
  const Doc& cd = d;
  (void)cd.Dump();
  Doc m(std::move(d));
  m = std::move(d2);
  m.Swap(d);
  (void)(m == d);
  (void)(m != d);
  (void)m.HasParseError();
  (void)m.GetParseError();
  (void)m.GetErrorOffset();
  (void)m.GetAllocator();

  Node n;
  Node n_b(true), n_i(1), n_u(1u), n_l(int64_t(1)), n_ul(uint64_t(1)),
      n_d(1.0), n_f(1.0f);
  Node n_s("abc", m.GetAllocator());
  Node n_sv(StringView("abc"));
  Node n_t(kObject);
  Node n_cp(n_s, m.GetAllocator());
  Node n_cp2(n_s, m.GetAllocator(), true);
  Node n_mv(std::move(n_cp));
  n_mv = std::move(n_cp2);
  (void)(n_i == 1);
  (void)(n_i != 1);
  (void)(n_i == true);
  (void)(n_i == int64_t(1));
  (void)(n_i == uint64_t(1));
  (void)(n_i == 1.0);
  (void)(n_i == StringView("a"));
  (void)(n_i == std::string("a"));
  (void)(n_i == "a");
  (void)n.AtPointer(GenericJsonPointer<std::string>({"a", 1}));
  (void)n.AtPointer(GenericJsonPointer<StringView>({"a", 1}));
  (void)n.AtPointer("a", 1, "b");
  (void)n.AtPointer(1, "a");
  (void)n.IsNull();
  (void)n.IsBool();
  (void)n.IsTrue();
  (void)n.IsFalse();
  (void)n.IsStringConst();
  (void)n.IsContainer();
  const Node& cn = n;
  (void)cn.AtPointer(GenericJsonPointer<std::string>({"a", 1}));
  (void)cn.AtPointer(GenericJsonPointer<StringView>({"a", 1}));
  (void)cn.AtPointer("a", 1, "b");
  (void)cn.AtPointer(1, "a");
  (void)cn["a"];
  (void)n["a"];
  (void)cn[std::string("a")];
  (void)n[std::string("a")];
  (void)cn[size_t(0)];
  (void)n[size_t(0)];
  (void)cn.template Serialize<kSerializeDefault>(wb);
  (void)cn.template Dump<kSerializeDefault>();
  n.CopyFrom(n_s, m.GetAllocator());
  n.CopyFrom(n_s, m.GetAllocator(), true);
  n.AddMember("a", Node(1), m.GetAllocator());
  n.AddMember("a", Node(1), m.GetAllocator(), false);
  n.PushBack(Node(1), m.GetAllocator());
}

void drive() {
  drive_doc<PDoc, PNode>();
  drive_doc<SDoc, SNode>();
  // cross-allocator deep copies
  PDoc p;
  SDoc s;
  PNode pn;
  SNode sn;
  pn.CopyFrom(sn, p.GetAllocator());
  sn.CopyFrom(pn, s.GetAllocator());
  p.CopyFrom(s, p.GetAllocator());
  s.CopyFrom(p, s.GetAllocator());
  (void)(pn == sn);
  StringView t;
  (void)GetOnDemand("1", GenericJsonPointer<std::string>({"a", 1}), t);
  (void)GetOnDemand("1", GenericJsonPointer<StringView>({"a", 1}), t);
  (void)UpdateLazy("{}", "{}");
  WriteBuffer wb;
  WriteBuffer wb2(16);
  WriteBuffer wb3(std::move(wb2));
  wb = std::move(wb3);
  wb.Push('a');
  wb.Push("ab", 2);
  wb.PushUnsafe('a');
  (void)wb.ToString();
  (void)wb.Size();
  (void)wb.Capacity();
  wb.Reserve(10);
  wb.Clear();
  (void)wb.Empty();
  (void)wb.template Top<char>();
  wb.template Pop<char>(1);
  PAlloc a1;
  PAlloc a2(a1);
  a2 = a1;
  PAlloc a3(std::move(a2));
  a3 = std::move(a1);
  char buf[1024];
  PAlloc a4(buf, sizeof(buf));
  PAlloc a5(size_t(4096));
  (void)a4.Malloc(10);
  (void)a4.Realloc(nullptr, 0, 10);
  PAlloc::Free(nullptr);
  a4.Clear();
  (void)a4.Size();
  (void)a4.Capacity();
  (void)(a4 == a5);
  (void)(a4 != a5);
  SAlloc sa;
  (void)sa.Malloc(1);
  (void)sa.Realloc(nullptr, 0, 1);
  SAlloc::Free(nullptr);
}
