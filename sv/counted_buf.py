"""E3 (part 4) — capacity discipline of a counted digit buffer (struct with a fixed char array and an int count):
zone abstract interpretation of every function that receives the struct.

Obligations, upper side only (the lower side rests on arithmetic facts about digit counts that a zone cannot see
and is NOT decided):
  * every subscript of the array with a non-constant index is <= N-1 on every path;
  * the count is <= N at every exit and before every call that hands the struct to a callee that relies on it;
  * a callee that receives the raw array together with a length subscripts it only below that length, and the
    length passed is <= N.
Each function is analysed first without any assumption on the count; only if an obligation fails is it re-analysed
under 'count <= N at entry' -- then every call site has to establish that.  Joins at merge points, widening with
thresholds {0, 1, N-1, N, N+1} at revisited blocks.  Assumes int arithmetic on indices does not wrap.
"""
from .core import strip, cval, show, walk, locline, AnalysisBroken
from .e3_zone import Zone, Lin, Z, lin_add, lin_neg, INF

CNT, CAP = 'CNT', 'CAP'


def _intlike(t):
    t = t or ''
    return not any(x in t for x in ('*', '[', 'double', 'float', 'struct ', 'class ', 'Decimal', '&&'))


class _Fn:
    def __init__(self, an, f, obj, buf_param=None, len_param=None):
        self.an, self.f, self.obj = an, f, obj           # obj: ('param'|'local', id) or None
        self.buf_param, self.len_param = buf_param, len_param
        self.obl = []     # (kind, text, loc, ok)
        self.N = an.N

    # -- helpers
    def var(self, e):
        e = strip(e)
        if e is not None and e.get('k') == 'ref' and e.get('dk') in ('local', 'param') and _intlike(e.get('t')):
            return 'v%d' % e['id']
        return None

    def is_obj_ptr(self, e):
        if self.obj is None:
            return False
        e = strip(e)
        if e is None:
            return False
        if e.get('k') == 'ref' and self.obj[0] == 'param' and e.get('id') == self.obj[1]:
            return True
        if e.get('k') == 'un' and e['op'] == '&':
            i = strip(e['e'])
            return i.get('k') == 'ref' and self.obj[0] == 'local' and i.get('id') == self.obj[1]
        return False

    def member_of_obj(self, e, name):
        e = strip(e)
        if e is None or e.get('k') != 'member' or e.get('name') != name:
            return False
        b = strip(e.get('base'))
        if b is None:
            return False
        if e.get('arrow'):
            return self.is_obj_ptr(b)
        return b.get('k') == 'ref' and self.obj is not None and self.obj[0] == 'local' and b.get('id') == self.obj[1]

    def target(self, e):
        """zone variable an lvalue expression denotes"""
        if self.obj is not None and self.member_of_obj(e, self.an.cnt):
            return CNT
        return self.var(e)

    def is_buf(self, e):
        e = strip(e)
        if e is None:
            return False
        if self.obj is not None and self.member_of_obj(e, self.an.arr):
            return True
        return self.buf_param is not None and e.get('k') == 'ref' and e.get('id') == self.buf_param

    # -- expression evaluation with effects
    def assigned(self, e):
        out = set()
        for x in walk(e):
            if x.get('k') == 'bin' and x['op'].endswith('=') and x['op'] not in ('==', '!=', '<=', '>='):
                t = self.target(x['l'])
                if t:
                    out.add(t)
            if x.get('k') == 'un' and x['op'] in ('++', '--'):
                t = self.target(x['e'])
                if t:
                    out.add(t)
            if x.get('k') == 'call' and self.obj is not None and any(self.is_obj_ptr(a) for a in x.get('args', [])):
                out.add(CNT)
        return out

    def ev(self, e, z):
        if e is None or not isinstance(e, dict):
            return None
        k = e.get('k')
        if k == 'cast':
            r = self.ev(e['e'], z)
            return r if _intlike(e.get('t')) and not any(w in (e.get('t') or '') for w in ('char', 'short', 'int8', 'int16', 'bool', 'Bool')) else None
        if k == 'lit' or ('cv' in e and k not in ('ref', 'member')):
            c = cval(e)
            return Lin(Z, Z, c) if c is not None else None
        if k == 'ref':
            c = cval(e)
            v = self.var(e)
            if v:
                return Lin(v, Z, 0)
            return Lin(Z, Z, c) if c is not None else None
        if k == 'member':
            if self.target(e) == CNT:
                return Lin(CNT, Z, 0)
            self.ev(e.get('base'), z)
            return None
        if k == 'un':
            op = e['op']
            if op in ('++', '--'):
                t = self.target(e['e'])
                d = 1 if op == '++' else -1
                if t is None:
                    self.ev(e['e'], z)
                    return None
                z.assign_shift(t, d)
                return Lin(t, Z, -d if e.get('post') else 0)
            if op == '&':
                v = self.var(e['e'])
                if v:
                    z.forget(v)
                return None
            r = self.ev(e['e'], z)
            if op == '-':
                return lin_neg(r) if r is not None else None
            if op == '+':
                return r
            return None
        if k == 'bin':
            op = e['op']
            if op in ('&&', '||'):
                for t in self.assigned(e):
                    z.forget(t)
                for x in walk(e):
                    if x.get('k') == 'sub':
                        self.check_sub(x, z, effects=False)
                return None
            if op == '=':
                r = self.ev(e['r'], z)
                t = self.target(e['l'])
                if t is None:
                    self.ev(e['l'], z)
                    return None
                self.store(t, r, z)
                return Lin(t, Z, 0)
            if op in ('+=', '-='):
                r = self.ev(e['r'], z)
                t = self.target(e['l'])
                if t is None:
                    self.ev(e['l'], z)
                    return None
                if r is not None and r.x == Z and r.y == Z:
                    z.assign_shift(t, r.c if op == '+=' else -r.c)
                else:
                    z.forget(t)
                return Lin(t, Z, 0)
            if op.endswith('=') and op not in ('==', '!=', '<=', '>='):
                self.ev(e['r'], z)
                t = self.target(e['l'])
                if t:
                    z.forget(t)
                else:
                    self.ev(e['l'], z)
                return None
            a = self.ev(e['l'], z)
            b = self.ev(e['r'], z)
            if op == '+':
                return lin_add(a, b)
            if op == '-':
                return lin_add(a, lin_neg(b) if b is not None else None)
            return None
        if k == 'sub':
            self.check_sub(e, z, effects=True)
            return None
        if k in ('call', 'ctor'):
            return self.call(e, z)
        if k == 'decl':
            for v in e.get('vars', []):
                n = 'v%d' % v['id'] if _intlike(v.get('t')) else None
                r = self.ev(v.get('init'), z) if v.get('init') is not None else None
                if n:
                    self.store(n, r, z)
            return None
        if k == 'ret':
            self.ev(e.get('e'), z)
            return None
        if k == 'cond':
            for t in self.assigned(e):
                z.forget(t)
            return None
        for key in ('e', 'l', 'r', 'base', 'idx', 'c', 'a', 'b', 'obj'):
            if isinstance(e.get(key), dict):
                self.ev(e[key], z)
        for a in e.get('args', []) or []:
            self.ev(a, z)
        return None

    def store(self, t, r, z):
        if r is None:
            z.forget(t)
        elif r.y == Z:
            if r.x == t:
                z.assign_shift(t, r.c)
            else:
                z.assign(t, r.x, r.c)
        else:
            z.forget(t)

    def ub(self, lin, z, other=Z):
        """upper bound of lin relative to `other` (Z or CAP)"""
        if lin is None:
            return INF
        if lin.y != Z:
            return INF
        if lin.x == other:
            return lin.c
        return z.get(lin.x, other) + lin.c

    def check_sub(self, e, z, effects):
        b = strip(e.get('base'))
        isb = self.is_buf(b)
        if effects:
            self.ev(e.get('base'), z) if not isb else None
            idx = self.ev(e.get('idx'), z)
        else:
            z2 = z.copy()
            idx = self.ev(e.get('idx'), z2)
        if not isb:
            return
        if self.buf_param is not None and strip(b).get('k') == 'ref':
            bound = self.ub(idx, z, CAP)
            ok = bound <= -1
            what = 'index %s below the length passed with the buffer' % show(e.get('idx'))
        else:
            bound = self.ub(idx, z)
            ok = bound <= self.N - 1
            what = 'index %s <= %d' % (show(e.get('idx')), self.N - 1)
        self.obl.append(('subscript', '%s: %s' % (show(e), what), e['loc'], ok,
                         'upper bound derived: %s' % ('none' if bound == INF else bound)))

    def call(self, e, z):
        args = e.get('args', []) or []
        lins = [None] * len(args)
        passes_obj = [self.is_obj_ptr(a) for a in args]
        passes_buf = [self.obj is not None and self.is_buf(a) and strip(a).get('k') == 'member' for a in args]
        for n, a in enumerate(args):
            if passes_obj[n] or passes_buf[n]:
                continue
            lins[n] = self.ev(a, z)
        cal = self.an.facts.by_id.get(e.get('cid'))
        if any(passes_obj):
            sm = self.an.summary.get(e.get('cid'))
            if sm is None:
                self.obl.append(('call', '%s: callee not analysed' % show(e), e['loc'], False, 'no summary'))
                z.forget(CNT)
                return None
            if sm['needs']:
                bound = z.get(CNT, Z)
                self.obl.append(('call', '%s: count <= %d on entry of %s' % (show(e), self.N, cal.short if cal else '?'),
                                 e['loc'], bound <= self.N, 'upper bound derived: %s' % ('none' if bound == INF else bound)))
            z.forget(CNT)
            if sm['exit'] != INF:
                z.add(CNT, Z, sm['exit'])
        if any(passes_buf):
            j = passes_buf.index(True)
            bs = self.an.buffer_summary(cal, j) if cal is not None else None
            if bs is None:
                self.obl.append(('call', '%s: the callee does not bound its accesses to the buffer by a length parameter' % show(e), e['loc'], False, ''))
            else:
                bound = self.ub(lins[bs] if bs < len(lins) else None, z)
                self.obl.append(('call', '%s: length passed with the buffer <= %d' % (show(e), self.N), e['loc'], bound <= self.N,
                                 'upper bound derived: %s' % ('none' if bound == INF else bound)))
        return None

    # -- conditions
    def refine(self, cond, sense, z):
        c = strip(cond)
        while c is not None and c.get('k') == 'call' and c.get('cname') == '__builtin_expect':
            c = strip(c['args'][0])
        if c is None:
            return
        if c.get('k') == 'un' and c['op'] == '!':
            return self.refine(c['e'], not sense, z)
        if c.get('k') != 'bin' or c['op'] not in ('<', '<=', '>', '>=', '==', '!='):
            return
        z2 = z.copy()
        a = self.ev(c['l'], z2)
        b = self.ev(c['r'], z2)
        d = lin_add(a, lin_neg(b) if b is not None else None)
        if d is None:
            return
        op = c['op']
        if not sense:
            op = {'<': '>=', '<=': '>', '>': '<=', '>=': '<', '==': '!=', '!=': '=='}[op]
        x, y, k = d.x, d.y, d.c     # x - y + k  op  0
        if op == '<':
            z.add(x, y, -k - 1)
        elif op == '<=':
            z.add(x, y, -k)
        elif op == '>':
            z.add(y, x, k - 1)
        elif op == '>=':
            z.add(y, x, k)
        elif op == '==':
            z.add(x, y, -k)
            z.add(y, x, k)

    # -- fixpoint
    def widen(self, old, new):
        if old.bottom:
            return new.copy()
        th = sorted(set([-1, 0, 1, self.N - 1, self.N, self.N + 1]))
        nb = {}
        for k, v in old.b.items():
            w = new.b.get(k, INF)
            if w <= v:
                nb[k] = v
            elif w != INF:
                for t in th:
                    if t >= w:
                        nb[k] = t
                        break
        return Zone(nb)

    def run(self, entry):
        f = self.f
        IN = {f.entry: entry}
        visits = {}
        work = [f.entry]
        steps = 0
        while work:
            steps += 1
            if steps > 20000:
                raise AnalysisBroken('counted-buffer analysis of %s does not converge' % f.name)
            b = work.pop(0)
            for s, out in self.flow(b, IN[b], record=False):
                if out.bottom:
                    continue
                if s not in IN:
                    IN[s] = out
                else:
                    j = IN[s].join(out)
                    visits[s] = visits.get(s, 0) + 1
                    if visits[s] > 3:
                        j = self.widen(IN[s], j)
                    if j.equal(IN[s]):
                        continue
                    IN[s] = j
                if s not in work:
                    work.append(s)
        self.obl = []
        for b in sorted(IN):
            self.flow(b, IN[b], record=True)
        return IN

    def flow(self, b, zin, record):
        f = self.f
        B = f.blocks[b]
        z = zin.copy()
        saved = self.obl
        if not record:
            self.obl = []
        for s in B['stmts']:
            if isinstance(s, dict):
                self.ev(s, z)
        t = B.get('term')
        cond = t.get('cond') if t else None
        outs = []
        if cond is not None:
            self.ev(cond, z)
        if not record:
            self.obl = saved
        for s, sense in f.succ_edges(b):
            if s is None:
                continue
            o = z.copy()
            if cond is not None and sense in (True, False):
                self.refine(cond, sense, o)
            outs.append((s, o))
        return outs


class Analysis:
    def __init__(self, facts, cls, arr, cnt, files):
        self.facts, self.cls, self.arr, self.cnt = facts, cls, arr, cnt
        self.summary = {}
        self._bufsum = {}
        self.N = None
        self.fns = []
        for f in facts.functions:
            if not any(x in f.loc for x in files):
                continue
            obj = None
            for p in f.params:
                if p['t'].replace('struct ', '').endswith(cls + ' *'):
                    obj = ('param', p['id'])
            for bid, i, s in f.stmts():
                s_ = strip(s)
                if isinstance(s_, dict) and s_.get('k') == 'decl':
                    for v in s_['vars']:
                        if (v.get('t') or '').replace('struct ', '').endswith(cls):
                            if obj is not None:
                                raise AnalysisBroken('%s handles two %s objects' % (f.name, cls))
                            obj = ('local', v['id'])
            if obj is None:
                continue
            self.fns.append((f, obj))
            for bid, i, s, e in f.walk():
                if e.get('k') == 'member' and e.get('name') == arr and (e.get('cls') or '').endswith(cls):
                    t = e.get('t') or ''
                    if '[' in t:
                        self.N = int(t.split('[')[1].split(']')[0])

    def buffer_summary(self, cal, j):
        """index of the integer parameter of callee `cal` that bounds all subscripts of its j-th (pointer) parameter"""
        key = (cal.id, j)
        if key in self._bufsum:
            return self._bufsum[key]
        res = None
        if j < len(cal.params):
            for n, p in enumerate(cal.params):
                if n == j or not _intlike(p['t']):
                    continue
                fa = _Fn(self, cal, None, buf_param=cal.params[j]['id'], len_param=p['id'])
                z = Zone()
                z.add('v%d' % p['id'], CAP, 0)
                fa.run(z)
                if fa.obl and all(o[3] for o in fa.obl):
                    res = n
                    self._bufobl = fa.obl
                    break
        self._bufsum[key] = res
        return res

    def run(self, rep, rule, config):
        if self.N is None or len(self.fns) < 9:
            raise AnalysisBroken('counted buffer %s: capacity not found or only %d functions (>= 9 expected)' % (self.cls, len(self.fns)))
        ids = {f.id: (f, obj) for f, obj in self.fns}
        cg = {fid: set() for fid in ids}
        for f, obj in self.fns:
            for bid, i, s, e in f.walk():
                if e.get('k') == 'call' and e.get('cid') in ids and e['cid'] != f.id:
                    cg[f.id].add(e['cid'])
        order, state = [], {}

        def visit(x):
            if state.get(x) == 2:
                return
            if state.get(x) == 1:
                raise AnalysisBroken('recursion among the %s functions' % self.cls)
            state[x] = 1
            for y in sorted(cg[x]):
                visit(y)
            state[x] = 2
            order.append(x)
        for x in sorted(ids):
            visit(x)
        nsub = 0
        for fid in order:
            f, obj = ids[fid]
            rep.fn(f)
            fa = _Fn(self, f, obj)
            IN = fa.run(Zone())
            ex = IN.get(f.exit)
            exb = ex.get(CNT, Z) if ex is not None else -INF
            needs = False
            if not (all(o[3] for o in fa.obl) and exb <= self.N):
                needs = True
                z = Zone()
                z.add(CNT, Z, self.N)
                fa = _Fn(self, f, obj)
                IN = fa.run(z)
                ex = IN.get(f.exit)
                exb = ex.get(CNT, Z) if ex is not None else -INF
            self.summary[fid] = dict(needs=needs, exit=min(exb, self.N) if exb <= self.N else INF)
            seen = set()
            for kind, text, loc, ok, detail in fa.obl:
                if (text, loc) in seen:
                    continue
                seen.add((text, loc))
                nsub += kind == 'subscript'
                rep.check(ok, rule, f.qn, text, locline(loc),
                          '%s; %s' % (detail, 'count <= %d assumed at entry' % self.N if needs else 'no assumption at entry'), config)
            rep.check(exb <= self.N, rule, f.qn, 'count <= %d at every exit' % self.N, f.loc,
                      'upper bound derived: %s' % ('none' if exb == INF else exb), config)
        return nsub
