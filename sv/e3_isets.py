"""E3 (part 3) — exact-ish value-set analysis for small loop-free functions:
every CFG path is enumerated, 32-bit unsigned variables carry *interval sets*
(unions of disjoint ranges, wrap-aware), branch conditions refine them with
back-propagation through x >> k, x | y, x - c.  Used for "no surrogate is ever
encoded" (C05)."""
from .core import strip, strip_expect, cval, show, walk, locline

M32 = (1 << 32) - 1


class ISet:
    """union of disjoint closed ranges within [0, 2^32)"""
    __slots__ = ('r',)

    def __init__(self, ranges=()):
        rs = sorted((max(0, a), min(M32, b)) for a, b in ranges if a <= b)
        out = []
        for a, b in rs:
            if out and a <= out[-1][1] + 1:
                out[-1] = (out[-1][0], max(out[-1][1], b))
            else:
                out.append((a, b))
        self.r = tuple(out)

    @staticmethod
    def full():
        return ISet([(0, M32)])

    def empty(self):
        return not self.r

    def union(self, o):
        return ISet(self.r + o.r)

    def inter(self, lo, hi):
        return ISet([(max(a, lo), min(b, hi)) for a, b in self.r])

    def minus(self, lo, hi):
        out = []
        for a, b in self.r:
            if b < lo or a > hi:
                out.append((a, b))
            else:
                if a < lo:
                    out.append((a, lo - 1))
                if b > hi:
                    out.append((hi + 1, b))
        return ISet(out)

    def add_const(self, c):
        out = []
        for a, b in self.r:
            a2, b2 = a + c, b + c
            # wrap modulo 2^32
            lo, hi = a2 & M32, b2 & M32
            if (a2 >> 32) == (b2 >> 32):
                out.append((lo, hi))
            else:
                out.append((lo, M32))
                out.append((0, hi))
        return ISet(out)

    def shl(self, k):
        out = []
        for a, b in self.r:
            if (b << k) <= M32:
                out.append((a << k, b << k))     # superset of the exact (stride 2^k) set
            else:
                return ISet.full()
        return ISet(out)

    def shr(self, k):
        return ISet([(a >> k, b >> k) for a, b in self.r])

    def max(self):
        return self.r[-1][1] if self.r else None

    def min(self):
        return self.r[0][0] if self.r else None

    def subset_of(self, ranges):
        return all(any(lo <= a and b <= hi for lo, hi in ranges) for a, b in self.r)

    def overlaps(self, lo, hi):
        return any(not (b < lo or a > hi) for a, b in self.r)

    def __repr__(self):
        return ' u '.join('[0x%X, 0x%X]' % (a, b) if a != b else '{0x%X}' % a for a, b in self.r) or 'empty'


def or_sets(a, b, a_shift=0):
    """a | b.  Exact when the bits cannot overlap (a is a multiple of 2^k and b < 2^k)"""
    if a.empty() or b.empty():
        return ISet()
    if a_shift and b.max() < (1 << a_shift):
        out = []
        for x0, x1 in a.r:
            for y0, y1 in b.r:
                out.append((x0 + y0, x1 + y1))
        return ISet(out)
    hi = max(a.max(), b.max())
    return ISet([(max(a.min(), b.min()), (1 << hi.bit_length()) - 1)])


class PathEnum:
    def __init__(self, fn, call_values):
        """call_values: cname -> ISet (value sets of opaque calls)"""
        self.fn = fn
        self.call_values = call_values
        self.paths = 0

    def ev(self, e, env):
        """returns (ISet, shift_hint) ; None if not an integer we track"""
        c = cval(e)
        e_ = strip(e)
        if e_ is None:
            return None
        if c is not None and e_.get('k') != 'ref':
            return ISet([(c & M32, c & M32)])
        k = e_.get('k')
        if k == 'ref':
            if e_.get('id') in env:
                return env[e_['id']]
            if c is not None:
                return ISet([(c & M32, c & M32)])
            return None
        if k == 'call':
            n = e_.get('cname')
            if n == '__builtin_expect':
                return self.ev(e_['args'][0], env)
            if n in self.call_values:
                return self.call_values[n]
            return None
        if k == 'bin':
            op = e_['op']
            a = self.ev(e_['l'], env)
            b = self.ev(e_['r'], env)
            cb = cval(e_['r'])
            # both operands single values: exact
            if a is not None and b is not None and len(a.r) == 1 and a.r[0][0] == a.r[0][1] and len(b.r) == 1 and b.r[0][0] == b.r[0][1]:
                x, y = a.r[0][0], b.r[0][0]
                v = {'+': x + y, '-': x - y, '|': x | y, '&': x & y, '^': x ^ y, '*': x * y,
                     '<<': (x << y) if y < 32 else 0, '>>': (x >> y) if y < 32 else 0}.get(op)
                if v is not None:
                    v &= M32
                    return ISet([(v, v)])
            if op == '-' and a is not None and cb is not None:
                return a.add_const(-cb)
            if op == '+' and a is not None and cb is not None:
                return a.add_const(cb)
            if op == '+' and b is not None and cval(e_['l']) is not None:
                return b.add_const(cval(e_['l']))
            if op == '+' and a is not None and b is not None:
                out = []
                for x0, x1 in a.r:
                    for y0, y1 in b.r:
                        if x1 + y1 > M32:
                            return ISet.full()
                        out.append((x0 + y0, x1 + y1))
                return ISet(out)
            if op == '<<' and a is not None and cb is not None:
                return a.shl(cb)
            if op == '>>' and a is not None and cb is not None:
                return a.shr(cb)
            if op == '|' and a is not None and b is not None:
                # shift hint: left operand is (x << k)
                l = strip(e_['l'])
                sh = cval(l['r']) if l.get('k') == 'bin' and l['op'] == '<<' and cval(l['r']) is not None else 0
                return or_sets(a, b, sh)
            if op == '&' and a is not None and cb is not None:
                return ISet([(0, cb)]) if not a.subset_of([(0, cb)]) else a
            return None
        return None

    def refine(self, cond, sense, env):
        """returns refined env or None (infeasible)"""
        c = strip_expect(cond)
        if c is None:
            return env
        while c.get('k') == 'un' and c['op'] == '!':
            sense = not sense
            c = strip_expect(c['e'])
        k = c.get('k')
        if k == 'bin' and c['op'] in ('&&', '||'):
            conj = (c['op'] == '&&') == sense
            if conj:
                a = self.refine(c['l'], sense, env)
                return self.refine(c['r'], sense, a) if a is not None else None
            # disjunction: keep env unrefined unless one side is infeasible
            a = self.refine(c['l'], sense, env)
            b = self.refine(c['r'], sense, env)
            if a is None:
                return b
            if b is None:
                return a
            out = dict(env)
            for kk in env:
                if kk in a and kk in b:
                    out[kk] = a[kk].union(b[kk])
            return out
        if k == 'bin' and c['op'] in ('<', '<=', '>', '>=', '==', '!='):
            op = c['op']
            if not sense:
                op = {'<': '>=', '<=': '>', '>': '<=', '>=': '<', '==': '!=', '!=': '=='}[op]
            cv = cval(c['r'])
            if cv is None:
                return env
            lo, hi = {'<': (0, cv - 1), '<=': (0, cv), '>': (cv + 1, M32), '>=': (cv, M32), '==': (cv, cv), '!=': None}[op] or (None, None)
            return self.constrain(c['l'], lo, hi, cv if op == '!=' else None, env)
        # truthiness of an expression:  (x >> k)  /  (x | y) >> k  /  x
        if sense:
            return self.constrain(c, 1, M32, None, env)
        return self.constrain(c, 0, 0, None, env)

    def constrain(self, e, lo, hi, ne, env):
        """e in [lo,hi] (or e != ne) — back-propagate to variables"""
        e_ = strip(e)
        if e_ is None:
            return env
        k = e_.get('k')
        if k == 'ref' and e_.get('id') in env:
            cur = env[e_['id']]
            new = cur.minus(ne, ne) if ne is not None else cur.inter(lo, hi)
            if new.empty():
                return None
            out = dict(env)
            out[e_['id']] = new
            return out
        if k == 'bin' and e_['op'] == '>>' and cval(e_['r']) is not None and ne is None:
            kk = cval(e_['r'])
            # (x >> k) in [lo, hi]  <=>  x in [lo << k, (hi << k) + 2^k - 1]
            return self.constrain(e_['l'], lo << kk, min(M32, (hi << kk) + (1 << kk) - 1), None, env)
        if k == 'bin' and e_['op'] == '|' and ne is None and lo == 0:
            # (a | b) <= hi  =>  a <= hi' and b <= hi'  where hi' = 2^bitlen(hi) - 1
            h = (1 << hi.bit_length()) - 1 if hi else 0
            a = self.constrain(e_['l'], 0, h, None, env)
            if a is None:
                return None
            return self.constrain(e_['r'], 0, h, None, a)
        if k == 'bin' and e_['op'] in ('-', '+') and cval(e_['r']) is not None and ne is None:
            # x - c in [lo, hi] with wrap:  x in [lo + c, hi + c] mod 2^32
            cc = cval(e_['r']) if e_['op'] == '-' else -cval(e_['r'])
            tgt = ISet([(lo, hi)]).add_const(cc)
            inner = strip(e_['l'])
            if inner.get('k') == 'ref' and inner.get('id') in env:
                new = ISet([(max(a, x), min(b, y)) for a, b in env[inner['id']].r for x, y in tgt.r])
                if new.empty():
                    return None
                out = dict(env)
                out[inner['id']] = new
                return out
            return env
        # cannot refine: check feasibility only when the value set is known
        v = self.ev(e_, env)
        if v is not None:
            feas = v.minus(ne, ne) if ne is not None else v.inter(lo, hi)
            if feas.empty():
                return None
        return env

    def run(self, on_call, on_return, init_env=None):
        """DFS over all paths. on_call(call_expr, env, path) is invoked for every call statement;
        on_return(ret_stmt, env, path)"""
        fn = self.fn
        stack = [(fn.entry, dict(init_env or {}), ())]
        while stack:
            b, env, path = stack.pop()
            if len(path) > 200:
                raise RuntimeError('path too long (loop?) in %s' % fn.qn)
            B = fn.blocks[b]
            dead = False
            for s in B['stmts']:
                s_ = strip(s)
                if s_ is None:
                    continue
                for e in walk(s_):
                    if e.get('k') == 'call':
                        on_call(e, env, path)
                        if e.get('cname') in self.call_values:
                            path = path + (('call:' + e['cname'], True),)
                k = s_.get('k')
                if k == 'decl':
                    for v in s_['vars']:
                        if v.get('init') is not None:
                            val = self.ev(v['init'], env)
                            env = dict(env)
                            if val is not None:
                                env[v['id']] = val
                            else:
                                env.pop(v['id'], None)
                elif k == 'bin' and s_['op'] == '=':
                    l = strip(s_['l'])
                    if l.get('k') == 'ref':
                        val = self.ev(s_['r'], env)
                        env = dict(env)
                        if val is not None:
                            env[l['id']] = val
                        else:
                            env.pop(l['id'], None)
                elif k == 'ret':
                    self.paths += 1
                    on_return(s_, env, path)
                    dead = True
                    break
            if dead:
                continue
            t = B.get('term')
            succs = B['succs']
            if t and t.get('cond') is not None and len(succs) == 2 and t['cls'] != 'SwitchStmt':
                for e in walk(t['cond']):
                    if e.get('k') == 'call':
                        on_call(e, env, path)
                for sx, sense in ((succs[0], True), (succs[1], False)):
                    if sx is None:
                        continue
                    e2 = self.refine(t['cond'], sense, env)
                    if e2 is not None:
                        stack.append((sx, e2, path + ((locline(t['loc']), sense),)))
            else:
                for sx in succs:
                    if sx is not None:
                        stack.append((sx, env, path))
