"""E5.number-value — Parser::parseNumber evaluated on concrete number texts (sv/bytevm.py: byte memory, SIMD digit
scanner from its intrinsics, IEEE binary64 arithmetic, the 128-bit product of the Eisel-Lemire step, union punning)
against exact arithmetic: an integer text that fits gives exactly that integer in the right kind, every other text
gives the correctly rounded double (Python's float(), itself correctly rounded) with the sign of the text, an
overflowing text gives the infinity error.  The big-decimal fallback AtofNative is answered by contract (its own rules
decide its pieces): which path a number takes, the digit accumulation, the truncation flag, the exponent arithmetic,
the exact fast path, the 64-bit fast path and the Eisel-Lemire path are interpreted from the current source.
The corpus is boundary driven, not random: every exponent for small mantissas, 15-19 digit mantissas across the
exponent range, 20-digit integers around 10^19 / 2^63 / 2^64 with every last digit, ties between adjacent doubles with
short decimal expansions, the overflow / underflow bands, long digit strings with zero and non-zero dropped digits.
"""
import re
from .core import strip, show, AnalysisBroken
from .minterp import Unsupported, UndefinedBehaviour
from .bytevm import ByteVM

NUM = re.compile(r'-?\d+(\.\d+)?([eE][-+]?\d+)?')


def corpus(tier):
    full = tier == 'thorough'
    out = []
    x = [0x2545F4914F6CDD1D]

    def rnd(n):
        x[0] = (x[0] * 6364136223846793005 + 1442695040888963407) & ((1 << 64) - 1)
        return (x[0] >> 11) % n
    small = [1, 2, 3, 5, 7, 9, 12, 123, 999, 1024]
    # A. every exponent for small mantissas (both spellings of the exponent), sampled exponents for wide ones
    for m in small[:2] if not full else small:
        for e in (range(-345, 311) if full or m == 1 else range(-345, 311, 3)):
            out.append('%de%d' % (m, e))
    wide = [10 ** 15 - 1, 10 ** 15, 10 ** 15 + 1, 123456789012345, 2 ** 53 - 1, 2 ** 53, 2 ** 53 + 1, 9007199254740993, 10 ** 16 + 1, 10 ** 17 - 1,
            99999999999999999, 123456789012345678, 1234567890123456789, 9999999999999999999, 10 ** 18 + 1, 4503599627370497, 7205759403792794]
    for _ in range(8 if not full else 200):
        nd = 15 + rnd(5)
        wide.append(10 ** (nd - 1) + rnd(9 * 10 ** (nd - 1)))
    for m in wide:
        for e in (range(-330, 300, 23) if not full else range(-340, 305, 2)):
            out.append('%dE%+d' % (m, e))
        for e in (range(15, 40) if full else range(20, 39, 2)):
            out.append('%de%d' % (m, e))         # around the two-step exact path
        s = str(m)
        for k in (1, len(s) // 2, len(s) - 1):
            out.append(s[:k] + '.' + s[k:])
            out.append('-' + s[:k] + '.' + s[k:] + 'e-%d' % (3 + rnd(40)))
    # B. integers around the kind boundaries, every last digit
    for base in (10 ** 19, 2 ** 64 - 30, 2 ** 64 - 10, 2 ** 63 - 5, 10 ** 18, 10 ** 20 - 15):
        for j in range(0, 25):
            out.append(str(base + j))
            out.append('-' + str(base + j))
    for t in ('0', '-0', '0.0', '-0.0', '0e5', '-0E-3', '0.000', '1', '-1', '9223372036854775807', '9223372036854775808', '-9223372036854775808', '-9223372036854775809',
              '18446744073709551615', '18446744073709551616', '184467440737095516150', '00'[:1]):
        out.append(t)
    # C. overflow / underflow bands
    out += ['1.7976931348623157e308', '1.797693134862315807e308', '1.797693134862315808e308', '1.7976931348623158e308', '1.797693134862315907e308', '1.7976931348623159e308',
            '1.8e308', '3.5e308', '1e309', '-1.7976931348623159e308', '179769313486231570000e288', '17976931348623158e292', '4.9e-324', '5e-324', '2.4703282292062327e-324',
            '2.4703282292062328e-324', '2.5e-324', '2e-324', '1e-324', '1e-400', '2.2250738585072011e-308', '2.2250738585072014e-308', '2.225073858507201e-308',
            '22250738585072014e-324', '4.4501477170144023e-308', '8.98846567431158e307']
    # D. ties between adjacent doubles with short decimal expansions (round half to even)
    for j in range(0, 24 if not full else 200):
        out.append('%d.5' % (2 ** 52 + j))
        out.append(str(2 ** 53 + 2 * j + 1))
        out.append(str(2 ** 54 + 4 * j + 2))
        out.append('%d.25' % (2 ** 51 + j))
        out.append('%de3' % (2 ** 53 + 2 * j + 1))
    # E. long digit strings: dropped digits zero / non-zero, with and without exponent and fraction
    for nd in (17, 18, 19, 20, 21, 22, 25, 30, 40):
        d = ''.join(str((3 * i + nd) % 10) for i in range(nd)).lstrip('0') or '1'
        for tail in ('', '0', '000', '1', '0001', '9'):
            out.append(d + tail)
            out.append(d + tail + 'e5')
            out.append('0.' + d + tail)
            out.append(d[:3] + '.' + d[3:] + tail + 'E-7')
            out.append('-' + d + '.' + tail + '5e+10' if tail else '-' + d + '.5e+10')
    out += ['1.0000000000000002', '1.00000000000000011102230246251565404236316680908203125', '1.00000000000000011102230246251565404236316680908203126',
            '1.00000000000000011102230246251565404236316680908203124', '0.1', '0.2', '0.3', '0.30000000000000004', '123.456', '6.02214076e23', '1.6e-19', '9.109e-31']
    # F. exponents around and beyond the ends of the power-of-ten table (every converter must screen them)
    for e in list(range(300, 420, 1 if full else 2)) + [1000, 5000, 99999]:
        out.append('1e%d' % e)
        out.append('9e%d' % e)
        out.append('123456789012345678e%d' % (e - 17))
        out.append('1e-%d' % e)
        out.append('9999999999999999999e-%d' % e)
        out.append('0.0000001e%d' % e)
    # G. a zero mantissa with a fraction and / or an exponent is zero, whatever the exponent
    for kz in (21, 22, 23, 24, 30, 100, 306, 307, 330, 349, 400):
        out.append('0.' + '0' * kz)
        out.append('-0.' + '0' * kz)
    for t in ('0.0', '0.00', '0e5', '0.0e5', '0.000e-400', '-0.0e10', '0.00000000000000000000', '0.00000000000000000000e+300', '-0.000E-1', '0e0', '0E+999', '0.0e-999'):
        out.append(t)
    # H. more than 19 digits where the dropped digits decide the rounding: around the midpoints of adjacent doubles
    #    above 2^64, with an exponent / fraction directly behind the dropped digits
    for k in range(64, 72):
        ulp = 1 << (k - 52)
        for j in (0, 1, 5):
            mid = (1 << k) + j * ulp + ulp // 2
            for d in (-1, 0, 1):
                for suf in ('e0', 'E+1', '.0', '.5e1', 'e-2'):
                    out.append(str(mid + d) + suf)
                out.append(str(mid + d) + '000' + 'e-3')
                out.append(str((mid + d) * 10 + 1) + 'e-1')
    seen = set()
    res = []
    for t in out:
        if t and t not in seen and NUM.fullmatch(t):
            seen.add(t)
            res.append(t)
    return res


def clause(facts, rep, tier, rule='E5.number-value', every=1):
    fs = [f for f in facts.functions if f.short == 'parseNumber' and f.cls_qn == 'sonic_json::Parser' and len(f.params) == 1 and f.blocks]
    rep.require(len(fs) >= 1, '%s: Parser::parseNumber not found' % rule)
    errs = facts.enum_values()
    inf_err = errs.get('kParseErrorInfinity')
    for fn in (fs if tier == 'thorough' else fs[:1]):
        rep.fn(fn)
        events = []
        native = [0]

        def xh(e, args, env, members, I):
            nm = e.get('cname') or ''
            if nm in ('Uint', 'Int', 'Double') and e.get('obj') is not None and args:
                events.append((nm, args[-1]))
                return 1
            if nm == 'AtofNative' and len(args) == 2 and isinstance(args[0], int) and isinstance(args[1], int):
                native[0] += 1
                txt = bytes(I.load(args[0] + j, 1) for j in range(max(0, min(args[1], 4096)))).decode('latin-1')
                m = NUM.match(txt)
                if not m:
                    raise UndefinedBehaviour('AtofNative is handed %r' % txt[:40])
                return float(m.group(0))
            return None
        vm = ByteVM(facts, extra_hook=xh)
        base = 0x100000
        bad = None
        n = 0
        try:
            for t in corpus(tier)[::every]:
                buf = t.encode() + b'x"x' + b'\\0' * 64
                mem = {base + i: b for i, b in enumerate(buf)}
                it = vm.make(fn, mem, [])
                del events[:]
                try:
                    r, env, members, _ = it.run({fn.params[0]['id']: 'SAX'}, {'json_buf_': base, 'len_': len(t), 'pos_': 1, 'err_': 0})
                except UndefinedBehaviour as ex:
                    bad = 'number text %s: undefined behaviour: %s' % (t, ex)
                    break
                n += 1
                err, pos = members.get('err_'), members.get('pos_')
                isint = all(c in '-0123456789' for c in t)
                want = float(t)
                if err:
                    if not (want in (float('inf'), float('-inf')) and err == inf_err):
                        bad = 'the valid number %s is rejected with error %s at offset %s' % (t, err, pos)
                        break
                    continue
                if want in (float('inf'), float('-inf')):
                    bad = 'the number %s overflows a double but is accepted (%s)' % (t, events)
                    break
                if len(events) != 1 or pos != len(t):
                    bad = 'number text %s: events %s, cursor %s (text length %d)' % (t, events, pos, len(t))
                    break
                kind, val = events[0]
                iv = int(t) if isint else None
                if isint and -(1 << 63) <= iv < (1 << 64):
                    wk = 'Int' if iv < 0 else 'Uint'
                    if (kind, val) != (wk, iv) and not (t == '-0' and val == 0 and kind in ('Int', 'Uint')):
                        bad = 'the integer %s is delivered as %s(%r); expected %s(%d)' % (t, kind, val, wk, iv)
                        break
                else:
                    if kind != 'Double' or not isinstance(val, float) or val != want or (str(val)[0] == '-') != (t[0] == '-'):
                        bad = 'the number %s is delivered as %s(%r); the correctly rounded double is %r' % (t, kind, val, want)
                        break
            # a leading zero ends the integer part: the number is the zero alone (the caller then meets the next digit as
            # a trailing character) - it must not be read as the start of a longer number
            if bad is None:
                for t, plen in (('01', 1), ('00', 1), ('0123', 1), ('-01', 2), ('-007', 2), ('09.5', 1), ('01e5', 1), ('00.5', 1), ('-00', 2)):
                    buf = t.encode() + b'x"x' + b'\0' * 64
                    mem = {base + i: b for i, b in enumerate(buf)}
                    it = vm.make(fn, mem, [])
                    del events[:]
                    try:
                        r, env, members, _ = it.run({fn.params[0]['id']: 'SAX'}, {'json_buf_': base, 'len_': len(t), 'pos_': 1, 'err_': 0})
                    except UndefinedBehaviour as ex:
                        bad = 'number text %s: undefined behaviour: %s' % (t, ex)
                        break
                    n += 1
                    if members.get('err_'):
                        continue            # rejecting it outright is fine too
                    if members.get('pos_') != plen or len(events) != 1 or events[0][1] != 0:
                        bad = 'the text %s (a zero followed by a digit) is read as %s up to offset %s; a leading zero must end the number (offset %d, value 0)' % (t, events, members.get('pos_'), plen)
                        break
            # texts that are NOT numbers where a digit is required: an error, never a value
            if bad is None:
                for t in ('-', '-a', '-.5', '1.', '1.e5', '1.x', '1e', '1e+', '1E-', '1e+x', '-1.', '0.', '0.e1', '0e', '-0e-', '12345678901234567890.', '1.5e', '123456789012345678901234e+'):
                    buf = t.encode() + b'x"x' + b'\0' * 64
                    mem = {base + i: b for i, b in enumerate(buf)}
                    it = vm.make(fn, mem, [])
                    del events[:]
                    try:
                        r, env, members, _ = it.run({fn.params[0]['id']: 'SAX'}, {'json_buf_': base, 'len_': len(t), 'pos_': 1, 'err_': 0})
                    except UndefinedBehaviour as ex:
                        bad = 'malformed number %s: undefined behaviour: %s' % (t, ex)
                        break
                    n += 1
                    if not members.get('err_') or events:
                        bad = 'the malformed number %s is not rejected (error %s, events %s)' % (t, members.get('err_'), events)
                        break
        except Unsupported as ex:
            raise AnalysisBroken('%s: parseNumber cannot be evaluated: %s' % (rule, ex))
        rep.extra['number_texts_evaluated'] = rep.extra.get('number_texts_evaluated', 0) + n
        rep.extra['number_texts_via_big_decimal_contract'] = native[0]
        rep.check(bad is None, rule, fn.qn, 'kind and exact value of %d number texts (of which %d take the big-decimal fallback, answered by contract)' % (n, native[0]), fn.loc, bad or '', facts.config)
