"""E6 (part 4) — the container mutation API of DNode against plain ordered containers, by bounded exploration.

The *Impl functions that implement PushBack / PopBack / Erase / Reserve / Clear / AddMember / RemoveMember /
EraseMember / FindMember / CreateMap / DestroyMap (and destroy()) are interpreted from their CFGs (sv/minterp.py)
over short operation sequences on small containers.  What they are built on is modelled, not interpreted:

  * a children block is a list of node slots with a capacity, a lookup map (or 'uninitialised') and an allocation
    id; containerMalloc gives a block with a null map, containerRealloc moves the slots (and the header's map) into a
    block of the new capacity - growing from no block leaves the map word uninitialised, exactly as the library;
  * a pointer is (block, slot index, stride); pointer arithmetic, differences and comparisons are exact; reading or
    writing a slot at / behind the end of the block is undefined behaviour;
  * rawAssign moves the 16 bytes and nulls the source; a destroyed slot keeps its stale bits;
  * the lookup map is an ordered multimap of (key, index);
  * every allocation (block, map, copied string) goes through a ledger: releasing something twice, or something that
    is not live, is undefined behaviour; what is still live after the final destroy() is a leak.

Obligations after every operation: the container read back through Size / slots equals the reference list / ordered
dict (RemoveMember moves the last member into the hole, as documented), FindMember with and without a map finds
exactly the members that are there, no undefined behaviour, and at the end nothing is leaked or released twice.
"""
from .core import strip, show, AnalysisBroken
from .minterp import Interp, Unsupported, UndefinedBehaviour


class Ledger:
    def __init__(self):
        self.live = {}
        self.n = 0

    def alloc(self, what):
        self.n += 1
        self.live[self.n] = what
        return self.n

    def free(self, rid, what=''):
        if rid not in self.live:
            raise UndefinedBehaviour('%s released although it is not live (double release)' % (what or 'allocation #%s' % rid))
        del self.live[rid]


class V:
    """the 16 bytes of a node: kind, payload, and for containers the children pointer and length"""
    def __init__(self, kind='null', val=None, own=None):
        self.kind, self.val, self.own = kind, val, own
        self.block, self.length = None, 0
        self.addr = None          # address of the character data of a string node (identity of its buffer)
        self.home = None          # (block, slot index) when the node lives in a children block / node stack
        self.ofs = None           # the parent index a SAX handler keeps in the payload of a container under construction

    def __add__(self, k):
        if self.home is None:
            raise UndefinedBehaviour('pointer arithmetic on a node that is not part of a block')
        return Ptr(self.home[0], self.home[1] + k, 1)

    def construct(self, init):
        if isinstance(init, V):
            self.copy_bits(init)

    def copy_bits(self, o):
        self.kind, self.val, self.own, self.block, self.length = o.kind, o.val, o.own, o.block, o.length
        self.addr = getattr(o, 'addr', None)

    def get_member(self, name):
        if name in ('sv', 'a', 'o', 'raw', 'n', 't', 'next', 'data'):
            return self
        if name == 'p':
            return ('strbuf', self.own) if self.own is not None else ('const', self.val)
        if name == 'children':
            return self.block if self.block is not None else 0
        if name == 'ofs':
            if self.ofs is None:
                raise UndefinedBehaviour('the parent index of a node that is not a container under construction is read')
            return self.ofs
        raise Unsupported('node field %s' % name)

    def set_member(self, name, v):
        if name == 'children':
            self.block = None if (isinstance(v, int) and v == 0) else v
            return
        if name == 'ofs':
            self.ofs = v
            return
        if name == 'p':
            t_ = chars_text(v)
            if t_ is not None:
                # the node denotes `length` bytes from this address: kept as they are, a length that does not match the
                # string handed in shows when the node is read back
                self.val, self.own = t_, None
                self.addr = getattr(v, 'addr', None)
                return
        raise Unsupported('store to node field %s' % name)

    def __repr__(self):
        return 'V(%s,%r)' % (self.kind, self.val)


UNINIT = V('uninit')


class Block:
    def __init__(self, ledger, cap, unit):
        self.cap, self.unit = cap, unit
        self.slots = [V('uninit') for _ in range(cap * unit)]
        for j_, v_ in enumerate(self.slots):
            v_.home = (self, j_)
        self.map = None
        self.rid = ledger.alloc('children block')
        self.freed = False

    def __add__(self, k):
        return BlockOff(self, k)

    def cast_to(self, t):
        return self

    # the header in front of the children (MetaNode {cap, map}), for accessors interpreted from their bodies
    def get_member(self, name):
        if self.freed:
            raise UndefinedBehaviour('the header of a released children block is read')
        if name == 'map':
            if self.map is UNINIT:
                raise UndefinedBehaviour('the map word of a children block is read before it was initialised')
            return self.map if self.map is not None else 0
        if name == 'cap':
            return self.cap
        raise Unsupported('children-block header field %s' % name)

    def set_member(self, name, v):
        if self.freed:
            raise UndefinedBehaviour('the header of a released children block is written')
        if name == 'map':
            self.map = None if (isinstance(v, int) and v == 0) else v
            return
        raise Unsupported('store to children-block header field %s' % name)


class CharPtr:
    """pointer to character data: compares by ADDRESS (two views of one buffer share it), carries the text from there on"""
    value_eq = True

    def __init__(self, text, addr):
        self.text, self.addr = text, addr

    def __eq__(self, o):
        if isinstance(o, CharPtr):
            return self.addr == o.addr
        return False

    def __hash__(self):
        return hash(self.addr)

    def __getitem__(self, i):
        return ('chars', self.text)[i]      # lets code that expects the ('chars', text) tuple read the text

    def __add__(self, k):
        if not isinstance(k, int) or not 0 <= k <= len(self.text):
            raise UndefinedBehaviour('pointer %r + %r leaves the character data' % (self.text, k))
        return CharPtr(self.text[k:], self.addr + k)

    def deref(self):
        if not self.text:
            raise UndefinedBehaviour('read at the end of the character data')
        return ord(self.text[0]) if isinstance(self.text, str) else self.text[0]


_addr_counter = [1000]


def new_addr():
    _addr_counter[0] += 1
    return _addr_counter[0]


class BlockOff:
    """(char*)block + n : only the offset of the first slot (behind the header) is meaningful"""
    def __init__(self, block, off):
        self.block, self.off = block, off

    def __add__(self, k):
        return BlockOff(self.block, self.off + k)

    def cast_to(self, t):
        if 'Node' in (t or ''):
            if self.off != 16:
                raise UndefinedBehaviour('node pointer %d bytes into a children block (the slots start behind the 16-byte header)' % self.off)
            return Ptr(self.block, 0, 2 if 'Member' in t else 1)
        return self


class Ptr:
    value_eq = True

    def __init__(self, block, idx, stride=1):
        self.block, self.idx, self.stride = block, idx, stride

    def __eq__(self, o):
        if isinstance(o, int):
            return False
        return isinstance(o, Ptr) and o.block is self.block and o.idx == self.idx

    def __hash__(self):
        return hash((id(self.block), self.idx))

    def __add__(self, k):
        return Ptr(self.block, self.idx + k * self.stride, self.stride)

    def __sub__(self, k):
        if isinstance(k, Ptr):
            if k.block is not self.block:
                raise UndefinedBehaviour('difference of pointers into different blocks')
            return (self.idx - k.idx) // self.stride
        return Ptr(self.block, self.idx - k * self.stride, self.stride)

    def __lt__(self, o):
        return self.idx < o.idx

    def __le__(self, o):
        return self.idx <= o.idx

    def __gt__(self, o):
        return self.idx > o.idx

    def __ge__(self, o):
        return self.idx >= o.idx

    def cast_to(self, t):
        t = t or ''
        if 'Member' in t:
            return Ptr(self.block, self.idx, 2)
        if 'DNode' in t or 'Node' in t:
            return Ptr(self.block, self.idx, 1)
        return self

    def slot(self, off=0):
        if self.block is None:
            raise UndefinedBehaviour('null pointer dereferenced')
        if self.block.freed:
            raise UndefinedBehaviour('a slot of a released children block is accessed')
        i = self.idx + off
        if not 0 <= i < len(self.block.slots):
            raise UndefinedBehaviour('slot %d of a block with %d slots is accessed' % (i, len(self.block.slots)))
        return self.block.slots[i]

    def deref(self):
        return MemberRef(self) if self.stride == 2 else self.slot()

    def get_member(self, name):
        if self.stride == 2 and name in ('name', 'value'):
            return self.slot(0 if name == 'name' else 1)
        return self.slot().get_member(name)

    def __repr__(self):
        return 'Ptr(%s,%d)' % (id(self.block) % 1000 if self.block else None, self.idx)


class MemberRef:
    def __init__(self, p):
        self.p = p

    def get_member(self, name):
        return self.p.get_member(name)


class MapIt:
    value_eq = True

    def __init__(self, m, pos):
        self.m, self.pos = m, pos

    def __eq__(self, o):
        return isinstance(o, MapIt) and o.m is self.m and o.pos == self.pos

    def __hash__(self):
        return hash((id(self.m), self.pos))

    def __add__(self, k):
        return MapIt(self.m, self.pos + k)

    def get_member(self, name):
        if not 0 <= self.pos < len(self.m.entries):
            raise UndefinedBehaviour('map iterator at / behind end() is dereferenced')
        return self.m.entries[self.pos][0 if name == 'first' else 1]

    def set_member(self, name, v):
        if not 0 <= self.pos < len(self.m.entries):
            raise UndefinedBehaviour('map iterator at / behind end() is written through')
        if name != 'second':
            raise UndefinedBehaviour('the key of a map entry is modified in place')
        self.m.entries[self.pos][1] = v


class MMap:
    def __init__(self, ledger):
        self.entries = []
        self.rid = ledger.alloc('lookup map')
        self.destroyed = False
        self.constructed = False

    def construct(self, init):
        self.constructed = True

    def lower(self, key):
        i = 0
        while i < len(self.entries) and self.entries[i][0] < key:
            i += 1
        return i

    def upper(self, key):
        i = self.lower(key)
        while i < len(self.entries) and self.entries[i][0] == key:
            i += 1
        return i


def skey(v):
    """bytes of a key argument (string-view model): ('sv', text) or ('sv', text, address)"""
    if isinstance(v, tuple) and v and v[0] == 'sv':
        return v[1]
    raise Unsupported('key %r' % (v,))


def chars_text(x):
    if isinstance(x, CharPtr):
        return x.text
    if isinstance(x, tuple) and x and x[0] == 'chars':
        return x[1]
    return None


class Machine:
    def __init__(self, facts, fns, tags, need_free=True):
        self.facts, self.fns, self.tags = facts, fns, tags
        self.ledger = Ledger()
        self.need_free = need_free
        self.depth = 0

    # -- construction helpers for the explorer
    def node(self, spec):
        if isinstance(spec, int):
            return V('uint', spec)
        if isinstance(spec, str):
            v_ = V('str', spec, self.ledger.alloc('copied string %r' % spec))
            v_.length = len(spec)
            return v_
        raise ValueError(spec)

    def sub(self, v):
        m = {'null': 'kNull', 'true': 'kTrue', 'false': 'kFalse', 'uint': 'kUint', 'sint': 'kSint', 'real': 'kReal', 'obj': 'kObject', 'arr': 'kArray', 'raw': 'kRaw'}
        if v.kind == 'str':
            return self.tags['kStringFree' if v.own is not None else 'kStringCopy']
        if v.kind == 'uninit':
            raise UndefinedBehaviour('the type of an uninitialised slot is read')
        return self.tags[m[v.kind]]

    def settype(self, v, flag):
        inv = {self.tags[k]: k for k in ('kNull', 'kTrue', 'kFalse', 'kUint', 'kSint', 'kReal', 'kObject', 'kArray', 'kRaw', 'kStringCopy', 'kStringFree', 'kStringConst')}
        name = inv.get(flag)
        kind = {'kNull': 'null', 'kTrue': 'true', 'kFalse': 'false', 'kUint': 'uint', 'kSint': 'sint', 'kReal': 'real', 'kObject': 'obj', 'kArray': 'arr', 'kRaw': 'raw',
                'kStringCopy': 'str', 'kStringFree': 'str', 'kStringConst': 'str'}.get(name)
        if kind is None:
            raise Unsupported('type flag %s' % flag)
        v.kind = kind
        if kind in ('null', 'true', 'false'):
            v.val, v.own, v.block, v.length = None, None, None, 0

    def call(self, name, this, *args):
        f = self.fns.get(name)
        if f is None:
            raise AnalysisBroken('DNode::%s not found among the instantiated functions' % name)
        return self.run(f, this, list(args))

    def generic_hook(self, e, args, env, members, it, o_unused=None):
        M = self

        def tv(x):
            """the node an object expression denotes"""
            if isinstance(x, Ptr):
                return x.slot()
            if isinstance(x, MemberRef):
                raise Unsupported('member used as a node')
            return x

        name = e.get('cname') or ''
        if name.startswith('__builtin_'):
            return None
        o = None
        if e.get('obj') is not None:
            try:
                o = it.ev(e['obj'], env, members)
            except Unsupported:
                o = None            # e.g. a call on the handler object itself: left to the interpreter
        elif e.get('k') == 'call' and e.get('ccls') and 'DNode' in (e.get('ccls') or '') and not e.get('cstatic') and '__this__' in env and not e.get('opcall'):
            o = env['__this__']
        # ---- map model
        if isinstance(o, MMap):
            m = o
            if m.destroyed:
                raise UndefinedBehaviour('a destroyed lookup map is used')
            if name == 'find':
                k = skey(args[0])
                i = m.lower(k)
                return MapIt(m, i if i < len(m.entries) and m.entries[i][0] == k else len(m.entries))
            if name == 'end':
                return MapIt(m, len(m.entries))
            if name == 'erase':
                a = args[0]
                if isinstance(a, MapIt):
                    if not 0 <= a.pos < len(m.entries):
                        raise UndefinedBehaviour('erase(end())')
                    del m.entries[a.pos]
                    return MapIt(m, a.pos)
                k = skey(a)
                n0 = len(m.entries)
                m.entries = [x for x in m.entries if x[0] != k]
                return n0 - len(m.entries)
            if name in ('emplace', 'insert'):
                k, idx = args[0] if len(args) == 1 else (args[0], args[1])      # emplace(pair) / emplace(key, index)
                k = skey(k)
                m.entries.insert(m.upper(k), [k, idx])
                return 0
            if name == 'equal_range':
                k = skey(args[0])
                return {'first': MapIt(m, m.lower(k)), 'second': MapIt(m, m.upper(k))}
            if name.startswith('~'):
                m.destroyed = True
                return 0
            if name in ('size',):
                return len(m.entries)
            raise Unsupported('map method %s' % name)
        if e.get('opcall') and args and isinstance(args[0], MapIt):
            a0 = args[0]
            if name in ('operator==', 'operator!=') and len(args) == 2:
                return int((a0 == args[1]) == (name == 'operator=='))
            if name == 'operator++':
                if len(args) == 2:        # postfix: returns the old position
                    old_ = MapIt(a0.m, a0.pos)
                    a0.pos += 1
                    return old_
                a0.pos += 1
                return a0
            if name in ('operator->', 'operator*'):
                return a0
            raise Unsupported('map iterator %s' % name)
        if name == 'make_pair' and len(args) == 2:
            return (args[0], args[1])
        if name in ('move', 'forward') and len(args) == 1:
            return args[0]
        if name in ('move', 'copy') and len(args) == 3 and all(isinstance(a, Ptr) for a in args):
            # std::move / std::copy over node ranges: element-wise assignment (which releases what the target holds)
            first, last, dst = args
            k_ = 0
            while not (first + k_ == last):
                if k_ > 64:
                    raise UndefinedBehaviour('std::%s over an unbounded range' % name)
                tgt, src = (dst + k_).slot(), (first + k_).slot()
                if tgt is not src:
                    M.call('destroy', tgt)
                    tgt.copy_bits(src)
                    if name == 'move':
                        src.kind, src.val, src.own, src.block, src.length = 'null', None, None, None, 0
                k_ += 1
            return dst + k_
        # ---- string views
        if isinstance(o, tuple) and o and o[0] == 'sv':
            if name == 'data':
                return CharPtr(o[1], o[2]) if len(o) > 2 and o[2] is not None else ('chars', o[1])
            if name in ('size', 'length'):
                return len(o[1])
            raise Unsupported('string view method %s' % name)
        if name in ('operator==', 'operator!=') and len(args) == 2 and all(isinstance(a, tuple) and a and a[0] == 'sv' for a in args):
            return int((args[0][1] == args[1][1]) == (name == 'operator=='))
        if name in ('memcmp', '__builtin_memcmp') and len(args) == 3 and chars_text(args[0]) is not None and chars_text(args[1]) is not None:
            a_, b_, k_ = chars_text(args[0]), chars_text(args[1]), args[2]
            xa, xb = (a_ + '\x01' * 64)[:k_], (b_ + '\x02' * 64)[:k_]
            return (xa > xb) - (xa < xb)
        if e.get('k') == 'ctor' and (e.get('cname') or '') in ('basic_string_view', 'StringView') and len(args) == 2 and chars_text(args[0]) is not None:
            return ('sv', chars_text(args[0])[:args[1]], getattr(args[0], 'addr', None))
        if e.get('k') == 'ctor' and (e.get('cname') or '') in ('basic_string_view', 'StringView') and len(args) == 1 and chars_text(args[0]) is not None:
            # from a bare const char*: strlen decides - everything up to the end of the buffer the pointer points into
            return ('sv', chars_text(args[0]), getattr(args[0], 'addr', None))
        if name in ('InlinedMemcmpEq',) and len(args) == 3 and chars_text(args[0]) is not None and chars_text(args[1]) is not None:
            a_, b_, k_ = chars_text(args[0]), chars_text(args[1]), args[2]
            if k_ > len(a_) or k_ > len(b_):
                raise UndefinedBehaviour('%d bytes compared of strings with %d / %d bytes' % (k_, len(a_), len(b_)))
            return int(a_[:k_] == b_[:k_])
        # ---- allocator
        if name == 'Free' and len(args) == 1:
            a = args[0]
            if isinstance(a, int) and a == 0:
                return 0
            if not M.need_free:
                return 0
            if isinstance(a, Block):
                if a.map is not None and a.map is not UNINIT and not a.map.destroyed and False:
                    pass
                M.ledger.free(a.rid, 'children block')
                a.freed = True
                return 0
            if isinstance(a, MMap):
                M.ledger.free(a.rid, 'lookup map')
                return 0
            if isinstance(a, tuple) and a[0] == 'strbuf':
                M.ledger.free(a[1], 'copied string')
                return 0
            if isinstance(a, tuple) and a[0] == 'const':
                raise UndefinedBehaviour('Free() of a string that is not owned')
            raise Unsupported('Free(%r)' % (a,))
        if name == 'Malloc' and len(args) == 1:
            return MMap(M.ledger)       # the only raw allocation in the interpreted functions is the lookup map
        if e.get('k') == 'new':
            return None
        if e.get('k') == 'autodtor':
            if isinstance(args[0], V):
                M.call('destroy', args[0])
            return 0
        if e.get('k') == 'ctor' and (e.get('cname') or '') in ('DNode', 'GenericNode') and not args:
            return V('null')
        if e.get('opcall') and o is None and args and isinstance(args[0], (V, Ptr)):
            o = args[0]
        # ---- nodes
        if isinstance(o, (V, Ptr)):
            n = tv(o)
            if name == 'Size':
                if n.kind == 'uninit':
                    raise UndefinedBehaviour('Size() of an uninitialised slot')
                return n.length if n.kind in ('obj', 'arr') else (len(n.val) if n.kind in ('str', 'raw') else 0)
            if name == 'Capacity':
                return n.block.cap if n.block is not None else 0
            if name in ('IsObject', 'IsArray', 'IsContainer', 'IsString'):
                return int({'IsObject': n.kind == 'obj', 'IsArray': n.kind == 'arr', 'IsContainer': n.kind in ('obj', 'arr'), 'IsString': n.kind == 'str'}[name])
            if name == 'GetType':
                return M.sub(n)
            if name == 'getBasicType':
                return M.sub(n) & 7
            if name == 'children':
                return n.block if n.block is not None else 0
            if name == 'meta':
                return n.block if n.block is not None else 0
            if name == 'setChildren':
                a = args[0]
                n.block = None if (isinstance(a, int) and a == 0) else a
                if n.block is not None and not isinstance(n.block, Block):
                    raise Unsupported('setChildren(%r)' % (a,))
                return 0
            if name == 'setCapacity':
                n.block.cap = args[0]
                return 0
            if name in ('addLength', 'subLength'):
                n.length += args[0] if name == 'addLength' else -args[0]
                if n.length < 0:
                    raise UndefinedBehaviour('length below zero')
                return 0
            if name == 'setLength':
                if len(args) == 2:
                    M.settype(n, args[1])
                if n.kind in ('obj', 'arr', 'str', 'raw'):
                    n.length = args[0]
                if n.kind in ('obj', 'arr') and len(args) == 2:
                    n.block = None
                return 0
            if name == 'setType':
                M.settype(n, args[0])
                return 0
            if name in ('getObjChildrenFirst', 'getObjChildrenFirstUnsafe', 'getArrChildrenFirst', 'getArrChildrenFirstUnsafe'):
                if n.block is None:
                    if name.endswith('Unsafe'):
                        raise UndefinedBehaviour('%s() without a children block' % name)
                    return 0
                return Ptr(n.block, 0, 1)
            if name in ('memberBeginUnsafe', 'memberEndUnsafe', 'MemberBegin', 'MemberEnd', 'CMemberBegin', 'CMemberEnd', 'memberBeginImpl', 'memberEndImpl', 'cmemberBeginImpl', 'cmemberEndImpl'):
                if n.block is None:
                    if 'Unsafe' in name:
                        raise UndefinedBehaviour('%s() without a children block' % name)
                    return Ptr(None, 0, 2)
                return Ptr(n.block, 2 * n.length if 'End' in name else 0, 2)
            if name in ('Begin', 'End', 'CBegin', 'CEnd', 'beginImpl', 'endImpl', 'cbeginImpl', 'cendImpl'):
                if n.block is None:
                    return Ptr(None, 0, 1)
                return Ptr(n.block, n.length if 'nd' in name[-4:] or name in ('End', 'CEnd') else 0, 1)
            if name in ('getMap', 'getMapUnsfe'):
                if n.block is None:
                    if name == 'getMapUnsfe':
                        raise UndefinedBehaviour('getMapUnsfe() without a children block')
                    return 0
                if n.block.map is UNINIT:
                    raise UndefinedBehaviour('the map word of a children block is read before it was initialised')
                return n.block.map if n.block.map is not None else 0
            if name == 'setMap':
                if n.block is None:
                    raise UndefinedBehaviour('setMap() without a children block')
                a = args[0]
                n.block.map = None if (isinstance(a, int) and a == 0) else a
                return 0
            if name in ('containerMalloc', 'containerRealloc'):
                unit = 2 if 'Member' in (e.get('cdiag') or '') else 1
                if name == 'containerMalloc':
                    return Block(M.ledger, args[0], unit)
                old, old_cap, new_cap = args[0], args[1], args[2]
                nb = Block(M.ledger, new_cap, unit)
                if isinstance(old, Block):
                    if old.cap != old_cap:
                        raise UndefinedBehaviour('containerRealloc with old capacity %d for a block of capacity %d' % (old_cap, old.cap))
                    k = min(len(old.slots), len(nb.slots))
                    nb.slots[:k] = old.slots[:k]
                    nb.map = old.map
                    M.ledger.free(old.rid, 'children block')
                    old.freed = True
                else:
                    nb.map = UNINIT
                return nb
            if name == 'rawAssign':
                src = tv(args[0])
                n.copy_bits(src)
                src.kind, src.val, src.own, src.block, src.length = 'null', None, None, None, 0
                return 0
            if name == 'GetStringView':
                if n.kind != 'str':
                    raise UndefinedBehaviour('GetStringView() of a %s slot' % n.kind)
                if n.addr is None:
                    n.addr = new_addr()
                return ('sv', n.val, n.addr)
            if name == 'SetString':
                M.call('destroy', n)
                sv_ = args[0]
                n.kind, n.val, n.block, n.length = 'str', skey(sv_), None, 0
                n.addr = new_addr() if len(args) >= 2 else (sv_[2] if len(sv_) > 2 and sv_[2] is not None else new_addr())
                n.own = M.ledger.alloc('copied string %r' % n.val) if len(args) >= 2 else None
                if n.own is not None:
                    if not hasattr(M, 'str_owner'):
                        M.str_owner = {}
                    M.str_owner[n.own] = n
                return n
            if name in ('SetNull', 'setNullImpl'):
                M.call('destroy', n)
                n.kind, n.val, n.own, n.block, n.length = 'null', None, None, None, 0
                return n
            if name.startswith('~') and 'Node' in name and 'Meta' not in name:
                M.call('destroy', n)      # the destructor releases what the node owns; the bits stay
                return 0
            if name == 'operator=' :
                src = tv(args[-1])
                if src is n:
                    return n
                M.call('destroy', n)
                n.copy_bits(src)
                src.kind, src.val, src.own, src.block, src.length = 'null', None, None, None, 0
                return n
            if name in M.fns and name not in ('Size',):
                r_ = M.run(M.fns[name], n, args)
                return 0 if r_ is None else r_
            raise Unsupported('node method %s' % name)
        if isinstance(o, Block):
            if name.startswith('~'):       # ~MetaNode(): releases the map
                if o.map is UNINIT:
                    raise UndefinedBehaviour('the map word of a children block is read before it was initialised')
                if o.map is not None:
                    if M.need_free:
                        M.ledger.free(o.map.rid, 'lookup map')
                    o.map.destroyed = True
                return 0
            if name == 'SetMetaCap':
                o.cap = args[0]
                return 0
        if name in ('memmove', 'memcpy') and len(args) == 3:
            dst, src, nbytes = args
            if nbytes == 0:
                return dst
            dst = dst.p if isinstance(dst, MemberRef) else dst
            src = src.p if isinstance(src, MemberRef) else src
            if isinstance(dst, tuple) and dst and dst[0] == 'const':
                raise UndefinedBehaviour('%d byte(s) are stored into the character data of a constant string: the node only borrows them (caller memory, possibly read-only or shared with other documents)' % nbytes)
            if isinstance(dst, tuple) and dst and dst[0] == 'strbuf' and chars_text(src) is not None:
                # bytes written over the start of a string buffer the node owns
                node_ = getattr(M, 'str_owner', {}).get(dst[1])
                if node_ is None or node_.own != dst[1]:
                    raise Unsupported('%s into a string buffer whose owner is not tracked' % name)
                old_ = node_.val if isinstance(node_.val, str) else ''
                if nbytes > len(old_):
                    raise UndefinedBehaviour('%d bytes are stored into a string buffer of %d bytes' % (nbytes, len(old_)))
                node_.val = chars_text(src)[:nbytes] + old_[nbytes:]
                return dst
            if not (isinstance(dst, Ptr) and isinstance(src, Ptr)) or nbytes % 16:
                raise Unsupported('%s(%r, %r, %r)' % (name, dst, src, nbytes))
            cnt = nbytes // 16
            vals = []
            for j in range(cnt):
                s_ = src.slot(j)
                c = V()
                c.copy_bits(s_)
                vals.append(c)
            for j in range(cnt):
                dst.slot(j).copy_bits(vals[j])
            return dst
        return None

    def run(self, f, this, args):
        self.depth += 1
        if self.depth > 12:
            raise Unsupported('call depth')
        holder = []

        def hook(e, args, env, members):
            return self.generic_hook(e, args, env, members, holder[0])
        it = Interp(f, self.facts, call_hook=hook, max_steps=100000)
        holder.append(it)
        env = {'__this__': this}
        for p, a in zip(f.params, args):
            env[p['id']] = a
        try:
            r = it.run(env, {})[0]
        finally:
            self.depth -= 1
        return r
