"""E6 (part 9) — AtPointer / atPointerImpl against path lookup in the plain-container model.

The JSON-pointer lookups (AtPointer(GenericJsonPointer), the variadic AtPointer(key | index, ...) overloads and the
atPointerImpl behind them) are interpreted from their CFGs (current source) by sv/minterp.py over small trees laid out
as in sv/eq_model.py; the node accessors they call (IsObject / IsArray / IsNull / Size / FindMember / MemberEnd /
operator[] by index and by key / nested AtPointer) are answered from the tree model, operator[] by key answering a
missing key with the shared static null node exactly as the library documents, and an element read at or behind
Size() being undefined behaviour.  Obligation: the result is the address of the node the path designates in the model
(an object step selects a member with that key, an array step a valid index), or null when the path does not resolve
- never another node, never null for a node that is there (e.g. a member whose value is JSON null).
"""
from .core import strip, show, AnalysisBroken
from .minterp import Interp, Unsupported, UndefinedBehaviour
from .eq_model import N, It, Member, text


class PNode:
    """one step of a GenericJsonPointer"""
    def __init__(self, step):
        self.step = step


class PVec:
    def __init__(self, steps):
        self.nodes = [PNode(s) for s in steps]


class PIt:
    value_eq = True

    def __init__(self, vec, idx):
        self.vec, self.idx = vec, idx

    def __eq__(self, o):
        return isinstance(o, PIt) and o.vec is self.vec and o.idx == self.idx

    def __hash__(self):
        return hash((id(self.vec), self.idx))

    def __add__(self, k):
        return PIt(self.vec, self.idx + k)

    def __sub__(self, k):
        if isinstance(k, PIt):
            return self.idx - k.idx
        return PIt(self.vec, self.idx - k)

    def __lt__(self, o):
        return self.idx < o.idx

    def __le__(self, o):
        return self.idx <= o.idx

    def __gt__(self, o):
        return self.idx > o.idx

    def __ge__(self, o):
        return self.idx >= o.idx

    def deref(self):
        if not 0 <= self.idx < len(self.vec.nodes):
            raise UndefinedBehaviour('step #%d of a pointer with %d steps is read' % (self.idx, len(self.vec.nodes)))
        return self.vec.nodes[self.idx]


STATIC_NULL = N('null')      # the scratch node operator[](key) answers a missing key with


def expected(root, steps):
    """the set of acceptable results (node objects) - empty: the path does not resolve"""
    cur = [root]
    for s in steps:
        nxt = []
        for n in cur:
            if isinstance(s, str):
                if n.kind == 'obj':
                    nxt += [n.kids[j + 1] for j in range(0, len(n.kids), 2) if n.kids[j].val == s]
            else:
                if n.kind == 'arr' and 0 <= s < len(n.kids):
                    nxt.append(n.kids[s])
        cur = nxt
        if not cur:
            return []
    return cur


class AtP:
    def __init__(self, facts, fns_variadic, f_impl):
        """fns_variadic: the instantiated variadic AtPointer overloads; f_impl: one atPointerImpl instantiation"""
        self.facts, self.var, self.f_impl = facts, fns_variadic, f_impl
        self.calls = 0

    def pick(self, args, const):
        """the variadic overload for this argument list"""
        def kind(a):
            return 'key' if (isinstance(a, tuple) and a and a[0] == 'sv') or isinstance(a, bytes) else 'idx'
        for f in self.var:
            if len(f.params) != len(args) or bool(f.is_const) != bool(const):
                continue
            ok = True
            for p, a in zip(f.params, args):
                pk = 'key' if ('StringView' in p['t'] or 'char' in p['t'] or 'string' in p['t']) else 'idx'
                if pk != kind(a):
                    ok = False
            if ok:
                return f
        return None

    def run(self, f, this, args, depth=0):
        if depth > 6:
            raise Unsupported('AtPointer nested deeper than 6')
        self.calls += 1
        it = None

        def key_of(a):
            if isinstance(a, tuple) and a and a[0] == 'sv':
                return a[1]
            if isinstance(a, bytes):
                return a.decode('latin-1').rstrip('\0')
            raise Unsupported('key argument %r' % (a,))

        def hook(e, args, env, members):
            name = e.get('cname') or ''
            if name.startswith('__builtin_expect'):
                return None
            o = it.ev(e['obj'], env, members) if e.get('obj') is not None else None
            if e.get('opcall') and o is None and args:
                o = args[0]
            if e.get('k') == 'ctor':
                return None
            if isinstance(o, tuple) and o and o[0] == 'sv':
                if name.startswith('operator basic_string_view') or name.startswith('operator StringView'):
                    return o              # std::string -> string_view conversion
                if name in ('size', 'length'):
                    return len(o[1])
                if name == 'empty':
                    return int(not o[1])
            if isinstance(o, It) and name not in ('operator==', 'operator!=', 'operator*', 'operator->', 'operator++', 'operator--'):
                o = o.deref()
            if isinstance(o, PIt) and name not in ('operator==', 'operator!=', 'operator*', 'operator->', 'operator++', 'operator--', 'operator<'):
                o = o.deref()
            if isinstance(o, N):
                n = o
                if name == 'downCast':
                    return n
                if name == 'Size':
                    return len(n.kids) // 2 if n.kind == 'obj' else (len(n.kids) if n.kind == 'arr' else (len(n.val) if n.kind == 'str' else 0))
                if name == 'Empty':
                    return int(not n.kids)
                if name in ('IsObject', 'IsArray', 'IsString', 'IsNumber', 'IsNull', 'IsContainer'):
                    return int({'IsObject': n.kind == 'obj', 'IsArray': n.kind == 'arr', 'IsString': n.kind == 'str', 'IsNumber': n.kind in ('uint', 'sint', 'real'),
                                'IsNull': n.kind == 'null', 'IsContainer': n.kind in ('obj', 'arr')}[name])
                if name in ('MemberBegin', 'CMemberBegin'):
                    return It(n, 0, True)
                if name in ('MemberEnd', 'CMemberEnd'):
                    if n.kind != 'obj':
                        raise UndefinedBehaviour('MemberEnd() of a %s node' % n.kind)
                    return It(n, len(n.kids) // 2, True)
                if name in ('Begin', 'CBegin'):
                    return It(n, 0, False)
                if name in ('End', 'CEnd'):
                    return It(n, len(n.kids), False)
                if name in ('FindMember', 'HasMember'):
                    if n.kind != 'obj':
                        raise UndefinedBehaviour('%s() on a %s node' % (name, n.kind))
                    key = key_of(args[-1])
                    for j in range(0, len(n.kids), 2):
                        if n.kids[j].val == key:
                            return It(n, j // 2, True) if name == 'FindMember' else 1
                    return It(n, len(n.kids) // 2, True) if name == 'FindMember' else 0
                if name == 'operator[]':
                    a = args[-1]
                    if isinstance(a, int):
                        if n.kind != 'arr' or not 0 <= a < len(n.kids):
                            raise UndefinedBehaviour('operator[](%d) on %s' % (a, text(n)))
                        return n.kids[a]
                    key = key_of(a)
                    if n.kind != 'obj':
                        raise UndefinedBehaviour('operator[](key) on a %s node' % n.kind)
                    for j in range(0, len(n.kids), 2):
                        if n.kids[j].val == key:
                            return n.kids[j + 1]
                    return STATIC_NULL
                if name == 'AtPointer':
                    rest = args[1:] if e.get('opcall') else list(args)
                    if len(rest) == 1 and isinstance(rest[0], PVec):
                        return self.run(self.f_impl, n, rest, depth + 1)
                    g = self.pick(rest, False) or self.pick(rest, True)
                    if g is None:
                        raise Unsupported('no instantiated AtPointer overload for %d arguments' % len(rest))
                    return self.run(g, n, rest, depth + 1)
                if name == 'atPointerImpl':
                    return self.run(self.f_impl, n, list(args), depth + 1)
                g_ = self.facts.by_id.get(e.get('cid'))
                if g_ is not None and g_.blocks and depth < 6:
                    # a private helper of the node class: interpreted from its body, under whatever name it has
                    rest_ = args[1:] if e.get('opcall') else list(args)
                    if len(g_.params) == len(rest_):
                        return self.run(g_, n, rest_, depth + 1)
                raise Unsupported('node accessor %s' % name)
            if isinstance(o, PVec):
                if name in ('begin', 'cbegin'):
                    return PIt(o, 0)
                if name in ('end', 'cend'):
                    return PIt(o, len(o.nodes))
                if name == 'size':
                    return len(o.nodes)
                if name == 'empty':
                    return int(not o.nodes)
                if name in ('operator[]', 'at'):
                    return PIt(o, args[-1]).deref()
                raise Unsupported('pointer accessor %s' % name)
            if isinstance(o, PNode):
                s = o.step
                if name == 'IsStr':
                    return int(isinstance(s, str))
                if name == 'IsNum':
                    return int(not isinstance(s, str))
                if name == 'GetStr':
                    return ('sv', s if isinstance(s, str) else '')
                if name == 'GetNum':
                    return s if not isinstance(s, str) else 0
                if name == 'Size':
                    return len(s) if isinstance(s, str) else 0
                raise Unsupported('pointer node accessor %s' % name)
            if isinstance(o, (PIt, It)):
                other = args[-1]
                if name in ('operator==', 'operator!='):
                    same = (o == other)
                    return int(same == (name == 'operator=='))
                if name == 'operator<':
                    return int(o.idx < other.idx)
                if name in ('operator*', 'operator->'):
                    return o.deref()
                if name in ('operator++', 'operator--'):
                    old = type(o)(*( (o.vec, o.idx) if isinstance(o, PIt) else (o.owner, o.idx, o.members)))
                    o.idx += 1 if name == 'operator++' else -1
                    return old if len(args) > 1 else o
            return None
        it = Interp(f, self.facts, call_hook=hook, max_steps=20000)
        env = {'__this__': this}
        for p, a in zip(f.params, args):
            env[p['id']] = a
        r = it.run(env, {})[0]
        return r


def clause(facts, rep, tier):
    """E6.at-pointer: every instantiated AtPointer entry (GenericJsonPointer form through atPointerImpl, variadic
    key/index overloads, const and non-const, both allocator instantiations in the thorough tier) against path
    lookup in the model, for every path of <= 3 steps over keys present / absent / bound to null and indices in
    range / at size / negative, on an object root and an array root."""
    import itertools
    sel = [f for f in facts.functions if f.short in ('AtPointer', 'atPointerImpl') and f.name.startswith('sonic_json::GenericNode<sonic_json::DNode<')]
    groups = {}
    for f in sel:
        groups.setdefault(f.name.split('>::', 1)[0], []).append(f)
    rep.require(groups, 'C12: no instantiated AtPointer / atPointerImpl found')

    def S(v):
        return N('str', v)

    def U(v):
        return N('uint', v)

    def mk_obj():
        inner = N('obj', None, [S('a'), U(2), S('n'), N('null')])
        return N('obj', None, [S('a'), N('obj', None, [S('b'), U(1), S('n'), N('null'), S('a'), N('arr', None, [U(9)])]), S('n'), N('null'),
                               S('arr'), N('arr', None, [inner, N('null'), N('arr', None, [U(3)])]), S('s'), S('x')])

    def mk_arr():
        return N('arr', None, [N('obj', None, [S('a'), N('null'), S('n'), N('arr', None, [N('null'), U(4)])]), N('null'), N('arr', None, [mk_obj()]), U(5)])
    steps = ['a', 'n', 'arr', 'zz', 0, 1, 3, -1] if tier == 'thorough' else ['a', 'n', 'arr', 'zz', 0, 1, 4, -1]
    total = 0
    names = sorted(groups)
    for gname in (names if tier == 'thorough' else names[:1]):
        fs = groups[gname]
        impls = [f for f in fs if f.short == 'atPointerImpl']
        entries = [f for f in fs if f.short == 'AtPointer' and f.params and 'GenericJsonPointer' in f.params[0]['t']]
        var = [f for f in fs if f.short == 'AtPointer' and not (f.params and 'GenericJsonPointer' in f.params[0]['t'])]
        rep.require(impls and entries and len(var) >= 4, 'C12: AtPointer overloads of %s not all instantiated (impl %d, pointer entries %d, variadic %d)' % (gname, len(impls), len(entries), len(var)))
        for f in impls + entries + var:
            rep.fn(f)
        bad = None
        n = 0
        try:
            for impl in impls:
                A = AtP(facts, var, impl)
                st = 'basic_string_view' if 'basic_string_view' in impl.name else 'basic_string<'
                ents = [impl] + [x for x in entries if st in x.params[0]['t']]
                for ent in ents:
                    for mk in (mk_obj, mk_arr):
                        for L in range(0, 4):
                            for p in itertools.product(steps, repeat=L):
                                if L == 3 and ent is not impl and tier != 'thorough' and p[0] in ('zz', -1, 4):
                                    continue
                                root = mk()
                                want = expected(root, p)
                                try:
                                    r = A.run(ent, root, [PVec(p)])
                                except UndefinedBehaviour as ex:
                                    bad = (ent, 'AtPointer(/%s) on %s: undefined behaviour: %s' % ('/'.join(map(str, p)), text(root), ex))
                                    break
                                n += 1
                                if not ((r in (0, None) and not want) or any(r is w for w in want)):
                                    bad = (ent, 'AtPointer(/%s) on %s returns %s, the model has %s' % ('/'.join(map(str, p)), text(root),
                                                                                                       'null' if r in (0, None) else ('the shared null node of operator[]' if r is STATIC_NULL else 'the node ' + text(r)),
                                                                                                       ('the node ' + text(want[0])) if want else 'nothing there (null expected)'))
                                    break
                            if bad:
                                break
                        if bad:
                            break
                    if bad:
                        break
                if bad:
                    break
            # the variadic overloads: every instantiated shape, every argument combination
            if not bad:
                A = AtP(facts, var, impls[0])
                for g in var:
                    kinds = ['key' if ('StringView' in p_['t'] or 'char' in p_['t'] or 'string' in p_['t']) else 'idx' for p_ in g.params]
                    doms = [['a', 'n', 'arr', 'zz'] if k_ == 'key' else [0, 1, 2, 3, 7] for k_ in kinds]
                    for mk in (mk_obj, mk_arr):
                        for p in itertools.product(*doms):
                            root = mk()
                            want = expected(root, p)
                            args = [('sv', x) if isinstance(x, str) else x for x in p]
                            try:
                                r = A.run(g, root, args)
                            except UndefinedBehaviour as ex:
                                bad = (g, 'AtPointer(%s) on %s: undefined behaviour: %s' % (', '.join(map(repr, p)), text(root), ex))
                                break
                            n += 1
                            if not ((r in (0, None) and not want) or any(r is w for w in want)):
                                bad = (g, 'AtPointer(%s) on %s returns %s, the model has %s' % (', '.join(map(repr, p)), text(root),
                                                                                               'null' if r in (0, None) else ('the shared null node of operator[]' if r is STATIC_NULL else 'the node ' + text(r)),
                                                                                               ('the node ' + text(want[0])) if want else 'nothing there (null expected)'))
                                break
                        if bad:
                            break
                    if bad:
                        break
        except Unsupported as ex:
            raise AnalysisBroken('C12: AtPointer cannot be interpreted: %s' % ex)
        total += n
        f0 = bad[0] if bad else impls[0]
        rep.check(bad is None, 'E6.at-pointer', f0.qn, 'AtPointer == path lookup in the container model on %d (tree, path) pairs' % n, f0.loc, bad[1] if bad else '', facts.config)
    rep.extra['at_pointer_paths_explored'] = total
