"""E10 — compile-fail witnesses: each witness function must NOT compile. One TU per group is checked with
clang++ -fsyntax-only -Xclang -verify; a witness whose expected error is "not seen" compiles, i.e. the
type-level encoding no longer forbids the operation -> violation."""
import os
import re
import subprocess
from .core import VERIF, REPO, CONFIGS


def run_group(rep, path, config, rule, fn_label):
    src = os.path.join(VERIF, 'witnesses', path)
    lines = open(src).read().splitlines()
    wit = {}
    for i, l in enumerate(lines, 1):
        m = re.search(r'//\s*expected-error\s*(?:@[+-]?\d+)?\s*\{\{(.*?)\}\}\s*(?://\s*(.*))?$', l)
        if m:
            wit[i] = (l.split('//')[0].strip(), m.group(2) or '')
    cmd = ['clang++', '-fsyntax-only', '-Xclang', '-verify', '-Xclang', '-verify-ignore-unexpected=note', '-Xclang', '-verify-ignore-unexpected=warning',
           '-ferror-limit=0', '-I' + os.path.join(REPO, 'include'), '-Wno-everything'] + list(CONFIGS[config]) + [src]
    p = subprocess.run(cmd, stdout=subprocess.PIPE, stderr=subprocess.STDOUT)
    out = p.stdout.decode()
    not_seen = set()
    unexpected = []
    mode = None
    for l in out.splitlines():
        if 'diagnostics expected but not seen' in l:
            mode = 'ns'
            continue
        if 'diagnostics seen but not expected' in l:
            mode = 'un'
            continue
        m = re.search(r'Line (\d+)', l)
        if m and mode == 'ns':
            not_seen.add(int(m.group(1)))
        elif m and mode == 'un':
            unexpected.append(l.strip())
    if unexpected:
        rep.require(False, '%s: witness file %s has unexpected errors (the positive controls must compile): %s' % (rule, path, unexpected[:2]))
    for ln, (code, why) in sorted(wit.items()):
        rep.check(ln not in not_seen, rule, fn_label, 'must not compile: %s' % code[:90], 'witnesses/%s:%d' % (path, ln),
                  (why or 'the operation must be rejected by the type system') + (' -- it compiles now' if ln in not_seen else ''), config)
    rep.require(len(wit) >= 1, '%s: no witnesses in %s' % (rule, path))
    return len(wit)
