"""Core of the static-analysis framework: configurations, fact extraction with
content-addressed caching, IR helpers, report/evidence/known-finding handling.

Nothing in here (or in any rule module) executes sonic-cpp code: facts come from
clang's parser/CFG builder/constant evaluator via build/sonic-facts.
"""
import hashlib
import json
import os
import subprocess
import sys
import time

VERIF = os.path.dirname(os.path.dirname(os.path.abspath(__file__)))
REPO = os.environ.get('SONIC_REPO', '/repo')
CACHE = os.path.join(VERIF, '.cache')
TOOL = os.path.join(VERIF, 'build', 'sonic-facts')
EVID = os.environ.get('SONIC_EVIDENCE_DIR', os.path.join(VERIF, 'evidence'))

AVX2 = ['-mavx2', '-mbmi', '-mpclmul', '-mlzcnt']
SSE = ['-msse', '-msse2', '-msse4.1', '-msse4.2', '-mpclmul']
CONFIGS = {
    # production haswell, static dispatch
    'K1': ['-std=gnu++17'] + AVX2 + ['-DNDEBUG'],
    # what the unit tests build: sanitizer macros flip SONIC_USE_SANITIZE branches
    'K2': ['-std=gnu++17'] + AVX2 + ['-DNDEBUG', '-fsanitize=address'],
    # production westmere static
    'K3': ['-std=gnu++17'] + SSE + ['-DNDEBUG'],
    # dynamic dispatch (x86_ifuncs wrappers)
    'K4': ['-std=gnu++17'] + AVX2 + ['-DNDEBUG', '-DSONIC_DYNAMIC_DISPATCH=1'],
    # dynamic dispatch built for a portable (SSE4.2) baseline: the AVX2 kernels are still compiled (target attributes)
    # and chosen at run time, while every compile-time ISA macro says SSE
    'K8': ['-std=gnu++17'] + SSE + ['-DNDEBUG', '-DSONIC_DYNAMIC_DISPATCH=1'],
    # westmere under AddressSanitizer: the sanitizer-macro branches of the SSE kernels (the AVX2 ones are K2)
    'K9': ['-std=gnu++17'] + SSE + ['-DNDEBUG', '-fsanitize=address'],
    # locked allocator
    'K5': ['-std=gnu++17'] + AVX2 + ['-DNDEBUG', '-DSONIC_LOCKED_ALLOCATOR'],
    # adaptive memory pool policy
    'K6': ['-std=gnu++17'] + AVX2 + ['-DNDEBUG', '-DSONIC_ADAPTIVE_MEMORYPOOL'],
    # C++11: SONIC_IF_CONSTEXPR degrades to a plain if
    'K7': ['-std=c++11'] + AVX2 + ['-DNDEBUG'],
}


class AnalysisBroken(Exception):
    """exit 2: the tree can no longer be decided by this machinery."""


def _resource_dir():
    return subprocess.check_output(['clang++', '-print-resource-dir'], text=True).strip()


_tree_hash = None


def tree_hash():
    global _tree_hash
    if _tree_hash is not None:
        return _tree_hash
    h = hashlib.sha256()
    roots = [os.path.join(REPO, 'include')]
    files = []
    for r in roots:
        for dp, dn, fn in os.walk(r):
            dn.sort()
            for f in sorted(fn):
                files.append(os.path.join(dp, f))
    for f in sorted(files):
        h.update(f.encode())
        h.update(b'\0')
        with open(f, 'rb') as fh:
            h.update(fh.read())
        h.update(b'\0')
    _tree_hash = h.hexdigest()
    return _tree_hash


def _file_hash(path):
    with open(path, 'rb') as fh:
        return hashlib.sha256(fh.read()).hexdigest()


def relpath(p):
    """normalise a clang presumed filename to a repo-relative path"""
    if p is None:
        return '?'
    parts = p.split(':')
    f = os.path.normpath(parts[0])
    if f.startswith(REPO + '/'):
        f = f[len(REPO) + 1:]
    return ':'.join([f] + parts[1:])


def locline(loc):
    """'file:line' from 'file:line:col' (repo relative)"""
    r = relpath(loc)
    ps = r.split(':')
    return ':'.join(ps[:2])


def locfile(loc):
    return relpath(loc).split(':')[0]


class Facts:
    def __init__(self, data, config, driver):
        self.config = config
        self.driver = driver
        self.functions = [Function(f, self) for f in data['functions']]
        self.statics = data['statics']
        self.classes = data['classes']
        self.enums = data.get('enums', [])
        self.by_qn = {}
        self.by_id = {}
        for f in self.functions:
            self.by_qn.setdefault(f.qn, []).append(f)
            self.by_id[f.id] = f

    def funcs(self, qn=None, short=None, file=None, name_contains=None):
        out = []
        for f in self.functions:
            if qn is not None and f.qn != qn:
                continue
            if short is not None and f.short != short:
                continue
            if file is not None and not f.file.endswith(file):
                continue
            if name_contains is not None and name_contains not in f.name:
                continue
            out.append(f)
        return out

    def enum_values(self, prefix='sonic_json::'):
        """{enumerator name: value} over all enums whose qualified name starts with prefix"""
        out = {}
        for en in self.enums:
            if en['qn'].startswith(prefix) or en['qn'] == '':
                for v in en['values']:
                    out[v['name']] = int(v['v'])
        return out

    def static(self, qn=None, name=None):
        return [s for s in self.statics
                if (qn is None or s['qn'] == qn) and (name is None or s['name'] == name)]


def strip_targs(q):
    """remove balanced <...> template argument lists from a qualified name"""
    out = []
    depth = 0
    for ch in q:
        if ch == '<':
            depth += 1
        elif ch == '>':
            depth -= 1
        elif depth == 0:
            out.append(ch)
    return ''.join(out)


class Function:
    def __init__(self, d, facts):
        self.d = d
        self.facts = facts
        self.name = d['name']
        self.qn = strip_targs(d['qn']) if 'operator' not in d['qn'] else d['qn']
        self.short = d['short']
        self.loc = relpath(d['loc'])
        self.file = locfile(d['loc'])
        self.id = d['id']
        self.params = d.get('params', [])
        self.blocks = {b['id']: b for b in d.get('blocks', [])}
        self.entry = d.get('entry')
        self.exit = d.get('exit')
        self.cls = d.get('cls')
        self.cls_qn = d.get('cls_qn')
        self.is_const = d.get('const', False)
        self.attrs = d.get('attrs', [])
        self._preds = None

    def __repr__(self):
        return '<fn %s @%s>' % (self.name, self.loc)

    @property
    def preds(self):
        if self._preds is None:
            p = {b: [] for b in self.blocks}
            for b in self.blocks.values():
                for s in b['succs']:
                    if s is not None:
                        p[s].append(b['id'])
            self._preds = p
        return self._preds

    def stmts(self):
        """yield (block_id, index, stmt) for every top-level statement; the
        terminator condition is yielded with index 'cond'"""
        for b in self.d.get('blocks', []):
            for i, s in enumerate(b['stmts']):
                yield b['id'], i, s
            t = b.get('term')
            if t and t.get('cond') is not None:
                yield b['id'], 'cond', t['cond']

    def walk(self):
        """yield every expression node in the function (pre-order) with its
        (block, idx, top-level stmt)"""
        for bid, i, s in self.stmts():
            for e in walk(s):
                yield bid, i, s, e

    def calls(self, cname=None, callee=None):
        for bid, i, s, e in self.walk():
            if e.get('k') in ('call', 'ctor'):
                if cname is not None and e.get('cname') != cname:
                    continue
                if callee is not None and e.get('callee') != callee:
                    continue
                yield bid, i, s, e

    def succ_edges(self, bid):
        """[(succ, sense)] sense True/False for two-way branches, case value for
        switches, None otherwise"""
        b = self.blocks[bid]
        succs = b['succs']
        t = b.get('term')
        if t and t['cls'] == 'SwitchStmt':
            out = []
            for s in succs:
                if s is None:
                    continue
                out.append((s, ('case', self.blocks[s].get('case'))))
            return out
        if t and len(succs) == 2 and t.get('cond') is not None:
            return [(succs[0], True), (succs[1], False)]
        return [(s, None) for s in succs]


def walk(e):
    """pre-order walk over an expression tree (dict nodes)"""
    if isinstance(e, dict):
        yield e
        for k, v in e.items():
            if k in ('t', 'loc', 'sloc', 'cv'):
                continue
            if isinstance(v, (dict, list)):
                for x in walk(v):
                    yield x
    elif isinstance(e, list):
        for v in e:
            for x in walk(v):
                yield x


def strip(e):
    """strip casts"""
    while e is not None and e.get('k') == 'cast':
        e = e['e']
    return e


def strip_expect(e):
    """strip casts, __builtin_expect(x, c), and double negation"""
    while True:
        e = strip(e)
        if e is None:
            return e
        if e.get('k') == 'call' and e.get('cname') == '__builtin_expect':
            e = e['args'][0]
            continue
        if e.get('k') == 'un' and e['op'] == '!':
            inner = strip(e['e'])
            if inner is not None and inner.get('k') == 'un' and inner['op'] == '!':
                e = inner['e']
                continue
        return e


def cval(e):
    """folded integer constant of an expression, or None"""
    if e is None:
        return None
    if 'cv' in e:
        return int(e['cv'])
    s = strip(e)
    if s is None:
        return None
    if 'cv' in s:
        return int(s['cv'])
    if s.get('k') == 'lit':
        return int(s['v'])
    return None


def show(e, depth=0):
    """line-independent rendering of an expression tree (used in messages and as
    the normalised construct key of known findings)"""
    if e is None:
        return ''
    if depth > 12:
        return '...'
    k = e.get('k')
    d = depth + 1
    if k == 'cast':
        return show(e['e'], d)
    if k == 'lit':
        return e['v']
    if k == 'flit':
        return e['v']
    if k == 'str':
        return '"' + ''.join(chr(b) if 32 <= b < 127 and b != 34 else '\\x%02x' % b for b in e['bytes']) + '"'
    if k == 'ref':
        return e['name']
    if k == 'member':
        b = strip(e.get('base'))
        if b is not None and b.get('k') == 'this':
            return e['name']
        return show(e.get('base'), d) + ('->' if e.get('arrow') else '.') + e['name']
    if k == 'this':
        return 'this'
    if k == 'sub':
        return '%s[%s]' % (show(e['base'], d), show(e['idx'], d))
    if k == 'un':
        if e.get('post'):
            return '%s%s' % (show(e['e'], d), e['op'])
        return '%s%s' % (e['op'], show(e['e'], d))
    if k == 'bin':
        return '(%s %s %s)' % (show(e['l'], d), e['op'], show(e['r'], d))
    if k == 'cond':
        return '(%s ? %s : %s)' % (show(e['c'], d), show(e['a'], d), show(e['b'], d))
    if k == 'call':
        args = ', '.join(show(a, d) for a in e.get('args', []))
        if e.get('obj') is not None:
            o = strip(e['obj'])
            if o is not None and o.get('k') == 'this':
                return '%s(%s)' % (e.get('cname', '?'), args)
            return '%s.%s(%s)' % (show(e['obj'], d), e.get('cname', '?'), args)
        return '%s(%s)' % (e.get('cname', e.get('callee', '?')), args)
    if k == 'ctor':
        return '%s{%s}' % (e.get('cls', '?').split('::')[-1], ', '.join(show(a, d) for a in e.get('args', [])))
    if k == 'decl':
        return '; '.join('%s %s = %s' % (v['t'], v['name'], show(v.get('init'), d)) for v in e['vars'])
    if k == 'ret':
        return 'return %s' % show(e.get('e'), d)
    if k == 'new':
        pl = ', '.join(show(a, d) for a in e.get('placement', []))
        return 'new(%s) %s %s' % (pl, e.get('at'), show(e.get('init'), d))
    if k == 'sizeof':
        return 'sizeof(%s)' % (e.get('of') or show(e.get('of_e'), d))
    if k == 'init':
        return '%s(%s)' % (e.get('field', e.get('base', '?')), show(e.get('e'), d))
    if k == 'autodtor':
        return '~%s()' % e.get('name')
    if k == 'initlist':
        return '{%s}' % ', '.join(show(a, d) for a in e.get('args', []))
    if k == 'zeroinit':
        return '{}'
    if k == 'delete':
        return 'delete %s' % show(e.get('e'), d)
    return '<%s %s>' % (k, e.get('cls', ''))


def is_this_member(e, name=None):
    e = strip(e)
    if e is None or e.get('k') != 'member':
        return False
    b = strip(e.get('base'))
    if b is None or b.get('k') != 'this':
        return False
    return name is None or e['name'] == name


def tightest(f, pred):
    """[(block, index, stmt, expr)] of the expressions satisfying pred, one per source construct: the CFG lists the
    operands of `a && b`, `c ? x : y` also as statements of their own in the blocks guarded by a / c, and again inside
    the full expression in the join block - the occurrence inside the SMALLEST statement is the one evaluated under
    the tightest path condition"""
    best = {}
    for bid, i, s, e in f.walk():
        if not pred(e):
            continue
        k = (show(e), e.get('loc'))
        sz = sum(1 for _ in walk(s))
        if k not in best or sz < best[k][0]:
            best[k] = (sz, bid, i, s, e)
    return [v[1:] for v in best.values()]


def cond_sense(cond, sense):
    """(condition with __builtin_expect / casts / leading negations removed, the sense of the edge for THAT condition)"""
    c = strip_expect(cond)
    while c is not None and c.get('k') == 'un' and c.get('op') == '!' and sense in (True, False):
        sense = not sense
        c = strip_expect(c['e'])
    return c, sense


def callee_of(facts, e):
    """the function fact a call expression resolves to (None for externals / unresolved templates)"""
    return facts.by_id.get(e.get('cid')) if e is not None else None


def fn_nulls_member(g, name, depth=2, facts=None):
    """g (a method) stores 0 / nullptr into its own member `name` (directly or through a helper it calls on itself)"""
    if g is None:
        return False
    for _, _, _, x in g.walk():
        if x.get('k') == 'bin' and x['op'] == '=' and is_this_member(x['l'], name) and cval(x['r']) == 0:
            return True
        if depth > 0 and facts is not None and x.get('k') == 'call' and x.get('cid') is not None and x.get('cid') != g.id:
            ob = strip(x.get('obj')) if x.get('obj') is not None else None
            if (ob is None or ob.get('k') == 'this') and fn_nulls_member(callee_of(facts, x), name, depth - 1, facts):
                return True
    return False


def fn_calls(g, names, depth=2, facts=None):
    """g calls (directly or through helpers of its own class) a function whose name is in `names`"""
    if g is None:
        return False
    for _, _, _, x in g.walk():
        if x.get('k') == 'call':
            if x.get('cname') in names:
                return True
            if depth > 0 and facts is not None and x.get('cid') is not None and x.get('cid') != g.id and fn_calls(callee_of(facts, x), names, depth - 1, facts):
                return True
    return False


def get_facts(config, driver='api', extra_flags=None, norm=False):
    """Run (or fetch from cache) the extractor for one driver TU under one
    configuration. The cache key covers every byte under /repo/include, the
    driver, the flags and the extractor binary, so any edit forces re-extraction."""
    flags = list(CONFIGS[config]) + (extra_flags or [])
    src = driver if os.path.isabs(driver) else os.path.join(VERIF, 'drivers', driver + '.cpp')
    if not os.path.exists(TOOL):
        raise AnalysisBroken('extractor not built: run MANIFEST.setup_cmd (%s missing)' % TOOL)
    key = hashlib.sha256(json.dumps([tree_hash(), _file_hash(src), flags, _file_hash(TOOL), REPO]).encode()).hexdigest()[:24]
    os.makedirs(CACHE, exist_ok=True)
    path = os.path.join(CACHE, '%s-%s-%s.json' % (os.path.basename(src).split('.')[0], config, key))
    if not os.path.exists(path):
        cmd = [TOOL, src, '--', '-resource-dir', _resource_dir(), '-I' + os.path.join(REPO, 'include'),
               '-I' + REPO, '-Wno-everything'] + flags
        p = subprocess.run(cmd, stdout=subprocess.PIPE, stderr=subprocess.PIPE)
        if p.returncode != 0:
            raise AnalysisBroken('extractor failed for %s/%s: %s' % (driver, config, p.stderr.decode()[-2000:]))
        tmp = path + '.%d.tmp' % os.getpid()
        with open(tmp, 'wb') as fh:
            fh.write(p.stdout)
        os.replace(tmp, path)
        _prune_cache()
    with open(path) as fh:
        data = json.load(fh)
    if data.get('errors'):
        raise AnalysisBroken('translation unit %s/%s does not compile' % (driver, config))
    if norm:
        from . import normalize as _nz
        _nz.normalize(data)          # locals that merely name a side-effect-free expression are replaced by it (sv/normalize.py)
    return Facts(data, config, driver)


def _prune_cache(keep=40):
    try:
        fs = sorted((os.path.getmtime(os.path.join(CACHE, f)), f) for f in os.listdir(CACHE) if f.endswith('.json'))
        for _, f in fs[:-keep]:
            os.unlink(os.path.join(CACHE, f))
    except OSError:
        pass


# ---------------------------------------------------------------------------
# reporting


class Report:
    def __init__(self, prop, tier, seed):
        self.prop = prop
        self.tier = tier
        self.seed = seed
        self.t0 = time.time()
        self.obligations = []     # dicts: rule, instance, loc, ok, detail
        self.violations = []      # dicts: rule, function, construct, loc, detail, config
        self.notes = []
        self.units = set()
        self.configs = set()
        self.functions = set()
        self.rule_counts = {}
        self.trusted = set()
        self.assumptions = []
        self.extra = {}
        self.broken = []

    # -- recording
    def unit(self, facts):
        self.units.add('%s/%s' % (facts.driver, facts.config))
        self.configs.add(facts.config)

    def fn(self, f):
        self.functions.add(f.name if hasattr(f, 'name') else str(f))

    def ok(self, rule, instance, loc='', detail=''):
        self.obligations.append(dict(rule=rule, instance=instance, loc=loc, ok=True, detail=detail))
        self.rule_counts[rule] = self.rule_counts.get(rule, 0) + 1

    def fail(self, rule, function, construct, loc, detail, config='', path=None):
        self.obligations.append(dict(rule=rule, instance='%s: %s' % (function, construct), loc=loc, ok=False, detail=detail))
        self.rule_counts[rule] = self.rule_counts.get(rule, 0) + 1
        v = dict(rule=rule, function=function, construct=construct, loc=loc, detail=detail, config=config)
        if path:
            v['path'] = path
        # the same construct seen through several instantiations/configurations is one violation
        for w in self.violations:
            if (w['rule'], w['function'], w['construct']) == (rule, function, construct):
                w.setdefault('also', [])
                if (config, loc) not in [tuple(x) for x in w['also']]:
                    w['also'].append([config, loc])
                return
        self.violations.append(v)

    def check(self, cond, rule, function, construct, loc, detail='', config=''):
        if cond:
            self.ok(rule, '%s: %s' % (function, construct), loc, detail)
        else:
            self.fail(rule, function, construct, loc, detail, config)
        return cond

    def require(self, cond, what):
        """vacuity / anchor guard: failing it is exit 2, not a violation"""
        if not cond:
            self.broken.append(what)
        return cond

    def min_instances(self, rule, n):
        got = self.rule_counts.get(rule, 0)
        self.require(got >= n, 'rule %s matched %d instances, confirmed minimum is %d' % (rule, got, n))

    def trust(self, *items):
        self.trusted.update(items)

    def corroborate(self, rule, by, only=None):
        """`rule` is a structural (shape-matching) rule whose clause is ALSO decided, on the current source, by the
        exploration rule `by` in this run.  A failure of `rule` that `by` does not confirm means the code has a shape
        the matcher does not recognise (renamed local, extracted helper, inverted branch): reported as analysis-broken
        (exit 2), not as a violation.  A failure that `by` confirms stays a violation."""
        if not hasattr(self, 'corroborated'):
            self.corroborated = {}
            self.corroborated_only = {}
        self.corroborated[rule] = by
        if only is not None:
            self.corroborated_only[rule] = only      # predicate on the violation: which constructs the exploration covers

    def corroborate_floor(self, prefix, by):
        """an instance floor / anchor binding of a corroborated shape rule (broken-messages starting with `prefix`): when the
        exploration `by` ran and passed, a shortfall (sites merged into a helper, a binder that no longer finds its
        spelling) is a note, not a broken analysis"""
        if not hasattr(self, 'corroborated_floors'):
            self.corroborated_floors = {}
        self.corroborated_floors[prefix] = by

    def _apply_corroboration(self):
        fl = getattr(self, 'corroborated_floors', {})
        if fl:
            keepb = []
            for b in self.broken:
                by = next((v for k, v in fl.items() if b.startswith(k)), None)
                if by is not None and any(o.get('rule') == by and o.get('ok') for o in self.obligations) and not any(w['rule'] == by for w in self.violations):
                    self.notes.append('%s - not reconstructed for this spelling of the code; the clause rests on the exploration %s, which ran on the current source and found no counterexample' % (b, by))
                    self.extra.setdefault('shape_rules_not_reconstructed', []).append(dict(rule=b[:60], decided_by=by))
                else:
                    keepb.append(b)
            self.broken = keepb
        cor = getattr(self, 'corroborated', {})
        if not cor:
            return
        keep = []
        for v in self.violations:
            by = cor.get(v['rule'])
            only_ = getattr(self, 'corroborated_only', {}).get(v['rule'])
            if by is None or (only_ is not None and not only_(v)):
                keep.append(v)
                continue
            by_failed = any(w['rule'] == by for w in self.violations)
            by_ran = any(o.get('rule') == by and o.get('ok') for o in self.obligations) or by_failed
            if by_failed:
                keep.append(v)
            elif by_ran:
                # decided by the exploration alone: the all-paths argument of the shape rule could not be rebuilt for this
                # spelling of the code - recorded (note + evidence), neither a violation nor a broken analysis
                msg = ('%s: proof not reconstructed for %s at %s (%s); the exploration %s interprets this function on the current source and found no counterexample - '
                       'the clause rests on the exploration (bounded) for this construct' % (v['rule'], v['construct'], v['loc'], v['function'], by))
                self.notes.append(msg)
                self.extra.setdefault('shape_rules_not_reconstructed', []).append(dict(rule=v['rule'], construct=v['construct'], loc=v['loc'], function=v['function'], decided_by=by))
                for o in self.obligations:
                    if o.get('rule') == v['rule'] and not o.get('ok') and v['construct'] in (o.get('instance') or ''):
                        o['ok'] = True
                        o['detail'] = 'decided by %s (shape proof not reconstructed)' % by
            else:
                self.broken.append('%s: proof not reconstructed for %s at %s and the corroborating exploration %s did not run' % (v['rule'], v['construct'], v['loc'], by))
        self.violations = keep

    # -- finishing
    def finish(self, level='proof', explanation=None):
        self._apply_corroboration()
        known = load_known()
        kn = [k for k in known.get('known', []) if k['property'] == self.prop]
        printed = []
        real = []
        for v in self.violations:
            m = None
            for k in kn:
                if k['rule'] == v['rule'] and k['function'] == v['function'] and k['construct'] == v['construct']:
                    m = k
                    break
            if m:
                printed.append((m, v))
            else:
                real.append(v)
        os.makedirs(os.path.join(EVID, 'replay'), exist_ok=True)
        # remove stale replay files of this property
        rdir = os.path.join(EVID, 'replay')
        for f in os.listdir(rdir):
            if f.startswith(self.prop + '-'):
                os.unlink(os.path.join(rdir, f))
        lines = []
        for m, v in printed:
            lines.append('KNOWN-FINDING: property=%s %s [%s] %s at %s — %s' % (
                self.prop, m.get('what', ''), v['rule'], v['construct'], v['loc'], v['detail']))
        for i, v in enumerate(real):
            rp = os.path.join(rdir, '%s-%d.json' % (self.prop, i))
            with open(rp, 'w') as fh:
                json.dump(dict(property=self.prop, **v), fh, indent=1)
            lines.append('VIOLATION property=%s replay=%s' % (self.prop, rp))
            lines.append('  rule=%s function=%s' % (v['rule'], v['function']))
            lines.append('  construct: %s' % v['construct'])
            lines.append('  at %s (%s): %s' % (v['loc'], v.get('config', ''), v['detail']))
        nob = len(self.obligations)
        nok = sum(1 for o in self.obligations if o['ok'])
        status = 0
        if real:
            status = 1      # a concrete violating construct was found (reported even if another rule lost its anchor)
        elif self.broken:
            status = 2
        lvl = level
        cov = {}
        import random
        rnd = random.Random(self.seed)
        samples = [o for o in self.obligations if not o['ok']][:10]
        oks = [o for o in self.obligations if o['ok']]
        # one sample per rule first, then random fill
        seen = set()
        for o in oks:
            if o['rule'] not in seen:
                seen.add(o['rule'])
                samples.append(o)
        rest = [o for o in oks if o not in samples]
        rnd.shuffle(rest)
        samples += rest[:max(0, 24 - len(samples))]
        if printed and lvl == 'proof':
            # an unrepaired known finding: never a proof-level claim
            lvl = 'other'
            explanation = (explanation or '') + ' %d known finding(s) remain unrepaired (see known_findings.json); all other obligations discharged.' % len(printed)
        cov.update(dict(
            obligations=nob, discharged=nok,
            checker_cmd='./check %s --tier %s' % (self.prop, self.tier),
            trusted_base=sorted(self.trusted),
            samples=samples,
            units=sorted(self.units), configurations=sorted(self.configs),
            functions_analysed=len(self.functions),
            functions=sorted(self.functions)[:400],
            rule_instances=dict(sorted(self.rule_counts.items())),
            known_findings=[dict(rule=v['rule'], function=v['function'], construct=v['construct'], loc=v['loc']) for m, v in printed],
            notes=self.notes,
        ))
        if lvl == 'other' or explanation:
            cov['explanation'] = explanation or ''
        cov.update(self.extra)
        if self.broken:
            cov['analysis_broken'] = self.broken
        ev = dict(property_id=self.prop, tier=self.tier, seed=self.seed, level=lvl, coverage=cov,
                  assumptions=self.assumptions, wall_s=round(time.time() - self.t0, 3),
                  violations=len(real))
        with open(os.path.join(EVID, self.prop + '.json'), 'w') as fh:
            json.dump(ev, fh, indent=1, sort_keys=False)
        print('%s tier=%s: %d obligations, %d discharged, %d violations, %d known findings; units=%s; functions=%d; rules=%s' % (
            self.prop, self.tier, nob, nok, len(real), len(printed), ','.join(sorted(self.units)), len(self.functions),
            json.dumps(dict(sorted(self.rule_counts.items())))))
        for n in self.notes:
            print('note: ' + n)
        for l in lines:
            print(l)
        for b in self.broken:
            print('ANALYSIS-BROKEN property=%s %s' % (self.prop, b))
        return status


def load_known():
    p = os.path.join(VERIF, 'known_findings.json')
    if not os.path.exists(p):
        return {'known': [], 'fixed': []}
    with open(p) as fh:
        return json.load(fh)
