"""Lossless-narrowing rule for the digit formatters (ftoa.h / itoa.h).

Every explicit 64 -> 32 bit cast of a *variable* must be value preserving:

  * directly used (initialiser, assignment, call argument, return): on every
    path the variable is known to be < 2^32, either from a dominating guard -
    decided by evaluating the guard over the wrap-around candidate values of the
    variable, so `(x >> 32) == 0`, `x < 100000000`, `x <= 0xFFFFFFFF` ... all
    count - or because it was just assigned `x / K` of a value with a stated
    upper bound;
  * inside modular arithmetic: only the remainder idiom
        (u32)X - K * (u32)Q      with  Q := X / K   (same K, X unchanged)
    is accepted (the true value X mod K < K <= 2^32 survives reduction mod 2^32).
    Any other arithmetic use is "analysis broken" (exit 2), not a violation.

The rule decides that no digits are lost by truncation; it does not decide which
digits are printed.
"""
from .core import strip, strip_expect, cval, show, walk, locline, AnalysisBroken
from .e2_dom import Must

M64 = 2 ** 64 - 1


def _w(t):
    t = (t or '').replace('const ', '')
    if '64' in t or 'long' in t or t == 'size_t':
        return 64
    if '32' in t or t in ('int', 'unsigned int', 'unsigned'):
        return 32
    return None


def _inner_var(e):
    x = e['e']
    while x is not None and x.get('k') == 'cast' and x.get('ck') in ('LValueToRValue', 'NoOp'):
        x = x['e']
    if x is not None and x.get('k') == 'ref' and x.get('dk') in ('local', 'param') and _w(x.get('t')) == 64:
        return x
    return None


def _var_under(x):
    """the 64-bit variable under a chain of casts / parentheses, or None"""
    while x is not None and x.get('k') in ('cast', 'paren'):
        x = x['e']
    if x is not None and x.get('k') == 'ref' and x.get('dk') in ('local', 'param') and _w(x.get('t')) == 64:
        return x
    return None


def _eval(e, env):
    """lazy evaluator of a guard over one 64-bit unsigned variable"""
    c = cval(e)
    e_ = strip(e)
    if e_ is None:
        raise KeyError('empty')
    k = e_.get('k')
    if c is not None and k != 'ref':
        return c & M64 if c < 0 else c
    if k == 'ref':
        if e_['id'] in env:
            return env[e_['id']]
        if c is not None:
            return c
        raise KeyError(e_.get('name'))
    if k == 'call' and e_.get('cname') == '__builtin_expect':
        return _eval(e_['args'][0], env)
    if k == 'un':
        v = _eval(e_['e'], env)
        if e_['op'] == '!':
            return int(not v)
        if e_['op'] == '~':
            return ~v & M64
        if e_['op'] == '-':
            return -v & M64
        raise KeyError(e_['op'])
    if k == 'bin':
        op = e_['op']
        l = _eval(e_['l'], env)
        if op == '&&':
            return int(bool(l) and bool(_eval(e_['r'], env)))
        if op == '||':
            return int(bool(l) or bool(_eval(e_['r'], env)))
        r = _eval(e_['r'], env)
        if op == '>>':
            return l >> r if 0 <= r < 64 else 0
        if op == '<<':
            return (l << r) & M64 if 0 <= r < 64 else 0
        if op in ('/', '%'):
            if r == 0:
                raise KeyError('division by zero')
            return l // r if op == '/' else l % r
        f_ = {'&': lambda: l & r, '|': lambda: l | r, '^': lambda: l ^ r, '+': lambda: (l + r) & M64, '-': lambda: (l - r) & M64, '*': lambda: (l * r) & M64,
              '<': lambda: int(l < r), '<=': lambda: int(l <= r), '>': lambda: int(l > r), '>=': lambda: int(l >= r), '==': lambda: int(l == r), '!=': lambda: int(l != r)}.get(op)
        if f_ is None:
            raise KeyError(op)
        return f_()
    raise KeyError(show(e_))


def _cands(cond):
    cs = set()
    for y in walk(cond):
        if y.get('cv') is not None:
            try:
                cs.add(int(y['cv']) & M64)
            except ValueError:
                pass
    vs = set(range(0, 0x41)) | set(range(M64 - 0x40, M64 + 1))
    for c in list(cs) + [2 ** 32, 2 ** 31, 2 ** 63, 10 ** 8, 10 ** 16, 10 ** 17]:
        for d in range(-2, 3):
            vs.add((c + d) & M64)
            vs.add((-c + d) & M64)
            for sh in (8, 16, 32):
                vs.add(((c << sh) + d) & M64)
    return sorted(vs)


def check(facts, rep, rule, files, bounds=None, min_sites=1):
    """bounds: {(function short name, parameter name): exclusive upper bound} - stated contracts of callers"""
    bounds = bounds or {}
    n = 0
    for f in facts.functions:
        if not f.loc.split(':')[0].endswith(tuple(files)):
            continue
        sites = []
        for bid, i, s, e in f.walk():
            if e.get('k') == 'cast' and e.get('ck') == 'IntegralCast' and _w(e.get('t')) == 32:
                v = _inner_var(e)
                if v is not None:
                    sites.append((bid, i, s, e, v))
        if not sites:
            continue
        rep.fn(f)
        # definitions  Q := X / K
        quot = {}
        for bid, i, s in f.stmts():
            s_ = strip(s)
            if s_ is not None and s_.get('k') == 'decl':
                for vd in s_['vars']:
                    ini = strip(vd.get('init')) if vd.get('init') is not None else None
                    if ini is not None and ini.get('k') == 'bin' and ini['op'] == '/' and cval(ini['r']) is not None:
                        x = strip(ini['l'])
                        if x is not None and x.get('k') == 'ref':
                            quot[vd['id']] = (x['id'], cval(ini['r']))
        vids = set(v['id'] for _, _, _, _, v in sites)
        ub = {}
        for p in f.params:
            b = bounds.get((f.short, p.get('name')))
            if b is not None:
                ub[p['id']] = b

        def gen_edge(b, cond, sense):
            c = strip_expect(cond)
            if c is None:
                return []
            ids = set(y.get('id') for y in walk(c) if y.get('k') == 'ref' and y.get('dk') in ('local', 'param'))
            if len(ids) != 1 or not (ids & vids):
                return []
            vid = next(iter(ids))
            try:
                sat = [v for v in _cands(c) if bool(_eval(c, {vid: v})) == sense]
            except KeyError:
                return []
            return ['fits:%d' % vid] if all(v < 2 ** 32 for v in sat) else []

        def assigned(s_):
            out = []
            for y in walk(s_):
                if y.get('k') == 'bin' and y['op'] in ('=', '+=', '-=', '*=', '/=', '%=', '<<=', '>>=', '|=', '&=', '^=') and strip(y['l']) is not None and strip(y['l']).get('k') == 'ref':
                    out.append((strip(y['l'])['id'], y))
                if y.get('k') == 'un' and y['op'] in ('++', '--') and strip(y['e']) is not None and strip(y['e']).get('k') == 'ref':
                    out.append((strip(y['e'])['id'], y))
            return out

        def kill_stmt(st):
            s_ = strip(st)
            return ['fits:%d' % vid for vid, _ in assigned(s_) if vid in vids] if s_ is not None else []

        def gen_stmt(st):
            # X = Q with Q := X0 / K and X0 < bound  =>  X < ceil(bound / K)
            s_ = strip(st)
            out = []
            if s_ is None:
                return out
            for vid, y in assigned(s_):
                if vid in vids and y.get('k') == 'bin' and y['op'] == '=':
                    r = strip(y['r'])
                    if r is not None and r.get('k') == 'ref' and r.get('id') in quot:
                        x0, k = quot[r['id']]
                        b = ub.get(x0)
                        if b is not None and k > 0 and (b - 1) // k < 2 ** 32:
                            out.append('fits:%d' % vid)
                    elif cval(y['r']) is not None and 0 <= cval(y['r']) < 2 ** 32:
                        out.append('fits:%d' % vid)
            return out
        M = Must(f, gen_stmt=gen_stmt, kill_stmt=kill_stmt, gen_edge=gen_edge)
        for bid, i, s, e, v in sites:
            st = M.at(bid, i)
            if st is None:
                continue
            # is the cast used directly, or inside arithmetic?
            s_ = strip(s)
            direct = False
            parents = []

            def find(x, path):
                if x is e:
                    parents.extend(path)
                    return True
                if isinstance(x, dict):
                    for k_, v_ in x.items():
                        if k_ in ('t', 'loc', 'sloc', 'cv'):
                            continue
                        if isinstance(v_, (dict, list)) and find(v_, path + [x]):
                            return True
                elif isinstance(x, list):
                    for y in x:
                        if find(y, path):
                            return True
                return False
            find(s if isinstance(s, dict) else s_, [])
            arith = [p for p in parents if p.get('k') == 'bin' and p['op'] in ('+', '-', '*', '/', '%', '<<', '>>', '&', '|', '^')]
            n += 1
            if not arith:
                rep.check('fits:%d' % v['id'] in st, rule, f.qn, '(32-bit) %s in %s' % (v.get('name'), show(s_)[:70]), locline(e['loc']),
                          'a 64-bit value is truncated to 32 bits: it must be known to be < 2^32 on every path (guard on the variable, or quotient of a bounded value)', facts.config)
                continue
            # remainder idiom  (u32)X - K*(u32)Q , Q := X / K
            top = arith[0]
            ok = False
            if top['op'] == '-':
                l = strip(top['l'])
                r = strip(top['r'])
                lx = _var_under(top['l'])
                if lx is not None and r is not None and r.get('k') == 'bin' and r['op'] == '*':
                    for a, b_ in ((r['l'], r['r']), (r['r'], r['l'])):
                        k = cval(a)
                        qv = _var_under(b_)
                        if k is not None and qv is not None and quot.get(qv['id']) == (lx['id'], k) and k <= 2 ** 32:
                            # Q's definition precedes in the same block and X is not written in between
                            B = f.blocks[bid]['stmts']
                            di = [j for j, t_ in enumerate(B[:i]) if strip(t_) is not None and strip(t_).get('k') == 'decl' and any(vd['id'] == qv['id'] for vd in strip(t_)['vars'])]
                            if di and not any(vid == lx['id'] for t_ in B[di[-1]:i] for vid, _ in assigned(strip(t_)) if strip(t_) is not None):
                                ok = True
            if not ok:
                raise AnalysisBroken('%s: narrowing cast of %s inside arithmetic that is not the remainder idiom at %s' % (rule, v.get('name'), locline(e['loc'])))
            rep.ok(rule, '%s: remainder idiom (u32)X - K*(u32)(X/K) keeps X mod K exactly: %s' % (f.qn, show(s_)[:70]), locline(e['loc']))
    rep.require(n >= min_sites, '%s: only %d narrowing sites found in %s' % (rule, n, files))
