"""E5 — constant-table verification with exact big-integer arithmetic.

Every oracle below is computed from the mathematical / RFC definition, never
copied from the source. Table contents come from clang's constant evaluator
(facts.statics[*].value)."""
from fractions import Fraction
import struct
from .core import locline, strip_targs


def arr(v):
    """APValue json -> python list (recursively), ints parsed, fillers expanded"""
    if isinstance(v, str):
        return int(v)
    if isinstance(v, dict):
        if 'arr' in v:
            xs = [arr(x) for x in v['arr']]
            if 'filler' in v and v.get('size', len(xs)) > len(xs):
                f = arr(v['filler'])
                xs += [f] * (v['size'] - len(xs))
            return xs
        if 'struct' in v:
            return tuple(arr(x) for x in v['struct'])
        if 'strbytes' in v:
            return bytes(v['strbytes'])
        if 'bits' in v:
            return ('float', int(v['bits'], 16))
        if 'nullptr' in v:
            return None
        if 'vec' in v:
            return [arr(x) for x in v['vec']]
    return v


def find_static(facts, name=None, qn=None, func_contains=None):
    out = []
    for s in facts.statics:
        if name is not None and s['name'] != name:
            continue
        if qn is not None and s['qn'] != qn:
            continue
        if func_contains is not None and func_contains not in s.get('func', ''):
            continue
        out.append(s)
    # dedupe by location
    seen = {}
    for s in out:
        seen.setdefault(locline(s['loc']), s)
    return list(seen.values())


def floor_log2_pow10(e):
    """floor(log2(10^e)) exactly"""
    if e >= 0:
        return (10 ** e).bit_length() - 1
    # 10^e = 1/10^-e ; floor(log2(1/x)) = -ceil(log2 x) ; x=10^-e not a power of two (e<0) => -(bitlen(x-1)+... )
    x = 10 ** (-e)
    # ceil(log2 x) for x not power of two = x.bit_length()
    return -x.bit_length()


def pow10_m128_floor(e):
    """floor(10^e * 2^(127 - floor(log2 10^e))): the 128-bit normalised mantissa, rounded down"""
    k = floor_log2_pow10(e)
    sh = 127 - k
    if e >= 0:
        num = 10 ** e
        v = (num << sh) if sh >= 0 else (num >> (-sh))
    else:
        den = 10 ** (-e)
        v = (1 << sh) // den
    return v


def pow10_m128_ceil(k):
    """ceil(10^k * 2^-r), r = floor(log2 10^k) - 127"""
    r = floor_log2_pow10(k) - 127
    x = Fraction(10) ** k / (Fraction(2) ** r)
    n = x.numerator // x.denominator
    if x.denominator != 1 and n * x.denominator != x.numerator:
        n += 1
    return n


def double_bits(x):
    return struct.unpack('<Q', struct.pack('<d', x))[0]


def check_rows(rep, rule, fn, table_name, loc, got, want, config, desc, show=lambda x: hex(x) if isinstance(x, int) else repr(x)):
    """compare two equally indexed sequences, one obligation per row (aggregated in the report as one
    obligation per table plus one failure per bad row)"""
    bad = 0
    n = min(len(got), len(want))
    for i in range(n):
        if got[i] != want[i]:
            bad += 1
            if bad <= 5:
                rep.fail(rule, fn, '%s[%d] == %s' % (table_name, i, show(want[i])), loc,
                         '%s: found %s' % (desc, show(got[i])), config)
    if len(got) != len(want):
        rep.fail(rule, fn, '%s has %d rows' % (table_name, len(want)), loc, 'found %d rows' % len(got), config)
        bad += 1
    if not bad:
        rep.ok(rule, '%s: all %d rows of %s equal %s' % (fn, n, table_name, desc), loc)
        rep.extra['table_rows_checked'] = rep.extra.get('table_rows_checked', 0) + n
    return bad == 0


def exact_division_theorem(m, s, d, N):
    """floor(n*m / 2^s) == floor(n/d) for all 0 <= n < N  holds if  m*d - 2^s = e with 0 < e and e*N <= 2^s
    (Granlund-Montgomery / Warren, Hacker's Delight 10-9).  Returns (ok, e)."""
    e = m * d - (1 << s)
    return (e > 0 and e * N <= (1 << s)), e
