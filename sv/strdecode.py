"""E5.string-decode — parseStringInplace evaluated byte by byte (sv/bytevm.py) against a reference JSON string decoder.

Obligation (C03 'string values equal to the decoded bytes', whatever the placement relative to SIMD blocks; C05 for
the rejected forms): for a string body followed by its closing quote in a padded buffer, the function reports no
error, returns the decoded length and leaves exactly the decoded bytes at the start of the string; a body with a raw
control byte, an unknown escape, a malformed \\u escape or an unpaired surrogate is reported through the error
parameter.  The universe places one, two and three escapes of every form at every distance 0 .. 2*VEC+1 from the start
of the string and from each other, so every alignment of an escape / of the closing quote to the vector blocks of both
loops (the search loop and the relocating loop) occurs.
"""
from .core import strip, show, AnalysisBroken
from .minterp import Unsupported, UndefinedBehaviour
from .bytevm import ByteVM

ESC = [(b'\\n', b'\n'), (b'\\"', b'"'), (b'\\\\', b'\\'), (b'\\/', b'/'), (b'\\t', b'\t'), (b'\\b', b'\b'), (b'\\f', b'\f'), (b'\\r', b'\r'),
       (b'\\u0041', b'A'), (b'\\u00e9', 'é'.encode()), (b'\\u20ac', '€'.encode()), (b'\\ud83d\\ude00', '\U0001F600'.encode()), (b'\\uD83D\\uDE00', '\U0001F600'.encode())]
BAD = [b'\\q', b'\\u12G4', b'\\u 123', b'\\ud800x', b'\\ud800\\n', b'\\udc00', b'\\ud800\\u0041', b'\\ud800\\ud800', b'\x01', b'\x1f', b'\n', b'\\', b'\\x41']


def plain(n, k=0):
    al = b'abcdefghijklmnopqrstuvwxyz0123456789 ,:[]{}'
    return bytes(al[(i + k) % len(al)] for i in range(n))


class Decoder:
    def __init__(self, facts, f):
        self.facts, self.f = facts, f
        self.vm = ByteVM(facts)
        self.runs = 0

    def run(self, body, pad=64):
        base = 0x100000
        buf = body + b'"' + b'\0' * pad
        mem = {base + i: b for i, b in enumerate(buf)}
        it = self.vm.make(self.f, mem, [(base, base + len(buf))])
        f = self.f
        r, env, _, _ = it.run({f.params[0]['id']: base, f.params[1]['id']: 0}, {})
        self.runs += 1
        err = env.get(f.params[1]['id'])
        return r, err, mem, base


def clause(facts, rep, tier, which=None, negatives=True):
    fs = [f for f in facts.functions if f.short == 'parseStringInplace' and len(f.params) == 2 and f.blocks]
    if which:
        fs = [f for f in fs if any(w in f.name for w in which)]
    rep.require(len(fs) >= 1, 'E5.string-decode: parseStringInplace not found (%s)' % facts.config)
    for f in fs:
        rep.fn(f)
        V = 32 if '::avx2::' in f.name else 16
        D = Decoder(facts, f)
        cases = []          # (body, expected or None)
        full = tier == 'thorough'
        # no escape at all: every length
        for n in range(0, 3 * V + 2):
            cases.append((plain(n), plain(n)))
        # one escape after every head length
        for h in range(0, 2 * V + 2):
            for ei in ((h % len(ESC)), (h * 7 + 3) % len(ESC)) if not full else range(len(ESC)):
                e, d = ESC[ei]
                for tail in (b'', b'xy'):
                    cases.append((plain(h) + e + tail, plain(h) + d + tail))
        # two escapes, every gap between them, several head lengths
        heads = (0, 5, V - 1) if not full else (0, 1, 5, V - 2, V - 1, V, V + 1)
        pairs = [(0, 4), (10, 2), (1, 11), (8, 9)] if not full else [(a, b) for a in range(len(ESC)) for b in (0, 1, 2, 8, 11)]
        for h in heads:
            for g in range(0, 2 * V + 2):
                for a, b in pairs:
                    for tail in ((b'', b'tail') if full else (b'', b'z' * ((g + h) % 3 + 1))):
                        body = plain(h) + ESC[a][0] + plain(g, 3) + ESC[b][0] + tail
                        cases.append((body, plain(h) + ESC[a][1] + plain(g, 3) + ESC[b][1] + tail))
        # three escapes, block-sized gaps
        gs = (0, 1, V - 1, V, V + 1, 2 * V)
        for g1 in gs:
            for g2 in gs:
                for a, b, c in ((0, 2, 8), (11, 1, 4)):
                    body = plain(2) + ESC[a][0] + plain(g1, 1) + ESC[b][0] + plain(g2, 2) + ESC[c][0] + b'end'
                    cases.append((body, plain(2) + ESC[a][1] + plain(g1, 1) + ESC[b][1] + plain(g2, 2) + ESC[c][1] + b'end'))
        # non-ASCII payload bytes (UTF-8 passes through untouched), around an escape
        for g in (0, 3, V - 1, V, V + 3):
            body = 'é中'.encode() + plain(g) + b'\\n' + '\U0001F600'.encode() * 3 + plain(g, 5)
            cases.append((body, body.replace(b'\\n', b'\n')))
        # every byte value directly after a backslash: the eight single-character escapes decode, 'u' is covered above,
        # the other 247 values (incl. 0x80..0xFF: the lookup must not alias them onto ASCII) are rejected
        one = {b'"'[0]: b'"', b'\\'[0]: b'\\', b'/'[0]: b'/', b'b'[0]: b'\b', b'f'[0]: b'\f', b'n'[0]: b'\n', b'r'[0]: b'\r', b't'[0]: b'\t'}
        for h in (0, V - 1):
            for b in range(256):
                if b == b'u'[0]:
                    continue
                body = plain(h) + b'\\' + bytes([b]) + b'xy'
                if b in one:
                    cases.append((body, plain(h) + one[b] + b'xy'))
                elif negatives:
                    cases.append((body, None))
        if negatives:
            for h in ((0, 3, V - 1, V, V + 2) if not full else range(0, 2 * V + 2)):
                for bd in BAD:
                    cases.append((plain(h) + bd + plain(4, 2), None))
                    cases.append((plain(2) + b'\\n' + plain(h) + bd + plain(4, 2), None))
        bad = None
        n = 0
        try:
            for body, want in cases:
                try:
                    r, err, mem, base = D.run(body)
                except UndefinedBehaviour as ex:
                    bad = 'string body %r: undefined behaviour: %s' % (body, ex)
                    break
                n += 1
                if want is None:
                    if not err:
                        bad = 'the invalid string body %r is accepted (no error reported, length %s)' % (body, r)
                        break
                    continue
                got = bytes(mem[base + i] for i in range(max(0, min(r if isinstance(r, int) else 0, len(body)))))
                if err or r != len(want) or got != want:
                    bad = 'string body %r decodes to %r (length %s, error %s), the JSON value is %r (length %d)' % (body, got, r, err, want, len(want))
                    break
        except Unsupported as ex:
            raise AnalysisBroken('E5.string-decode: %s cannot be evaluated: %s' % (f.name, ex))
        rep.extra['string_bodies_decoded'] = rep.extra.get('string_bodies_decoded', 0) + n
        rep.check(bad is None, 'E5.string-decode', f.qn, 'decoded bytes / length / rejection against the reference decoder on %d string bodies (vector width %d)' % (n, V),
                  f.loc, bad or '', facts.config)
