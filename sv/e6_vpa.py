"""E6 — grammar-skeleton extraction and equivalence with an RFC 8259 reference.

The control skeleton of Parser::Parse / parseImpl / parsePrimitives (and any
other non-scalar helper they call) is *interpreted from the CFG facts* as a
deterministic pushdown transducer over a finite lexeme alphabet; its synchronous
product with a hand-written reference transducer for RFC 8259 sections 2-5 is
explored exhaustively up to a nesting bound.  Scalar sub-parsers are opaque:
contract "consumes one well-formed lexeme of its own kind and emits its event,
else sets the error field" (their internals belong to C04/C05 and to the
number-typestate rule).  Any statement touching tracked state that the
interpreter does not model raises Unmodelled -> exit 2.
"""
import collections
from .core import strip, strip_expect, cval, show, walk, locline, is_this_member, AnalysisBroken

PARSER = 'sonic_json::Parser'


class Unmodelled(Exception):
    pass


class NeedInput(Exception):
    pass


STRUCT = [ord(c) for c in '[]{},:']
NUMST = [ord(c) for c in '0123456789-']
SCAL = {ord('"'): 'str', ord('t'): 'true', ord('f'): 'false', ord('n'): 'null'}
for _c in NUMST:
    SCAL[_c] = 'num'
# symbol = (atom, wellformed) ; atom: byte value, or 'USTR' (string that runs into the sentinel),
# 'OTHER' (any other non-space byte), 'END' (end of input == sentinel byte 0)
ALPHA = [(c, True) for c in STRUCT] + [(c, v) for c in list(SCAL) for v in (True, False)] + \
        [('USTR', True), ('OTHER', True), ('END', True)]
EVENT_OF_KIND = {'num': 'Number', 'str': 'String', 'key': 'Key', 'true': 'True', 'false': 'False', 'null': 'Null'}


def sym_str(sym):
    a, v = sym
    s = chr(a) if isinstance(a, int) else a
    if isinstance(a, int) and a in SCAL:
        s = {'str': 'STRING', 'num': 'NUMBER(%s)' % chr(a), 'true': 'true', 'false': 'false', 'null': 'null'}[SCAL[a]]
    return s + ('' if v else '!malformed')


def charof(sym, sentinel0):
    a = sym[0]
    if a == 'END':
        return sentinel0
    if a == 'OTHER':
        return ord('x')
    if a == 'USTR':
        return ord('"')
    return a


# ---------------------------------------------------------------------------
# reference transducer (RFC 8259 sections 2-5), written once, independent of the code

def ref_step(state, stack, sym):
    a, valid = sym
    if state == 'SINK':
        return 'SINK', stack, []

    def complete(stack, ev):
        if not stack:
            return 'DONE', stack, ev
        kind, cnt = stack[-1]
        stack = stack[:-1] + ((kind, min(cnt + 1, 2)),)
        return ('AC' if kind == 'A' else 'OC'), stack, ev + ['INC']

    def value(stack):
        if a == ord('['):
            return 'AVE', stack + (('A', 0),), ['StartArray']
        if a == ord('{'):
            return 'OKE', stack + (('O', 0),), ['StartObject']
        if isinstance(a, int) and a in SCAL:
            if not valid:
                return 'SINK', stack, []
            return complete(stack, [EVENT_OF_KIND[SCAL[a]]])
        return 'SINK', stack, []
    if state == 'V0':
        return value(stack)
    if state == 'DONE':
        return ('ACCEPT', stack, []) if a == 'END' else ('SINK', stack, [])
    if state == 'AVE':
        if a == ord(']'):
            k, c = stack[-1]
            return complete(stack[:-1], ['EndArray(%d)' % c])
        return value(stack)
    if state in ('AV', 'OV'):
        return value(stack)
    if state == 'AC':
        if a == ord(','):
            return 'AV', stack, []
        if a == ord(']'):
            k, c = stack[-1]
            return complete(stack[:-1], ['EndArray(%d)' % c])
        return 'SINK', stack, []
    if state in ('OKE', 'OK'):
        if state == 'OKE' and a == ord('}'):
            k, c = stack[-1]
            return complete(stack[:-1], ['EndObject(%d)' % c])
        if a == ord('"') and valid:
            return 'COLON', stack, ['Key']
        return 'SINK', stack, []
    if state == 'COLON':
        return ('OV', stack, []) if a == ord(':') else ('SINK', stack, [])
    if state == 'OC':
        if a == ord(','):
            return 'OK', stack, []
        if a == ord('}'):
            k, c = stack[-1]
            return complete(stack[:-1], ['EndObject(%d)' % c])
        return 'SINK', stack, []
    if state == 'ACCEPT':
        return 'SINK', stack, []
    raise Exception(state)


# ---------------------------------------------------------------------------
# role binding

class Roles:
    def __init__(self, facts, handler_cls, targ_filter):
        """bind the parser family for the instantiations whose SAX argument is handler_cls"""
        self.facts = facts
        fam = [f for f in facts.functions if f.cls_qn == PARSER]
        self.fam = {f.id: f for f in fam}
        self.handler = handler_cls
        self.targ_filter = targ_filter
        self.kind = {}       # fn id -> scalar kind
        self.consumes = {}   # fn id -> calls SkipSpace (transitively)
        self.emits = {}
        for f in fam:
            evs = set()
            for bid, i, s, e in f.walk():
                if e.get('k') == 'call' and e.get('ccls') == handler_cls:
                    n = e.get('cname')
                    if n == 'Bool':
                        c = cval(e['args'][0]) if e.get('args') else None
                        n = 'Bool(%s)' % ('?' if c is None else ('true' if c else 'false'))
                    evs.add(n)
            self.emits[f.id] = evs
        for f in fam:
            evs = self.emits[f.id]
            if not evs:
                continue
            k = None
            if evs == {'Null'}:
                k = 'null'
            elif evs == {'Bool(true)'}:
                k = 'true'
            elif evs == {'Bool(false)'}:
                k = 'false'
            elif evs == {'String'}:
                k = 'str'
            elif evs == {'Key'}:
                k = 'key'
            elif evs and evs <= {'Int', 'Uint', 'Double'}:
                k = 'num'
            if k:
                self.kind[f.id] = k

    def is_skip(self, e):
        return e.get('k') == 'call' and e.get('callee') == 'sonic_json::internal::SkipScanner::SkipSpace'

    def consuming(self, f, memo=None):
        memo = memo if memo is not None else {}
        if f.id in memo:
            return memo[f.id]
        memo[f.id] = False
        r = False
        for bid, i, s, e in f.walk():
            if self.is_skip(e):
                r = True
            elif e.get('k') == 'call' and e.get('cid') in self.fam and e['cid'] != f.id and e['cid'] not in self.kind:
                if self.consuming(self.fam[e['cid']], memo):
                    r = True
        memo[f.id] = r
        return r


# ---------------------------------------------------------------------------
# the interpreter: configuration = (frames, cur, err, overrun, depth, out)
# frame = [fn, block, idx, locals(dict id->int)]

class Machine:
    def __init__(self, roles, sentinel0, max_depth):
        self.R = roles
        self.sentinel0 = sentinel0
        self.max_depth = max_depth

    # -- expression evaluation
    def ev(self, e, cfg, fr):
        e0 = e
        e = strip(e)
        if e is None:
            raise Unmodelled('null expression')
        k = e.get('k')
        if k == 'call':
            return self.call(e, cfg, fr)
        c = cval(e0)
        if c is not None:
            return c
        if k == 'lit':
            return int(e['v'])
        if k == 'ref':
            if e.get('dk') in ('local', 'param'):
                if e['id'] in fr[3]:
                    return fr[3][e['id']]
                raise Unmodelled('read of unmodelled local %s at %s' % (e['name'], locline(e['loc'])))
            raise Unmodelled('ref %s' % e.get('name'))
        if k == 'member' and is_this_member(e):
            n = e['name']
            if n == self.R_err:
                return 1 if cfg['err'] else 0
            raise Unmodelled('read of member %s at %s' % (n, locline(e['loc'])))
        if k == 'sub':
            # json_buf_[pos_ - 1] : the byte SkipSpace returned last
            b = strip(e['base'])
            if is_this_member(b, self.R_buf):
                ix = strip(e['idx'])
                if ix.get('k') == 'bin' and ix['op'] == '-' and is_this_member(ix['l'], self.R_pos) and cval(ix['r']) == 1:
                    if cfg['cur'] is None:
                        raise Unmodelled('current lexeme read before any SkipSpace')
                    return cfg['cur']
            raise Unmodelled('subscript %s at %s' % (show(e), locline(e['loc'])))
        if k == 'bin':
            op = e['op']
            l_, r_ = strip(e['l']), strip(e['r'])
            if op == '>' and is_this_member(l_, self.R_pos) and is_this_member(r_, self.R_len):
                return int(cfg['overrun'])
            if op == '<' and is_this_member(l_, self.R_len) and is_this_member(r_, self.R_pos):
                return int(cfg['overrun'])
            if op == '=':
                if is_this_member(l_) and l_['name'] in (self.R_buf, self.R_len, self.R_pos):
                    if cfg['cur'] is None:
                        return 0   # initial set-up before the first token
                    raise Unmodelled('store to %s after tokens were consumed (%s)' % (l_['name'], locline(l_['loc'])))
                v = self.ev(e['r'], cfg, fr)
                self.assign(l_, v, cfg, fr)
                return v
            if op in ('+=', '-=') and is_this_member(l_) and l_['name'] in (self.R_buf, self.R_len, self.R_pos):
                raise Unmodelled('cursor arithmetic in the dispatcher (%s)' % locline(l_['loc']))
            if op in ('==', '!=', '&', '|', '>', '<', '>=', '<=', '-', '+', '<<', '>>'):
                l = self.ev(e['l'], cfg, fr)
                r = self.ev(e['r'], cfg, fr)
                return {'==': lambda: int(l == r), '!=': lambda: int(l != r), '&': lambda: l & r, '|': lambda: l | r,
                        '>': lambda: int(l > r), '<': lambda: int(l < r), '>=': lambda: int(l >= r),
                        '<=': lambda: int(l <= r), '-': lambda: l - r, '+': lambda: l + r,
                        '<<': lambda: l << r, '>>': lambda: l >> r}[op]()
            raise Unmodelled('operator %s at %s' % (op, locline(e['loc'])))
        if k == 'un':
            if e['op'] == '!':
                return int(not self.ev(e['e'], cfg, fr))
            if e['op'] in ('++', '--'):
                inner = strip(e['e'])
                if inner.get('k') == 'call' and self.is_depth_call(inner, 'back'):
                    if not cfg['depth']:
                        raise Unmodelled('back() on empty depth vector')
                    kind, cnt = cfg['depth'][-1]
                    d = 1 if e['op'] == '++' else -1
                    if d < 0:
                        raise Unmodelled('decrement of the element counter')
                    cfg['depth'] = cfg['depth'][:-1] + ((kind, min(cnt + 1, 2)),)
                    cfg['out'].append('INC')
                    return 0
            raise Unmodelled('unary %s at %s' % (e['op'], locline(e['loc'])))
        if k == 'ctor' or k == 'initlist':
            # ParseResult{err_, pos_}: value irrelevant to the skeleton
            return 0
        raise Unmodelled('expression %s at %s' % (show(e), locline(e.get('loc', '?'))))

    def assign(self, lhs, v, cfg, fr):
        if lhs.get('k') == 'ref' and lhs.get('dk') in ('local', 'param'):
            fr[3][lhs['id']] = v
            return
        if is_this_member(lhs):
            n = lhs['name']
            if n == self.R_err:
                cfg['err'] = (v != 0)
                return
            if n in (self.R_buf, self.R_len, self.R_pos):
                if cfg['cur'] is None:
                    return   # initial set-up before the first token
                raise Unmodelled('store to %s after tokens were consumed (%s)' % (n, locline(lhs['loc'])))
        raise Unmodelled('store to %s' % show(lhs))

    def is_depth_call(self, e, name):
        if e.get('cname') != name or not e.get('ccls', '').startswith('std::vector'):
            return False
        o = strip(e.get('obj'))
        return o is not None and o.get('k') == 'ref' and o.get('dk') == 'local'

    def back_val(self, cfg):
        if not cfg['depth']:
            raise Unmodelled('back() on empty depth vector')
        kind, cnt = cfg['depth'][-1]
        return (self.arr_mask if kind == 'A' else 0) | cnt

    def call(self, e, cfg, fr):
        R = self.R
        cn = e.get('cname')
        if cn == '__builtin_expect':
            return self.ev(e['args'][0], cfg, fr)
        if e.get('ccls') == R.handler:
            # SAX event: output; handlers succeed in the language-level model
            if cn in ('EndArray', 'EndObject'):
                v = self.ev(e['args'][0], cfg, fr)
                cfg['out'].append('%s(%d)' % (cn, min(v, 2)))
            else:
                cfg['out'].append(cn)
            return 1
        if e.get('ccls', '').startswith('std::vector'):
            if self.is_depth_call(e, 'back'):
                return self.back_val(cfg)
            if self.is_depth_call(e, 'empty'):
                return int(len(cfg['depth']) == 0)
            if self.is_depth_call(e, 'push_back') or self.is_depth_call(e, 'emplace_back'):
                v = self.ev(e['args'][0], cfg, fr)
                cfg['depth'] = cfg['depth'] + ((('A' if v & self.arr_mask else 'O'), v & (self.arr_mask - 1)),)
                return 0
            if self.is_depth_call(e, 'pop_back'):
                if not cfg['depth']:
                    raise Unmodelled('pop_back on empty depth vector')
                cfg['depth'] = cfg['depth'][:-1]
                return 0
            raise Unmodelled('vector call %s' % cn)
        if R.is_skip(e):
            raise NeedInput()
        cid = e.get('cid')
        if cid in R.kind:
            kind = R.kind[cid]
            a, valid = cfg['sym']
            want = 'str' if kind == 'key' else kind
            if a == 'USTR' and want == 'str':
                # an unterminated string swallows the sentinel quote: no error by itself
                cfg['overrun'] = True
                cfg['out'].append(EVENT_OF_KIND[kind])
                return 1
            ok = isinstance(a, int) and a in SCAL and SCAL[a] == want and valid and cfg['cur'] == a
            if ok:
                cfg['out'].append(EVENT_OF_KIND[kind])
            else:
                cfg['err'] = True
            return int(ok)
        if cid in R.fam:
            f = R.fam[cid]
            if f.qn == PARSER + '::hasTrailingChars':
                return int(cfg['peek_not_end'])
            # run a non-consuming helper to completion
            nf = [f, f.entry, 0, {}]
            for p, a in zip(f.params, e.get('args', [])):
                try:
                    nf[3][p['id']] = self.ev(a, cfg, fr)
                except Unmodelled:
                    pass   # handler references etc.
            try:
                return self.run(cfg, [nf])
            except NeedInput:
                raise Unmodelled('helper %s consumes input inside an expression' % f.qn)
        raise Unmodelled('call %s at %s' % (show(e), locline(e['loc'])))

    # -- statement / block execution.  Returns the return value of the bottom frame
    def run(self, cfg, frames):
        """run until the frame stack given is exhausted (returns value) or input is needed (NeedInput,
        with frames mutated to the resume point)"""
        base = len(frames)
        retv = 0
        steps = 0
        while frames:
            steps += 1
            if steps > 20000:
                raise Unmodelled('interpreter does not terminate')
            fr = frames[-1]
            f, b, i = fr[0], fr[1], fr[2]
            B = f.blocks[b]
            stmts = B['stmts']
            if i < len(stmts):
                s = strip(stmts[i])
                k = s.get('k')
                fr[2] = i + 1
                if k == 'ret':
                    retv = self.ev(s['e'], cfg, fr) if s.get('e') is not None else 0
                    frames.pop()
                    if not frames:
                        return retv
                    continue
                if k == 'decl':
                    for v in s['vars']:
                        init = v.get('init')
                        if v['t'].startswith('std::vector') or 'vector<' in v['t']:
                            continue
                        if init is None:
                            continue
                        si = strip_expect(init)
                        if si is not None and si.get('k') == 'call' and self.R.is_skip(si):
                            fr[2] = i        # resume re-executes with the symbol available
                            self.pending = ('local', v['id'])
                            raise NeedInput()
                        try:
                            fr[3][v['id']] = self.ev(init, cfg, fr)
                        except Unmodelled:
                            # locals that never reach tracked state stay unknown; a later read raises
                            pass
                    continue
                if k == 'bin' and s['op'] == '=':
                    rhs = strip_expect(s['r'])
                    if rhs is not None and rhs.get('k') == 'call' and self.R.is_skip(rhs):
                        lhs = strip(s['l'])
                        if lhs.get('k') != 'ref' or lhs.get('dk') != 'local':
                            raise Unmodelled('SkipSpace result stored to %s' % show(lhs))
                        fr[2] = i
                        self.pending = ('local', lhs['id'])
                        raise NeedInput()
                if k == 'call' and s.get('cid') in self.R.fam and s['cid'] not in self.R.kind \
                        and self.R.consuming(self.R.fam[s['cid']]):
                    g = self.R.fam[s['cid']]
                    nf = [g, g.entry, 0, {}]
                    frames.append(nf)
                    continue
                if k in ('autodtor',):
                    continue
                if not has_effect(s):
                    continue   # value operand of a ?: / && / || evaluated in its own CFG block
                self.ev(s, cfg, fr)
                continue
            # terminator
            succs = B['succs']
            t = B.get('term')
            live = [x for x in succs if x is not None]
            if not live:
                frames.pop()
                if not frames:
                    return retv
                continue
            if t and t['cls'] == 'SwitchStmt':
                v = self.ev(t['cond'], cfg, fr)
                tgt = dflt = None
                for sx in succs:
                    if sx is None:
                        continue
                    cs = f.blocks[sx].get('case')
                    if cs == 'default':
                        dflt = sx
                    elif cs is not None and int(cs) == v:
                        tgt = sx
                nb = tgt if tgt is not None else dflt
                if nb is None:
                    nb = succs[-1]
                    if nb is None:
                        raise Unmodelled('switch without target')
            elif t and t.get('cond') is not None and len(succs) == 2:
                v = self.ev(t['cond'], cfg, fr)
                nb = succs[0] if v else succs[1]
                if nb is None:
                    raise Unmodelled('pruned edge taken at %s' % locline(t['loc']))
            elif len(live) == 1:
                nb = live[0]
            else:
                raise Unmodelled('terminator %s' % (t and t['cls']))
            fr[1], fr[2] = nb, 0
            if nb == f.exit:
                frames.pop()
                if not frames:
                    return retv
        return retv


def has_effect(s):
    for e in walk(s):
        k = e.get('k')
        if k in ('call', 'ctor', 'new', 'delete'):
            return True
        if k == 'bin' and e['op'] in ('=', '+=', '-=', '*=', '/=', '|=', '&=', '^=', '<<=', '>>='):
            return True
        if k == 'un' and e['op'] in ('++', '--'):
            return True
    return False


def freeze(frames):
    return tuple((fr[0].id, fr[1], fr[2], tuple(sorted(fr[3].items()))) for fr in frames)


def thaw(fz, fam):
    return [[fam[a], b, c, dict(d)] for a, b, c, d in fz]


def explore(facts, rep, entry, roles, sentinel0, arr_mask, names, max_depth=3, max_len=14):
    """entry: the Parser::Parse instantiation to explore"""
    M = Machine(roles, sentinel0, max_depth)
    M.R_err, M.R_buf, M.R_pos, M.R_len = names
    M.arr_mask = arr_mask
    fname = entry.qn
    viol = []
    stats = dict(states=0, transitions=0)

    def v(trace, msg):
        viol.append((trace, msg))

    # initial configuration: run until the first token is requested
    cfg0 = dict(cur=None, err=False, overrun=False, depth=(), out=[], sym=None, peek_not_end=None)
    frames0 = [[entry, entry.entry, 0, {}]]
    try:
        M.run(cfg0, frames0)
        raise Unmodelled('entry point returns without reading a token')
    except NeedInput:
        pass
    start = (freeze(frames0), M.pending, None, False, False, (), 'V0', (), (), ())
    seen = {start}
    work = collections.deque([(start, ())])
    samples = []
    while work:
        (fz, pending, cur, err, overrun, depth, rs, rstk, iq, rq), trace = work.popleft()
        stats['states'] += 1
        for sym in ALPHA:
            if overrun and sym[0] != 'OTHER':
                continue      # after an unterminated string only sentinel byte 2 follows
            if cur == sentinel0 and sym != ('END', True) and False:
                continue
            stats['transitions'] += 1
            tr = trace + (sym,)
            # the look-ahead needed by hasTrailingChars: try both possibilities lazily
            results = []
            for peek in (True, False):
                cfg = dict(cur=charof(sym, sentinel0), err=err, overrun=overrun, depth=depth, out=list(iq), sym=sym,
                           peek_not_end=peek)
                frames = thaw(fz, roles.fam)
                M.pending = pending
                # deliver the token to the pending SkipSpace
                fr = frames[-1]
                kind, vid = pending
                fr[3][vid] = cfg['cur']
                fr[2] += 1
                used_peek = [False]
                orig_call = M.call

                try:
                    M.run(cfg, frames)
                    results.append(('returned', cfg, None, peek))
                except NeedInput:
                    results.append(('more', cfg, (freeze(frames), M.pending), peek))
                except Unmodelled as ex:
                    results.append(('unmodelled', cfg, str(ex), peek))
                if results[-1][0] != 'returned':
                    break     # look-ahead is only consulted on the way out
            r0 = results[0]
            if r0[0] == 'unmodelled':
                raise AnalysisBroken('E6: %s after lexemes [%s]' % (r0[2], ' '.join(sym_str(s) for s in tr)))
            rsym = sym if sym[0] != 'USTR' else ('USTR', False)
            rs2, rstk2, evs = ref_step(rs, rstk, rsym)
            if r0[0] == 'more':
                cfg = r0[1]
                rq2 = list(rq) + evs
                io = list(cfg['out'])
                if rs2 != 'SINK':
                    while io and rq2 and io[0] == rq2[0]:
                        io.pop(0)
                        rq2.pop(0)
                    if io and rq2:
                        v(tr, 'event mismatch: implementation emits %s, reference expects %s' % (io[:3], rq2[:3]))
                        continue
                    if len(io) > 3 or len(rq2) > 3:
                        v(tr, 'event streams drift apart: implementation %s reference %s' % (io[:4], rq2[:4]))
                        continue
                else:
                    io, rq2 = [], []
                if sym[0] == 'END':
                    v(tr, 'after reading the end-of-input sentinel as a token the parser asks for another token')
                    continue
                if rs2 == 'SINK' and not cfg['err'] and len(tr) >= max_len:
                    continue
                if len(cfg['depth']) > max_depth or len(rstk2) > max_depth or len(tr) >= max_len:
                    continue
                fz2, pend2 = r0[2]
                st = (fz2, pend2, cfg['cur'], cfg['err'], cfg['overrun'], cfg['depth'], rs2, rstk2, tuple(io), tuple(rq2))
                if st not in seen:
                    seen.add(st)
                    work.append((st, tr))
                    if len(samples) < 400:
                        samples.append(tr)
                continue
            # returned: judge acceptance for both look-aheads
            for (kind_, cfg, _x, peek) in results:
                io = list(cfg['out'])
                rq2 = list(rq) + evs
                if cfg['err']:
                    # rejection: the reference must not be able to accept this prefix followed by anything
                    # compatible with the look-ahead; it rejects iff it is in SINK, or the next symbol is not END
                    if sym[0] == 'END':
                        # the text ended here: reference must reject the complete text
                        if rs2 == 'ACCEPT':
                            v(tr, 'implementation rejects a text the reference accepts')
                    else:
                        if rs2 == 'DONE' and not peek:
                            v(tr + (('END', True),), 'implementation rejects a text the reference accepts')
                        elif rs2 not in ('SINK', 'DONE'):
                            # error raised while the reference could still continue: fine only if every
                            # continuation is rejected - i.e. never; the parser must not fail early
                            v(tr, 'implementation reports an error while the reference is in state %s (prefix still viable)' % rs2)
                    continue
                # accepted by the implementation
                if cfg['overrun']:
                    v(tr, 'implementation ACCEPTS a text whose last string is unterminated (ran into the sentinel)')
                    continue
                if sym[0] == 'END':
                    v(tr, 'implementation accepts after consuming the end-of-input sentinel as a token')
                    continue
                if peek:
                    v(tr, 'implementation accepts although non-space bytes follow')
                    continue
                rs3, _, _ = ref_step(rs2, rstk2, ('END', True))
                if rs3 != 'ACCEPT':
                    v(tr + (('END', True),), 'implementation accepts a text the reference rejects (reference state %s)' % rs2)
                    continue
                while io and rq2 and io[0] == rq2[0]:
                    io.pop(0)
                    rq2.pop(0)
                if io or rq2:
                    v(tr + (('END', True),), 'accepted with different events: implementation %s reference %s' % (io[:4], rq2[:4]))
    stats['samples'] = [' '.join(sym_str(s) for s in t) for t in samples[:: max(1, len(samples) // 12)]][:12]
    return viol, stats
