"""E5.skip-extent — SkipScanner::SkipOne (white space, then one raw JSON value: SkipString / SkipContainer / SkipLiteral
/ SkipNumber with the vector loops and the scalar tails behind them) evaluated byte by byte (sv/bytevm.py) on texts
mapped EXACTLY - a read of a byte at or behind `len` is undefined behaviour in the model.

Obligation (C10 the slice of a value, C11 nothing read outside [data, data+len) and no offset behind len, C20 raw
members are delimited exactly, C15 the kernels agree): for a value at any alignment to the 16/32/64-byte blocks,
followed by any separator, SkipOne returns the index of its first byte and leaves pos at its end - for a number
anywhere between the end of the number and the next separator, white space only in between; a value that is cut off
is not reported as complete.  The white-space bitmap cache (nonspace_bits_) is carried over from a previous call in
part of the runs.
"""
from .core import strip, show, AnalysisBroken
from .minterp import Unsupported, UndefinedBehaviour
from .bytevm import ByteVM

NUMBERS = [b'0', b'-0', b'7', b'12', b'-345', b'1.5', b'-0.25', b'1e5', b'1E5', b'1e+5', b'1E-5', b'-1.25e+10', b'6.02E+23', b'-3E2', b'12345678901234567890123456789012345678901', b'0.000000000000000000000000000000001e-7']
LITERALS = [b'true', b'false', b'null']


def strings(V):
    out = [b'""', b'"a"', b'"a\\"b"', b'"\\\\"', b'"\\\\\\""', b'"]},"', b'"[{"']
    for n in (V - 3, V - 2, V - 1, V, 2 * V - 2, 2 * V - 1, 63, 64, 65):
        out.append(b'"' + b'x' * n + b'\\"' + b'y' * 3 + b'"')
        out.append(b'"' + b'x' * n + b'\\\\"')
        out.append(b'"' + b'x' * n + b'\\\\\\"z"')
    return out


def containers(V):
    out = [b'[]', b'{}', b'[1,2]', b'{"a":"]"}', b'{"a":{"b":[1,"}"]}}', b'["\\"]"]', b'[[[]]]', b'{"k\\"}":[{"x":"[["}]}', b'[ 1 , [ 2 ] , { "a" : 3 } ]']
    for n in (0, 20, 60, 61, 62, 63, 64, 120):
        out.append(b'["' + b'x' * n + b'\\"]", 1]')
        out.append(b'{"' + b'k' * n + b'":[' + b'1,' * 3 + b'{"a":"}\\\\"}]}')
        out.append(b'[' + b' ' * n + b'[' + b'"]' + b'q' * (n // 2) + b'"' + b']' + b' ' * (n // 3) + b']')
    return out


def clause(facts, rep, tier, rule='E5.skip-extent'):
    fs = [f for f in facts.functions if f.short == 'SkipOne' and f.cls_qn == 'sonic_json::internal::SkipScanner' and len(f.params) == 3 and f.blocks]
    rep.require(len(fs) >= 1, '%s: SkipScanner::SkipOne not found (%s)' % (rule, facts.config))
    f = fs[0]
    rep.fn(f)
    V = 32 if any('::avx2::GetNextToken' in g.name for g in facts.functions) and not any('::sse::GetNextToken' in g.name for g in facts.functions) else 16
    vm = ByteVM(facts)
    full = tier == 'thorough'
    base = 0x100000
    filler = b'#'

    def run(text, pos, cache=None):
        mem = {base + i: b for i, b in enumerate(text)}
        if not mem:
            mem = {base - 1: 0}
        it = vm.make(f, mem, [])
        members = {'nonspace_bits_end_': 0, 'nonspace_bits_': 0}
        if cache:
            members.update(cache)
        r, env, mem2, _ = it.run({f.params[0]['id']: base, f.params[1]['id']: pos, f.params[2]['id']: len(text)}, members)
        return r, env.get(f.params[1]['id'])
    offs = (0, 1, 15, 16, 31, 32, 33, 63, 64) if full else (0, 1, 31, 32, 63)
    wss = (b'', b' ', b'\n\t ', b' ' * 63, b' ' * 64, b' ' * 66, b' ' * 130) if full else (b'', b' ', b' ' * 66)
    sufs = [(b',', 0), (b']', 5), (b'}', 70), (b' ,', 70), (b'\n}', 0), (b'', 0)] if full else [(b',', 0), (b' }', 70), (b']', 3), (b'', 0)]
    vals = [('number', v) for v in NUMBERS] + [('literal', v) for v in LITERALS] + [('string', v) for v in strings(V)] + [('container', v) for v in containers(V)]
    bad = None
    n = 0
    try:
        for kind, v in vals:
            for k in offs:
                for ws in (wss if k in (0, 31) else wss[:2]):
                    for sep, m in sufs:
                        if kind != 'number' and sep == b'' and m == 0 and not full and k not in (0, 32):
                            continue
                        text = filler * k + ws + v + sep + (filler * m if sep else b'')
                        start = k + len(ws)
                        end = start + len(v)
                        try:
                            r, pos = run(text, k)
                        except UndefinedBehaviour as ex:
                            bad = 'SkipOne at offset %d of %r (len %d): undefined behaviour: %s' % (k, text, len(text), ex)
                            break
                        n += 1
                        if kind == 'number':
                            stripped = sep.lstrip(b' \n\t')
                            hi = end + (len(sep) - len(stripped)) if stripped else len(text)
                            ok = r == start and end <= pos <= hi
                            want = 'start %d, end in [%d, %d]' % (start, end, hi)
                        else:
                            ok = r == start and pos == end
                            want = 'start %d, end %d' % (start, end)
                        if not ok:
                            bad = 'SkipOne at offset %d of %r (len %d) returns %s and leaves pos = %s; the %s %r there has %s' % (k, text, len(text), r, pos, kind, v, want)
                            break
                    if bad:
                        break
                if bad:
                    break
            if bad:
                break
        # cut-off values: never reported complete
        if not bad:
            for kind, v in vals:
                if kind in ('number',):
                    continue
                cuts = sorted(set([1, len(v) // 2, len(v) - 1])) if not full else range(1, len(v))
                for c in cuts:
                    if not 0 < c < len(v):
                        continue
                    for k in ((0, 33) if not full else (0, 1, 33, 64)):
                        text = filler * k + v[:c]
                        try:
                            r, pos = run(text, k)
                        except UndefinedBehaviour as ex:
                            bad = 'SkipOne at offset %d of the cut-off text %r (len %d): undefined behaviour: %s' % (k, text, len(text), ex)
                            break
                        n += 1
                        # (the cursor after an ERROR is not constrained by the property: SkipString may leave it one past
                        # the end when the text stops right after a backslash - nothing is read there)
                        if isinstance(r, int) and r >= 0:
                            bad = 'SkipOne at offset %d of the cut-off text %r (len %d) returns %s, pos = %s: an incomplete %s must not be reported as a complete value' % (k, text, len(text), r, pos, kind)
                            break
                    if bad:
                        break
                if bad:
                    break
        # the white-space cache left by a previous call is honoured, not trusted beyond its block
        if not bad:
            for gap in (2, 3, 40, 62, 63, 64, 100):
                text = b'1' + b' ' * gap + b'[2]' + b' ' * 70 + b',"a"' + filler * 70
                r1, p1 = None, None
                mem = {base + i: b for i, b in enumerate(text)}
                it = vm.make(f, mem, [])
                members = {'nonspace_bits_end_': 0, 'nonspace_bits_': 0}
                try:
                    r1, env, members, _ = it.run({f.params[0]['id']: base, f.params[1]['id']: 0, f.params[2]['id']: len(text)}, members)
                    p1 = env.get(f.params[1]['id'])
                    it2 = vm.make(f, mem, [])
                    r2, env2, members, _ = it2.run({f.params[0]['id']: base, f.params[1]['id']: 1, f.params[2]['id']: len(text)}, members)
                    p2 = env2.get(f.params[1]['id'])
                    it3 = vm.make(f, mem, [])
                    r3, env3, members, _ = it3.run({f.params[0]['id']: base, f.params[1]['id']: p2, f.params[2]['id']: len(text)}, members)
                except UndefinedBehaviour as ex:
                    bad = 'consecutive SkipOne calls on %r: undefined behaviour: %s' % (text, ex)
                    break
                n += 3
                if (r2, p2) != (1 + gap, 1 + gap + 3):
                    bad = 'second SkipOne (white-space cache of the first call live) on %r returns %s, pos %s; the array is at %d..%d' % (text, r2, p2, 1 + gap, 1 + gap + 3)
                    break
                if r3 is None or r3 >= 0:
                    bad = 'third SkipOne on %r (a comma, no value) returns %s' % (text, r3)
                    break
    except Unsupported as ex:
        raise AnalysisBroken('%s: SkipOne cannot be evaluated (%s): %s' % (rule, facts.config, ex))
    rep.extra['skip_texts_evaluated'] = rep.extra.get('skip_texts_evaluated', 0) + n
    rep.check(bad is None, rule, f.qn, 'start / end of the skipped value, no read outside the text, cut-off values rejected, on %d texts (vector width %d)' % (n, V),
              f.loc, bad or '', facts.config)
