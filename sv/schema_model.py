"""E6 (part 5) — ParseSchema (SchemaHandler) against the recursive-merge specification, by bounded exploration.

The event methods of SchemaHandler (StartObject / EndObject / StartArray / EndArray / Key / String / Null / Bool /
Uint / Int / Double, with node() and stringImpl()) are interpreted from their CFGs (sv/minterp.py) on the node /
block / pointer / ledger model of sv/dom_model.py.  They are driven exactly as Parser::parseImpl drives a handler
that declares check_key_return (a Key() that returns false makes the parser skip the member's value without any
event and without counting it; the count passed to End* is the number of members / elements that were taken) - that
skeleton is the one E6.events verifies for the parser.  For every pair (existing document, text) of a universe of
small trees the document afterwards must be merge(existing, text):

    both non-empty objects : every key of the existing object keeps its place; a key the text provides is merged
                             recursively, a key it omits is unchanged, keys only in the text are ignored
    otherwise              : the text's value replaces the existing one whole

(a text object that is empty against a non-empty existing object is left out: the property's clauses disagree
there, see DESIGN.md 9.3) and nothing the replaced nodes owned may be released twice or leaked (freeing allocator).
"""
from .core import strip, show, AnalysisBroken
from .minterp import Interp, Unsupported, UndefinedBehaviour
from . import dom_model as dm
from .dom_model import V, Ptr, Block, Machine


class Vec:
    """std::vector of plain values"""
    def __init__(self, init):
        self.v = list(init)


class T:
    """a text / expected tree"""
    def __init__(self, kind, val=None, kids=None):
        self.kind, self.val, self.kids = kind, val, kids or []

    def __repr__(self):
        return tstr(self)


def tstr(t):
    if t.kind == 'str':
        return '"%s"' % t.val
    if t.kind in ('uint', 'sint', 'real'):
        return str(t.val)
    if t.kind in ('true', 'false', 'null'):
        return t.kind
    if t.kind == 'arr':
        return '[' + ','.join(tstr(c) for c in t.kids) + ']'
    return '{' + ','.join('"%s":%s' % (k, tstr(v)) for k, v in t.kids) + '}'


def merge(e, t):
    if e.kind == 'obj' and e.kids and t.kind == 'obj':
        tm = dict(t.kids)
        return T('obj', None, [(k, merge(v, tm[k]) if k in tm else v) for k, v in e.kids])
    return t


def has_ambiguity(e, t):
    """an empty text object meets a non-empty existing object somewhere"""
    if e.kind == 'obj' and e.kids and t.kind == 'obj':
        if not t.kids:
            return True
        tm = dict(t.kids)
        return any(k in tm and has_ambiguity(v, tm[k]) for k, v in e.kids)
    return False


def teq(a, b):
    if a.kind != b.kind:
        return False
    if a.kind == 'arr':
        return len(a.kids) == len(b.kids) and all(teq(x, y) for x, y in zip(a.kids, b.kids))
    if a.kind == 'obj':
        return len(a.kids) == len(b.kids) and all(k1 == k2 and teq(v1, v2) for (k1, v1), (k2, v2) in zip(a.kids, b.kids))
    return a.val == b.val


class Schema:
    def __init__(self, facts, hfns, nfns, tags):
        self.facts, self.hfns, self.nfns, self.tags = facts, hfns, nfns, tags

    def build(self, M, t):
        """an existing document node for tree t (as a parse would have built it: capacity == size, strings not owned)"""
        v = V()
        self.fill(M, v, t)
        return v

    def fill(self, M, v, t):
        v.kind, v.val, v.own, v.block, v.length = t.kind, t.val, None, None, 0
        if t.kind == 'str':
            v.length = len(t.val)
            if getattr(t, 'borrowed', False):
                v.own = None                 # a constant string (SetString(view) / Node(view)): the characters belong to the caller
                v.addr = dm.new_addr()
            else:
                v.own = M.ledger.alloc('copied string %r' % t.val)       # as after SetString(s, alloc): the node owns it
                if not hasattr(M, 'str_owner'):
                    M.str_owner = {}
                M.str_owner[v.own] = v
        if t.kind == 'arr' and t.kids:
            b = Block(M.ledger, len(t.kids), 1)
            for j, c in enumerate(t.kids):
                self.fill(M, b.slots[j], c)
            v.block, v.length = b, len(t.kids)
        if t.kind == 'obj' and t.kids:
            b = Block(M.ledger, len(t.kids), 2)
            for j, (k, c) in enumerate(t.kids):
                self.fill(M, b.slots[2 * j], T('str', k))
                self.fill(M, b.slots[2 * j + 1], c)
            v.block, v.length = b, len(t.kids)

    def read(self, v, depth=0):
        if depth > 8:
            raise UndefinedBehaviour('the document is cyclic or deeper than any input')
        if v.kind == 'uninit':
            raise UndefinedBehaviour('an uninitialised node is part of the document')
        if v.kind == 'arr':
            if v.length and (v.block is None or v.block.freed):
                raise UndefinedBehaviour('an array of %d elements has no (live) children block' % v.length)
            return T('arr', None, [self.read(v.block.slots[j], depth + 1) for j in range(v.length)])
        if v.kind == 'obj':
            if v.length and (v.block is None or v.block.freed):
                raise UndefinedBehaviour('an object of %d members has no (live) children block' % v.length)
            out = []
            for j in range(v.length):
                k = v.block.slots[2 * j]
                if k.kind != 'str':
                    raise UndefinedBehaviour('a member name is a %s node' % k.kind)
                out.append((k.val, self.read(v.block.slots[2 * j + 1], depth + 1)))
            return T('obj', None, out)
        if v.kind == 'str' and v.length != len(v.val):
            # the node covers `length` bytes starting at the string it was given: more than the string has, or fewer
            return T('str', (v.val + '\\?' * 64)[:v.length])
        return T(v.kind, v.val)

    def parse_into(self, M, root, text, cap=64):
        """ParseSchema(text) into root; returns the error flag the parser would see (True = a handler call failed)"""
        stack = Block(M.ledger, cap, 1)
        mem = {'st_': Ptr(stack, 0, 1), 'np_': 0, 'cap_': cap, 'parent_': 0, 'parent_node_': root, 'cur_node_': root,
               'found_node_count_': 0, 'alloc_': 'ALLOC', 'parent_st_': Vec([0] * 16), 'found_count_st_': Vec([16])}
        self.mem = mem
        ok = self.drive(M, text)
        # TearDown: the node stack is released; whatever is still on it (np_ > 0) would be destroyed there
        for j in range(mem['np_']):
            M.call('destroy', stack.slots[j])
        M.ledger.free(stack.rid, 'node stack')
        stack.freed = True
        return ok

    def build_fresh(self, M, text, cap=64):
        """Parse(text) with the plain SAX handler: every event in document order (a Key is an event like a String);
        returns (ok, node stack block, np_)"""
        stack = Block(M.ledger, cap, 1)
        self.mem = {'st_': Ptr(stack, 0, 1), 'np_': 0, 'cap_': cap, 'parent_': 0, 'alloc_': 'ALLOC'}
        ok = self.drive(M, text)
        return ok, stack, self.mem['np_']

    def ev(self, M, name, *args):
        f = self.hfns.get(name)
        if f is None:
            raise AnalysisBroken('SchemaHandler::%s not found' % name)
        it = None
        S = self

        def hook(e, a, env, members):
            nm = e.get('cname') or ''
            o = None
            if e.get('obj') is not None:
                try:
                    o = it.ev(e['obj'], env, members)
                except Unsupported:
                    o = None
            xh = getattr(S, 'extra_hook', None)
            if xh is not None:
                r_ = xh(M, e, a, o)
                if r_ is not None:
                    return r_
            if isinstance(o, Vec):
                if nm in ('emplace_back', 'push_back'):
                    o.v.append(a[0])
                    return 0
                if nm == 'back':
                    if not o.v:
                        raise UndefinedBehaviour('back() of an empty context stack')
                    return o.v[-1]
                if nm == 'pop_back':
                    if not o.v:
                        raise UndefinedBehaviour('pop_back() of an empty context stack')
                    o.v.pop()
                    return 0
                if nm == 'size':
                    return len(o.v)
                if nm == 'empty':
                    return int(not o.v)
                raise Unsupported('vector method %s' % nm)
            if isinstance(o, tuple) and o and o[0] == 'sv':
                if nm == 'data':
                    return ('chars', o[1])
                if nm in ('size', 'length'):
                    return len(o[1])
            if e.get('k') == 'ctor' and (e.get('cname') or '') in ('DNode', 'GenericNode') and len(a) == 1:
                t_ = ''
                a0 = e['args'][0]
                while a0 is not None and a0.get('k') == 'cast' and a0.get('ck') in ('LValueToRValue', 'NoOp'):
                    a0 = a0.get('e')
                t_ = (a0.get('t') or '') if a0 is not None else ''
                x = a[0]
                if 'TypeFlag' in t_:
                    v = V()
                    M.settype(v, x)
                    return v
                if t_ in ('_Bool', 'bool'):
                    return V('true' if x else 'false')
                if 'double' in t_:
                    return V('real', x)
                if t_ in ('int64_t', 'long', 'long long', 'int'):
                    return V('uint', x) if x >= 0 else V('sint', x)
                if t_ in ('uint64_t', 'unsigned long', 'unsigned long long', 'unsigned int', 'size_t'):
                    return V('uint', x)
                raise Unsupported('node constructor from %s' % t_)
            if nm in ('memcmp', '__builtin_memcmp') and len(a) == 3 and all(isinstance(x, tuple) and x and x[0] == 'chars' for x in a[:2]):
                x_, y_, k_ = a[0][1], a[1][1], a[2]
                if k_ > len(x_) + 64 or k_ > len(y_) + 64:
                    raise UndefinedBehaviour('memcmp over %d bytes of strings with %d / %d bytes' % (k_, len(x_), len(y_)))
                # bytes behind a name are whatever follows it in the buffer: modelled as a filler that never matches
                xb = (x_ + '\x01' * 64)[:k_]
                yb = (y_ + '\x02' * 64)[:k_]
                return (xb > yb) - (xb < yb)
            if nm == 'Xmemcpy' and len(a) == 3:
                import re
                m_ = re.search(r'Xmemcpy<(\d+)', e.get('cdiag') or '')
                unit = int(m_.group(1)) // 16 if m_ else None
                dst, src, cnt = a
                dst = dst + 0 if isinstance(dst, V) else dst
                src = src + 0 if isinstance(src, V) else src
                if unit is None or not (isinstance(dst, Ptr) and isinstance(src, Ptr)):
                    raise Unsupported('Xmemcpy(%r, %r, %r)' % (dst, src, cnt))
                vals = []
                for j in range(cnt * unit):
                    c = V()
                    c.copy_bits(Ptr(src.block, src.idx + j, 1).slot())
                    vals.append(c)
                for j in range(cnt * unit):
                    Ptr(dst.block, dst.idx + j, 1).slot().copy_bits(vals[j])
                return 0
            if isinstance(o, (V, Ptr)):
                n = o.slot() if isinstance(o, Ptr) else o
                if nm in ('SetNull', 'SetBool', 'SetUint64', 'SetInt64', 'SetDouble', 'SetString'):
                    M.call('destroy', n)
                    n.block, n.length, n.own, n.ofs = None, 0, None, None
                    if nm == 'SetNull':
                        n.kind, n.val = 'null', None
                    elif nm == 'SetBool':
                        n.kind, n.val = ('true' if a[0] else 'false'), None
                    elif nm == 'SetUint64':
                        n.kind, n.val = 'uint', a[0]
                    elif nm == 'SetInt64':
                        n.kind, n.val = ('uint' if a[0] >= 0 else 'sint'), a[0]
                    elif nm == 'SetDouble':
                        n.kind, n.val = 'real', a[0]
                    else:
                        n.kind, n.val = 'str', dm.skey(a[0])
                        n.length = len(n.val)
                        n.own = M.ledger.alloc('copied string %r' % n.val) if len(a) >= 2 else None
                    return n
                if nm == 'setRaw':
                    n.kind, n.val, n.own, n.block = 'raw', dm.skey(a[0]), None, None
                    n.length = len(n.val)
                    return 0
                if nm == 'FindMember':
                    return M.call('findMemberImpl', n, a[-1])
            return S.node_hook(M, e, a, env, members, it, o)
        it = Interp(f, self.facts, call_hook=hook, max_steps=100000)
        env = {}
        for p, x in zip(f.params, args):
            env[p['id']] = x
        r = it.run(env, self.mem)
        self.mem = r[2]
        return r[0]

    def node_hook(self, M, e, a, env, members, it, o):
        """everything else goes through the node model of sv/dom_model.py"""
        # re-use Machine.run's hook by interpreting a tiny wrapper: simplest is to construct the same closure
        return M.generic_hook(e, a, env, members, it, o)

    # -- the parser skeleton for a handler with check_key_return
    def drive(self, M, t):
        k = t.kind
        if k == 'obj':
            if not self.ev(M, 'StartObject'):
                return False
            cnt = 0
            for key, val in t.kids:
                found = self.ev(M, 'Key', ('sv', key))
                if not found:
                    continue              # the parser skips the value: no event, not counted
                if not self.drive(M, val):
                    return False
                cnt += 1
            return bool(self.ev(M, 'EndObject', cnt))
        if k == 'arr':
            if not self.ev(M, 'StartArray'):
                return False
            cnt = 0
            for val in t.kids:
                if not self.drive(M, val):
                    return False
                cnt += 1
            return bool(self.ev(M, 'EndArray', cnt))
        if k == 'null':
            return bool(self.ev(M, 'Null'))
        if k in ('true', 'false'):
            return bool(self.ev(M, 'Bool', 1 if k == 'true' else 0))
        if k == 'uint':
            return bool(self.ev(M, 'Uint', t.val))
        if k == 'sint':
            return bool(self.ev(M, 'Int', t.val))
        if k == 'real':
            return bool(self.ev(M, 'Double', t.val))
        if k == 'str':
            return bool(self.ev(M, 'String', ('sv', t.val)))
        raise ValueError(k)


class GrowStack:
    """internal::Stack used as a node stack: a block that is reallocated (moved, the old one released) when it is full"""
    def __init__(self, ledger, cap_nodes=16):
        self.ledger = ledger
        self.block = Block(ledger, cap_nodes, 1)
        self.top = 0

    def push(self, n):
        if self.top + n > self.block.cap:
            nb = Block(self.ledger, max(self.block.cap * 2, self.top + n), 1)
            for j in range(self.top):
                nb.slots[j].copy_bits(self.block.slots[j])
            self.ledger.free(self.block.rid, 'node stack')
            self.block.freed = True
            self.block = nb
        p = Ptr(self.block, self.top, 1)
        self.top += n
        return p


class Lazy(Schema):
    """LazySAXHandler driven as parseLazyImpl drives it: one level, members / elements as raw values"""
    def lazy_build(self, M, t):
        st = GrowStack(M.ledger)
        self.mem = {'stack_': st, 'alloc_': 'ALLOC'}
        self.extra_hook = self.stack_hook
        if t.kind == 'obj':
            self.ev(M, 'StartObject')
            for k, v in t.kids:
                self.ev(M, 'Key', dm.CharPtr(k, dm.new_addr()), len(k), 0)
                self.ev(M, 'Raw', dm.CharPtr(tstr(v), dm.new_addr()), len(tstr(v)))
            self.ev(M, 'EndObject', len(t.kids))
        else:
            self.ev(M, 'StartArray')
            for v in t.kids:
                self.ev(M, 'Raw', dm.CharPtr(tstr(v), dm.new_addr()), len(tstr(v)))
            self.ev(M, 'EndArray', len(t.kids))
        return st

    def stack_hook(self, M, e, a, o):
        nm = e.get('cname') or ''
        if isinstance(o, GrowStack):
            unit = 2 if 'Member' in (e.get('cdiag') or '') else 1
            if nm in ('PushSize', 'PushSizeUnsafe'):
                return o.push(a[0] * unit)
            if nm == 'Begin':
                return Ptr(o.block, 0, 1)
            if nm in ('Top',):
                if o.top < unit:
                    raise UndefinedBehaviour('Top() of an empty node stack')
                return Ptr(o.block, o.top - unit, 1)
            if nm == 'End':
                return Ptr(o.block, o.top, 1)
            if nm == 'Pop':
                k = a[0] * unit
                if k > o.top:
                    raise UndefinedBehaviour('Pop(%d) from a stack of %d nodes' % (k, o.top))
                o.top -= k
                return 0
            if nm == 'Size':
                return 16 * o.top
            raise Unsupported('node stack method %s' % nm)
        return None
