"""E6 (part 2) — the serializer's skeleton against the JSON text of the tree, by exhaustive exploration.

SerializeImpl is a goto-driven state machine over (node cursor, remaining-value counter, member counter, parent
stack).  Its CFG (extracted from the current source) is interpreted by sv/minterp.py for EVERY DOM tree shape up to
a nesting / arity bound; the node, write-buffer and stack methods it calls are answered from a model of a tree laid
out as the library lays it out (array elements consecutive, object members as consecutive key/value nodes, `next()`
is the following node of the same block, a step past the block is undefined behaviour).  The writers it calls
(Quote, U64toa, I64toa, F64toa) are replaced by their contract "write the text of the value at the given position and
return its end / length" - they have their own rules (C07, C08, C09).  Obligation: the bytes left in the write
buffer are exactly the minified JSON text of the tree and the result is 'no error'; a tree with a non-string key or
a non-finite double gives the corresponding error.  Nothing is executed: this is a finite-state exploration of the
extracted skeleton, as E6 for the parser.
"""
from .core import strip, show, AnalysisBroken
from .minterp import Interp, Unsupported, UndefinedBehaviour


class Node:
    __slots__ = ('kind', 'val', 'kids', 'nxt', 'name')

    def __init__(self, kind, val=None, kids=None):
        self.kind, self.val, self.kids, self.nxt = kind, val, kids or [], None

    def __repr__(self):
        return 'Node(%s)' % text(self)


PAST = Node('past')      # the position behind the last node of a children block


def S(n=2):
    return Node('str', 'x' * n)


def text(t):
    k = t.kind
    if k == 'str':
        return '"%s"' % t.val
    if k in ('uint', 'sint'):
        return str(t.val)
    if k == 'real':
        return t.val
    if k == 'true':
        return 'true'
    if k == 'false':
        return 'false'
    if k == 'null':
        return 'null'
    if k == 'raw':
        return t.val
    if k == 'arr':
        return '[' + ','.join(text(c) for c in t.kids) + ']'
    if k == 'obj':
        return '{' + ','.join(text(t.kids[i]) + ':' + text(t.kids[i + 1]) for i in range(0, len(t.kids), 2)) + '}'
    raise ValueError(k)


def link(t):
    """lay the children out as a block: next() of a child is the following child"""
    for i, c in enumerate(t.kids):
        c.nxt = t.kids[i + 1] if i + 1 < len(t.kids) else PAST
        link(c)
    return t


def clone(t):
    return Node(t.kind, t.val, [clone(c) for c in t.kids])


def expect_error(t):
    """'key' if some object has a non-string key, 'inf' if a non-finite real occurs (first in document order wins)"""
    def walk_(n):
        if n.kind == 'obj':
            for i in range(0, len(n.kids), 2):
                if n.kids[i].kind != 'str':
                    yield 'key'
        if n.kind == 'real' and n.val in ('inf', 'nan'):
            yield 'inf'
        for c in n.kids:
            for x in walk_(c):
                yield x
    errs = list(walk_(t))
    return errs


def shapes(depth, arity, leaves):
    """all trees of nesting depth <= depth whose containers have <= arity elements / members"""
    level = [lambda l=l: l() for l in leaves]
    cur = list(leaves)
    for d in range(depth):
        nxt = list(leaves)
        import itertools
        for k in range(0, arity + 1):
            for combo in itertools.product(cur, repeat=k):
                nxt.append(lambda combo=combo: Node('arr', None, [c() for c in combo]))
                nxt.append(lambda combo=combo: Node('obj', None, [x for c in combo for x in (S(1), c())]))
        cur = nxt
    return cur


BASIC = {'null': 0, 'true': 2, 'false': 2, 'uint': 3, 'sint': 3, 'real': 3, 'str': 4, 'raw': 5, 'obj': 6, 'arr': 7}
SUB = {'null': 0, 'false': 2, 'true': 10, 'uint': 3, 'sint': 11, 'real': 19, 'str': 4, 'raw': 5, 'obj': 6, 'arr': 7}


class Run:
    def __init__(self, f, facts, tags):
        self.f, self.facts = f, facts
        self.basic = dict(BASIC)
        self.sub = dict(SUB)
        self.persistent = []
        self.static_stack = False
        for bid, i, s_ in f.stmts():
            st = strip(s_)
            if isinstance(st, dict) and st.get('k') == 'decl':
                for vd in st['vars']:
                    if 'Stack' in (vd.get('t') or '') and vd.get('static'):
                        self.static_stack = True
        if tags:
            m = {'null': 'kNull', 'true': 'kTrue', 'false': 'kFalse', 'uint': 'kUint', 'sint': 'kSint', 'real': 'kReal', 'str': 'kStringCopy',
                 'raw': 'kRaw', 'obj': 'kObject', 'arr': 'kArray'}
            bm = tags.get('kBasicTypeMaskValue', 7)
            for k, n in m.items():
                self.sub[k] = tags[n]
                self.basic[k] = tags[n] & bm

    def serialize(self, tree):
        out = bytearray()
        # a parent stack declared static / thread_local survives the call: the model keeps it across serialize() calls
        stack = self.persistent if self.static_stack else []
        pending = {}
        # the write buffer as the tightest legal implementation: `room[0]` = bytes reserved behind the current end.  Grow(n)
        # / Reserve(n) guarantee exactly what they are asked for; an unchecked push or a value writer that may need more
        # than is reserved is an overflow (undefined behaviour).  Writer extents: the longest text each may produce.
        room = [0]

        def need(k, what):
            if k > room[0]:
                raise UndefinedBehaviour('%s needs %d byte(s) behind the end of the write buffer, only %d are reserved on this path' % (what, k, room[0]))
        BASE = 1 << 20
        it = None

        def obj_of(e, env, members):
            o = e.get('obj')
            if o is None:
                return None
            return it.ev(o, env, members)

        def hook(e, args, env, members):
            name = e.get('cname')
            if (name or '').startswith('__builtin_'):
                return None
            o = obj_of(e, env, members)
            if isinstance(o, Node):
                if o is PAST or o.kind == 'past':
                    raise UndefinedBehaviour('%s() on the position behind the last child' % name)
                n = o
                if name == 'getBasicType':
                    return self.basic[n.kind]
                if name == 'GetType':
                    return self.sub[n.kind]
                if name == 'IsContainer':
                    return int(n.kind in ('obj', 'arr'))
                if name == 'IsObject':
                    return int(n.kind == 'obj')
                if name == 'IsArray':
                    return int(n.kind == 'arr')
                if name == 'IsFalse':
                    return int(n.kind == 'false')
                if name == 'IsTrue':
                    return int(n.kind == 'true')
                if name == 'Size':
                    if n.kind == 'obj':
                        return len(n.kids) // 2
                    if n.kind == 'arr':
                        return len(n.kids)
                    if n.kind in ('str', 'raw'):
                        return len(n.val)
                    return 0
                if name == 'Empty':
                    return int(len(n.kids) == 0 if n.kind in ('obj', 'arr') else (len(n.val) == 0 if n.kind in ('str', 'raw') else 1))
                if name in ('getObjChildrenFirstUnsafe', 'getArrChildrenFirstUnsafe'):
                    if (name.startswith('getObj')) != (n.kind == 'obj') or n.kind not in ('obj', 'arr'):
                        raise UndefinedBehaviour('%s() on a %s node' % (name, n.kind))
                    return n.kids[0] if n.kids else PAST
                if name == 'next':
                    if n.nxt is None:
                        raise UndefinedBehaviour('next() of the root node')
                    return n.nxt
                if name in ('GetStringView', 'GetRaw'):
                    return ('sv', n)
                if name == 'GetUint64':
                    return n.val if n.kind == 'uint' else (n.val & ((1 << 64) - 1))
                if name == 'GetInt64':
                    # the 8 payload bytes read as a signed value, whatever the kind says
                    return n.val - (1 << 64) if n.val >= (1 << 63) else n.val
                if name == 'GetDouble':
                    return ('dbl', n.val)
                raise Unsupported('node method %s' % name)
            if isinstance(o, tuple) and o and o[0] == 'sv':
                if name == 'data':
                    return ('chars', o[1])
                if name in ('size', 'length'):
                    return len(o[1].val)
                raise Unsupported('string view method %s' % name)
            if o == 'WB':
                if name == 'Clear':
                    room[0] += len(out)
                    del out[:]
                    return 0
                if name == 'Grow':
                    room[0] = max(room[0], args[0] if args and isinstance(args[0], int) else 0)
                    return 0
                if name == 'Reserve':
                    room[0] = max(room[0], (args[0] if args and isinstance(args[0], int) else 0) - len(out))
                    return 0
                if name == 'Push':
                    # the checked push: grows as needed
                    if len(args) == 1:
                        out.append(args[0] & 0xff)
                    elif len(args) == 2 and isinstance(args[0], tuple) and args[0][0] == 'chars':
                        out.extend(args[0][1].val.encode()[:args[1]])
                    elif len(args) == 2 and isinstance(args[0], bytes):
                        out.extend(args[0][:args[1]])
                    else:
                        raise Unsupported('Push%r' % (tuple(args),))
                    room[0] = max(0, room[0] - (1 if len(args) == 1 else args[1]))
                    return 0
                if name == 'End':
                    return BASE + len(out)
                if name == 'PushUnsafe' and len(args) == 1:
                    need(1, 'PushUnsafe of one byte')
                    room[0] -= 1
                    out.append(args[0] & 0xff)
                    return 0
                if name == 'PushUnsafe' and len(args) == 2:
                    src, ln = args
                    if not (isinstance(src, tuple) and src[0] == 'chars') or ln != len(src[1].val):
                        raise UndefinedBehaviour('raw copy of %s bytes from %s' % (ln, src))
                    need(ln, 'PushUnsafe of %d bytes' % ln)
                    room[0] -= ln
                    out.extend(src[1].val.encode())
                    return 0
                if name == 'Push5_8':
                    lit, k = args
                    need(8, 'Push5_8 (an 8-byte store)')
                    room[0] -= k
                    out.extend(lit[:k])
                    return 0
                if name == 'PushSizeUnsafe':
                    k = args[0]
                    tx = pending.pop(BASE + len(out), None)
                    if tx is None or k != len(tx):
                        raise UndefinedBehaviour('PushSizeUnsafe(%s) does not cover the %s just written at the end of the buffer' % (k, 'text %r' % tx if tx is not None else 'nothing'))
                    need(k, 'PushSizeUnsafe(%d)' % k)
                    room[0] -= k
                    out.extend(tx)
                    return 0
                if name == 'Pop':
                    k = args[0]
                    if k > len(out):
                        raise UndefinedBehaviour('Pop(%d) from %d bytes' % (k, len(out)))
                    del out[len(out) - k:]
                    room[0] += k
                    return 0
                raise Unsupported('write buffer method %s' % name)
            if o == 'STK':
                if name == 'Push':
                    stack.append(args[0])
                    return 0
                if name == 'Top':
                    if not stack:
                        raise UndefinedBehaviour('Top() of an empty parent stack')
                    return stack[-1]
                if name == 'Pop':
                    for _ in range(args[0]):
                        if not stack:
                            raise UndefinedBehaviour('Pop() of an empty parent stack')
                        stack.pop()
                    return 0
                if name == 'Size':
                    return 16 * len(stack)
                if name == 'Empty':
                    return int(not stack)
                raise Unsupported('stack method %s' % name)
            # the value writers: contract only
            if name == 'Quote':
                src, ln, dst = args
                if not (isinstance(src, tuple) and src[0] == 'chars') or ln != len(src[1].val) or dst != BASE + len(out):
                    raise UndefinedBehaviour('Quote(%s, %s, %s) with the buffer end at %s' % (src, ln, dst, BASE + len(out)))
                need(6 * ln + 2, 'Quote of a %d-byte string (up to 6 bytes per byte plus the quotes)' % ln)
                tx = ('"%s"' % src[1].val).encode()
                pending[dst] = tx
                return dst + len(tx)
            if name in ('U64toa', 'I64toa'):
                dst, v = args
                if dst != BASE + len(out):
                    raise UndefinedBehaviour('%s writes at %s, the buffer ends at %s' % (name, dst, BASE + len(out)))
                need(20 if name == 'U64toa' else 21, '%s (up to %d characters)' % (name, 20 if name == 'U64toa' else 21))
                tx = str(v).encode()
                pending[dst] = tx
                return dst + len(tx)
            if name == 'F64toa':
                dst, v = args
                if dst != BASE + len(out) or not (isinstance(v, tuple) and v[0] == 'dbl'):
                    raise UndefinedBehaviour('F64toa(%s, %s)' % (dst, v))
                need(24, 'F64toa (up to 24 characters)')
                if v[1] in ('inf', 'nan'):
                    return 0
                tx = v[1].encode()
                pending[dst] = tx
                return len(tx)
            if name in ('defaultCapcity',):
                return 64
            if name == 'Stack':
                return 'STK'
            return None
        it = Interp(self.f, self.facts, call_hook=hook, max_steps=200000)
        env = {}
        for p in self.f.params:
            env[p['id']] = tree if '*' in p['t'] and 'Node' in p['t'] else 'WB'
        # locals of class type are bound by name through their constructor declarations
        for bid, i, s_ in self.f.stmts():
            st = strip(s_)
            if isinstance(st, dict) and st.get('k') == 'decl':
                for vd in st['vars']:
                    if 'Stack' in (vd.get('t') or ''):
                        env[vd['id']] = 'STK'
        self._stk_ids = [k for k, v in env.items() if v == 'STK']
        r = it.run(env, {})
        return r[0], bytes(out), list(stack)
