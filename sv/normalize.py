"""Normalisation of extracted function bodies (opt-in view for the structural rules): a local that merely NAMES a
side-effect-free expression is replaced by that expression at its uses, so that a rule sees `shared_->chunkHead->size`
whether or not the source spells it through `ChunkHeader* const head = shared_->chunkHead;`.

A local is inlined when it has exactly one definition (its initialiser), is never assigned, incremented, address-taken
or bound to a non-const reference parameter, its type is a scalar / pointer / reference, its initialiser has no side
effect (no assignment, no ++/--, calls only to const methods or to functions that are themselves side-effect free),
and every variable the initialiser reads is itself never modified in the function.  The declaration stays in place.
Interpretation-based rules (sv/minterp.py) keep using the raw bodies.
"""
import copy
import re

ASSIGN = ('=', '+=', '-=', '*=', '/=', '%=', '<<=', '>>=', '&=', '|=', '^=')
SCALAR = re.compile(r'^(const )?(unsigned |signed )?(char|short|int|long|long long|bool|_Bool|float|double|size_t|ssize_t|ptrdiff_t|u?int(8|16|32|64)_t|uintptr_t|intptr_t)( const)?$')


def _strip(e):
    while e is not None and e.get('k') in ('cast', 'paren'):
        e = e['e']
    return e


def _walk(e):
    if isinstance(e, dict):
        yield e
        for k, v in e.items():
            if k in ('t', 'loc', 'sloc', 'cv'):
                continue
            if isinstance(v, (dict, list)):
                for x in _walk(v):
                    yield x
    elif isinstance(e, list):
        for v in e:
            for x in _walk(v):
                yield x


def _inlinable_type(t):
    t = (t or '').strip()
    if t.endswith('&&'):
        return False
    if t.endswith('&'):
        return True
    if t.endswith('*') or t.endswith('*const') or t.endswith('* const'):
        return True
    return bool(SCALAR.match(t.replace('std::', '')))


class Normalizer:
    def __init__(self, data):
        self.by_id = {f['id']: f for f in data['functions']}
        self._pure = {}

    def fn_pure(self, fid, depth=0):
        """no assignment / increment through anything but its own locals, calls only to pure functions"""
        if fid in self._pure:
            return self._pure[fid]
        f = self.by_id.get(fid)
        if f is None or depth > 3 or not f.get('blocks'):
            return False
        self._pure[fid] = False          # recursion guard
        ok = True
        for b in f['blocks']:
            items = list(b['stmts'])
            t = b.get('term')
            if t and t.get('cond') is not None:
                items.append(t['cond'])
            for s in items:
                for e in _walk(s):
                    k = e.get('k')
                    if k == 'bin' and e.get('op') in ASSIGN:
                        l = _strip(e['l'])
                        if not (l is not None and l.get('k') == 'ref' and l.get('dk') == 'local'):
                            ok = False
                    elif k == 'un' and e.get('op') in ('++', '--'):
                        l = _strip(e['e'])
                        if not (l is not None and l.get('k') == 'ref' and l.get('dk') == 'local'):
                            ok = False
                    elif k in ('call', 'ctor', 'new', 'delete'):
                        if k != 'call' or not self.call_pure(e, depth + 1):
                            ok = False
            if not ok:
                break
        self._pure[fid] = ok
        return ok

    def call_pure(self, e, depth=0):
        if e.get('cname') in ('__builtin_expect', '__builtin_ctz', '__builtin_ctzll', '__builtin_clz', '__builtin_clzll', '__builtin_popcountll', '__builtin_unreachable'):
            return True
        g = self.by_id.get(e.get('cid'))
        if g is None:
            return False
        if g.get('const') and self.fn_pure(g['id'], depth):
            return True
        return self.fn_pure(g['id'], depth)

    def expr_pure(self, e):
        for x in _walk(e):
            k = x.get('k')
            if k == 'bin' and x.get('op') in ASSIGN:
                return False
            if k == 'un' and x.get('op') in ('++', '--'):
                return False
            if k in ('ctor', 'new', 'delete', 'initlist', 'lambda', 'str'):
                return False
            if k == 'call' and not self.call_pure(x):
                return False
        return True

    def _mods(self, s):
        """(ids of locals / params possibly modified by statement s, s has a side effect on memory)"""
        mods = set()
        impure = False
        for e in _walk(s):
            k = e.get('k')
            if k == 'bin' and e.get('op') in ASSIGN:
                l = _strip(e['l'])
                if l is not None and l.get('k') == 'ref' and l.get('dk') in ('local', 'param'):
                    mods.add(l.get('id'))
                    if (l.get('t') or '').rstrip().endswith('&'):
                        impure = True
                else:
                    impure = True
            elif k == 'un' and e.get('op') in ('++', '--'):
                l = _strip(e['e'])
                if l is not None and l.get('k') == 'ref' and l.get('dk') in ('local', 'param'):
                    mods.add(l.get('id'))
                    if (l.get('t') or '').rstrip().endswith('&'):
                        impure = True
                else:
                    impure = True
            elif k in ('new', 'delete'):
                impure = True
            elif k in ('call', 'ctor'):
                g = self.by_id.get(e.get('cid'))
                ps = g.get('params', []) if g is not None else None
                if k == 'ctor' or not self.call_pure(e):
                    impure = True
                for i, a in enumerate(e.get('args') or []):
                    a0 = _strip(a)
                    if a0 is None or a0.get('k') != 'ref':
                        continue
                    if ps is not None and i < len(ps):
                        pt = (ps[i].get('t') or '').strip()
                        if pt.endswith('&') and not pt.endswith('&&') and not pt.startswith('const '):
                            mods.add(a0.get('id'))
                    elif ps is None:
                        at = (a0.get('t') or '')
                        if not at.startswith('const ') and not at.rstrip().endswith('const'):
                            mods.add(a0.get('id'))
        return mods, impure

    def normalize_fn(self, f):
        from .core import Function
        from .e2_dom import Must
        blocks = f.get('blocks') or []
        if not blocks:
            return 0
        total = 0
        for _round in range(3):
            ndecl = {}
            decls = {}
            never = set()         # address-taken / self-modified: never a candidate
            tops = []
            for b in blocks:
                for s in b['stmts']:
                    tops.append(s)
                t = b.get('term')
                if t and t.get('cond') is not None:
                    tops.append(t['cond'])
            for s in tops:
                for e in _walk(s):
                    k = e.get('k')
                    if k == 'decl':
                        for v in e.get('vars', []):
                            ndecl[v['id']] = ndecl.get(v['id'], 0) + 1
                            if v.get('init') is not None:
                                decls[v['id']] = v
                    elif k == 'un' and e.get('op') == '&':
                        l = _strip(e['e'])
                        if l is not None and l.get('k') == 'ref':
                            never.add(l.get('id'))
                m_, _ = self._mods(s)
                never |= m_
            cand = {}
            for vid, v in decls.items():
                if ndecl.get(vid) != 1 or vid in never or v.get('inlined'):
                    continue
                if not _inlinable_type(v.get('t')) or (v.get('name') or '').startswith('__'):
                    continue
                init = v['init']
                if not self.expr_pure(init):
                    continue
                reads = set(x.get('id') for x in _walk(init) if x.get('k') == 'ref' and x.get('dk') in ('local', 'param'))
                if vid in reads:
                    continue
                memread = any(x.get('k') in ('member', 'sub', 'call') or (x.get('k') == 'un' and x.get('op') == '*') or
                              (x.get('k') == 'ref' and x.get('dk') not in ('local', 'param') and x.get('cv') is None) for x in _walk(init))
                cand[vid] = (v, reads, memread)
            if not cand:
                break
            F = Function(f, None)

            def gen_stmt(s):
                s0 = s if isinstance(s, dict) else None
                if s0 is not None and s0.get('k') == 'decl':
                    return [v['id'] for v in s0.get('vars', []) if v['id'] in cand]
                return []

            def kill_stmt(s):
                mods, impure = self._mods(s)
                if not mods and not impure:
                    return []
                out = []
                for vid, (v, reads, memread) in cand.items():
                    if (reads & mods) or (memread and impure):
                        # the declaration itself (re)establishes the value after its own initialiser ran
                        if isinstance(s, dict) and s.get('k') == 'decl' and any(x['id'] == vid for x in s.get('vars', [])):
                            continue
                        out.append(vid)
                return out
            M = Must(F, gen_stmt=gen_stmt, kill_stmt=kill_stmt)
            n = [0]

            def subst(node, valid):
                if isinstance(node, list):
                    for i, x in enumerate(node):
                        node[i] = subst(x, valid)
                    return node
                if not isinstance(node, dict):
                    return node
                if node.get('k') == 'ref' and node.get('id') in valid:
                    n[0] += 1
                    rep = copy.deepcopy(cand[node['id']][0]['init'])
                    return {'k': 'cast', 'ck': 'NoOp', 'e': rep, 't': node.get('t'), 'loc': node.get('loc'), 'from_local': node.get('name')}
                for k, v in list(node.items()):
                    if k in ('t', 'loc', 'sloc', 'cv'):
                        continue
                    if isinstance(v, (dict, list)):
                        node[k] = subst(v, valid)
                return node
            for b in blocks:
                for i, s in enumerate(b['stmts']):
                    valid = M.before.get((b['id'], i))
                    if not valid:
                        continue
                    if isinstance(s, dict) and s.get('k') == 'decl':
                        # the initialiser of a candidate stays as written during a round: its recorded operand set (and with
                        # it the validity computed above) describes THAT expression; chains resolve at the use sites in
                        # the next round, under the validity of the use site
                        for v in s.get('vars', []):
                            if v['id'] not in cand and v.get('init') is not None:
                                v['init'] = subst(v['init'], valid)
                        continue
                    b['stmts'][i] = subst(s, valid)
                t = b.get('term')
                if t and t.get('cond') is not None:
                    valid = M.before.get((b['id'], 'cond'))
                    if valid:
                        t['cond'] = subst(t['cond'], valid)
            total += n[0]
            if not n[0]:
                break
        return total


def _single_return(f):
    """the return expression of a function whose body is `return expr;` (after asserts), else None"""
    blocks = f.get('blocks') or []
    ret = None
    for b in blocks:
        if len([x for x in b.get('succs', []) if x is not None]) > 1:
            return None
        for s in b['stmts']:
            if not isinstance(s, dict):
                continue
            k = s.get('k')
            if k == 'ret':
                if ret is not None or s.get('e') is None:
                    return None
                ret = s['e']
            elif k in ('decl', 'bin', 'un', 'new', 'delete'):
                return None
            elif k == 'call':
                return None
    return ret


def inline_helpers(N, f):
    """calls of pure single-return helpers (same object or free functions) are replaced by their return expression"""
    n = [0]

    def subst_params(e, mp):
        if isinstance(e, list):
            return [subst_params(x, mp) for x in e]
        if not isinstance(e, dict):
            return e
        if e.get('k') == 'ref' and e.get('id') in mp:
            return {'k': 'cast', 'ck': 'NoOp', 'e': copy.deepcopy(mp[e['id']]), 't': e.get('t'), 'loc': e.get('loc')}
        return {k: (subst_params(v, mp) if isinstance(v, (dict, list)) and k not in ('t', 'loc', 'sloc', 'cv') else v) for k, v in e.items()}

    def visit(node, depth=0):
        if isinstance(node, list):
            for i, x in enumerate(node):
                node[i] = visit(x, depth)
            return node
        if not isinstance(node, dict):
            return node
        for k, v in list(node.items()):
            if k in ('t', 'loc', 'sloc', 'cv'):
                continue
            if isinstance(v, (dict, list)):
                node[k] = visit(v, depth)
        if node.get('k') == 'call' and node.get('cid') is not None and depth < 3:
            g = N.by_id.get(node['cid'])
            if g is not None and g['id'] != f['id'] and not node.get('opcall'):
                ob = _strip(node.get('obj')) if node.get('obj') is not None else None
                if ob is None or ob.get('k') == 'this':
                    ret = _single_return(g)
                    args = node.get('args') or []
                    ps = g.get('params', [])
                    if ret is not None and len(ps) == len(args) and N.fn_pure(g['id']) and all(N.expr_pure(a) for a in args) and \
                            (ob is not None or not any(x.get('k') == 'this' for x in _walk(ret))):
                        n[0] += 1
                        body = subst_params(copy.deepcopy(ret), {p_['id']: a for p_, a in zip(ps, args)})
                        body = visit(body, depth + 1)
                        return {'k': 'cast', 'ck': 'NoOp', 'e': body, 't': node.get('t'), 'loc': node.get('loc'), 'from_call': node.get('cname')}
        return node
    for b in f.get('blocks') or []:
        for i, s in enumerate(b['stmts']):
            b['stmts'][i] = visit(s)
        t = b.get('term')
        if t and t.get('cond') is not None:
            t['cond'] = visit(t['cond'])
    return n[0]


def normalize(data, helpers=True):
    N = Normalizer(data)
    total = 0
    originals = None
    if helpers:
        # helper bodies are taken from the un-normalised functions (order independent)
        import copy as _c
        N.by_id = {f['id']: _c.deepcopy(f) for f in data['functions']}
        for f in data['functions']:
            total += inline_helpers(N, f)
        N.by_id = {f['id']: f for f in data['functions']}
        N._pure = {}
    for f in data['functions']:
        total += N.normalize_fn(f)
    data['normalized_refs'] = total
    return data
