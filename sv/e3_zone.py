"""E3 (part 2) — zone (difference-bound) abstract interpretation of the cursor
arithmetic of the unpadded scanners: constraints x - y <= c over the cursor,
the limit, saved cursors, pointer offsets and the constant 0.  Obligations:
every read through a pointer into the caller's buffer lies in [0, len); every
access to a local array / private buffer lies inside it.

Sound over-approximation (joins, widening at loop heads). Assumption stated in
evidence: size_t arithmetic on cursor and length does not wrap (lengths < 2^63).
"""
from .core import strip, strip_expect, cval, show, walk, locline, AnalysisBroken
from .primitives import LOAD_WIDTH

INF = float('inf')
Z = 'Z'   # the constant zero


class Zone:
    __slots__ = ('b', 'bottom')

    def __init__(self, b=None, bottom=False):
        self.b = dict(b) if b else {}
        self.bottom = bottom

    def copy(self):
        return Zone(self.b, self.bottom)

    def vars(self):
        vs = {Z}
        for (x, y) in self.b:
            vs.add(x)
            vs.add(y)
        return vs

    def get(self, x, y):
        if x == y:
            return 0
        return self.b.get((x, y), INF)

    def add(self, x, y, c):
        """x - y <= c"""
        if self.bottom or c == INF:
            return
        if x == y:
            if c < 0:
                self.bottom = True
            return
        if c < self.b.get((x, y), INF):
            self.b[(x, y)] = c
            self._close_incremental(x, y, c)

    def _close_incremental(self, x, y, c):
        vs = list(self.vars())
        b = self.b
        # new shortest paths through edge (x,y)
        for u in vs:
            ux = 0 if u == x else b.get((u, x), INF)
            if ux == INF:
                continue
            for v in vs:
                yv = 0 if v == y else b.get((y, v), INF)
                if yv == INF:
                    continue
                d = ux + c + yv
                if u == v:
                    if d < 0:
                        self.bottom = True
                        return
                    continue
                if d < b.get((u, v), INF):
                    b[(u, v)] = d

    def forget(self, x):
        for k in [k for k in self.b if x in k]:
            del self.b[k]

    def assign_shift(self, x, c):
        """x := x + c"""
        nb = {}
        for (u, v), d in self.b.items():
            if u == x and v != x:
                nb[(u, v)] = d + c
            elif v == x and u != x:
                nb[(u, v)] = d - c
            else:
                nb[(u, v)] = d
        self.b = nb

    def assign_shift_range(self, x, lo, hi):
        """x := x + [lo, hi]"""
        nb = {}
        for (u, v), d in self.b.items():
            if u == x and v != x:
                nb[(u, v)] = d + hi
            elif v == x and u != x:
                nb[(u, v)] = d - lo
            else:
                nb[(u, v)] = d
        self.b = {k: v for k, v in nb.items() if v != INF}

    def assign(self, x, y, c):
        """x := y + c   (y may be Z)"""
        if y == x:
            return self.assign_shift(x, c)
        self.forget(x)
        self.add(x, y, c)
        self.add(y, x, -c)

    def join(self, o):
        if self.bottom:
            return o.copy()
        if o.bottom:
            return self.copy()
        nb = {}
        for k, v in self.b.items():
            w = o.b.get(k, INF)
            if w != INF:
                nb[k] = max(v, w)
        return Zone(nb)

    THRESHOLDS = [-128, -66, -65, -64, -63, -33, -32, -31, -17, -16, -15, -8, -4, -3, -2, -1, 0, 1, 2, 3, 4, 8, 15, 16, 17, 31, 32, 33, 63, 64, 65, 66, 128]

    def widen(self, o):
        """self widened by o (o = self join new), with thresholds"""
        nb = {}
        for k, v in self.b.items():
            w = o.b.get(k, INF)
            if w <= v:
                nb[k] = v
            elif w != INF:
                for t in Zone.THRESHOLDS:
                    if t >= w:
                        nb[k] = t
                        break
        return Zone(nb)

    def equal(self, o):
        return self.bottom == o.bottom and self.b == o.b

    def entails(self, x, y, c):
        """does the zone imply x - y <= c ?"""
        if self.bottom:
            return True
        return self.get(x, y) <= c

    def __repr__(self):
        if self.bottom:
            return 'BOTTOM'
        return ', '.join('%s-%s<=%s' % (x, y, c) for (x, y), c in sorted(self.b.items()))


class Lin:
    """x - y + c  (x, y may be Z)"""
    __slots__ = ('x', 'y', 'c')

    def __init__(self, x=Z, y=Z, c=0):
        self.x, self.y, self.c = x, y, c

    def __repr__(self):
        return '%s-%s%+d' % (self.x, self.y, self.c)


def lin_add(a, b):
    """sum of two Lin if representable"""
    if a is None or b is None:
        return None
    xs = [v for v in (a.x, b.x) if v != Z]
    ys = [v for v in (a.y, b.y) if v != Z]
    # cancel
    for v in list(xs):
        if v in ys:
            xs.remove(v)
            ys.remove(v)
    if len(xs) > 1 or len(ys) > 1:
        return None
    return Lin(xs[0] if xs else Z, ys[0] if ys else Z, a.c + b.c)


def lin_neg(a):
    if a is None:
        return None
    return Lin(a.y, a.x, -a.c)


class ZoneAnalysis:
    """intraprocedural zone analysis of one function with role bindings"""

    def __init__(self, fn, facts, iv, roles, summaries=None, pre=None, invariants=None, hooks=None):
        """roles: dict(data=param id of the buffer, len=var id, pos=var id)
        iv: Intervals oracle for increments such as TrailingZeroes(x)"""
        self.fn, self.facts, self.iv = fn, facts, iv
        self.roles = roles
        self.summaries = summaries or {}
        self.pre = pre or []
        self.inv = invariants or {}
        self.hooks = hooks or {}
        self.obligations = []       # (kind, expr, loc, ok, detail)
        self.call_pre = []          # (callee, loc, ok, detail)
        self.returns = []           # (retclass, zone, stmt)
        self.ptr = {}               # var id -> (base, Lin offset)
        self.vname = {}
        self.arrays = {}            # local array id -> size
        self.notes = []
        self._scan_decls()

    # -- naming
    def v(self, e):
        """zone variable name for an integer local/param reference"""
        e = strip(e)
        if e is None or e.get('k') != 'ref' or e.get('dk') not in ('local', 'param'):
            return None
        n = 'v%d' % e['id']
        self.vname[n] = e.get('name')
        return n

    _bdef_vars = {}

    def _scan_decls(self):
        for bid, i, s in self.fn.stmts():
            s_ = strip(s)
            if s_.get('k') == 'decl':
                for v in s_['vars']:
                    t = v.get('t', '')
                    if '[' in t and ']' in t and '*' not in t:
                        try:
                            self.arrays[v['id']] = int(t.split('[')[1].split(']')[0])
                        except ValueError:
                            pass

    # -- linear forms
    def lin(self, e, st):
        c = cval(e)
        e_ = strip(e)
        if e_ is None:
            return None
        if c is not None and e_.get('k') != 'ref':
            return Lin(Z, Z, c)
        k = e_.get('k')
        if k == 'ref':
            if e_.get('dk') in ('local', 'param') and '*' not in e_.get('t', ''):
                n = self.v(e_)
                d = st.get('defs', {}).get(n)
                if d is not None:
                    return self.unfreeze(st, Lin(d.x, d.y, d.c))     # frozen operands that still equal their variables stand for them
                return Lin(n, Z, 0)
            if c is not None:
                return Lin(Z, Z, c)
            return None
        if k == 'bin' and e_['op'] in ('+', '-'):
            # pointer difference?
            pl, pr = self.ptr_of(e_['l'], st), self.ptr_of(e_['r'], st)
            if e_['op'] == '-' and pl is not None and pr is not None:
                if pl[0] == pr[0]:
                    return lin_add(pl[1], lin_neg(pr[1]))
                return None
            a = self.lin(e_['l'], st)
            b = self.lin(e_['r'], st)
            if e_['op'] == '-':
                b = lin_neg(b)
            return lin_add(a, b)
        if k == 'un' and e_['op'] == '-':
            return lin_neg(self.lin(e_['e'], st))
        if k == 'call' and e_.get('cname') == '__builtin_expect':
            return self.lin(e_['args'][0], st)
        if k == 'call' and e_.get('cname') == 'size' and e_.get('obj') is not None:
            o = strip(e_['obj'])
            if o.get('k') == 'ref':
                n = 'size:%d' % o['id']
                self.vname[n] = o.get('name') + '.size()'
                return Lin(n, Z, 0)
        return None

    def ptr_of(self, e, st):
        """(base, Lin offset) of a pointer expression, or None"""
        e_ = strip(e)
        if e_ is None:
            return None
        k = e_.get('k')
        if k == 'ref':
            if e_.get('id') in st['ptr']:
                return st['ptr'][e_['id']]
            if e_.get('dk') == 'param' and '*' in e_.get('t', ''):
                return (('param', e_['id'], e_.get('name')), Lin())
            if e_.get('id') in self.arrays:
                return (('array', e_['id'], e_.get('name')), Lin())
            return None
        if k == 'bin' and e_['op'] in ('+', '-'):
            pl = self.ptr_of(e_['l'], st)
            if pl is not None:
                o = self.lin(e_['r'], st)
                if e_['op'] == '-':
                    o = lin_neg(o)
                off = lin_add(pl[1], o)
                return (pl[0], off) if off is not None else (pl[0], None)
            pr = self.ptr_of(e_['r'], st)
            if pr is not None and e_['op'] == '+':
                off = lin_add(pr[1], self.lin(e_['l'], st))
                return (pr[0], off)
            return None
        if k == 'un' and e_['op'] == '&':
            t = strip(e_['e'])
            if t.get('k') == 'sub':
                pb = self.ptr_of(t['base'], st)
                if pb is not None:
                    off = lin_add(pb[1], self.lin(t['idx'], st)) if pb[1] is not None else None
                    return (pb[0], off)
                # &vec[0]
                b = strip(t['base'])
            if t.get('k') == 'call' and t.get('opcall') == '[]':
                o = strip(t['args'][0])
                if o.get('k') == 'ref':
                    return (('vec', o['id'], o.get('name')), self.lin(t['args'][1], st))
            return None
        if k == 'call':
            if e_.get('cname') == 'data' and e_.get('obj') is not None:
                o = strip(e_['obj'])
                if o.get('k') == 'ref':
                    return (('sv', o['id'], o.get('name')), Lin())
            if e_.get('cname') in ('Malloc', 'malloc'):
                return (('heap', id(e_), 'malloc'), Lin())
        if k == 'cond':
            return None
        return None

    # -- the state: dict(z=Zone, ptr={}, cf={}) ; cf: conditional facts keyed by var name
    def new_state(self):
        z = Zone()
        return dict(z=z, ptr={}, cf={})

    def copy_state(self, st):
        out = dict(z=st['z'].copy(), ptr=dict(st['ptr']), cf={k: v for k, v in st['cf'].items()})
        for extra in ('defs', 'bdefs', 'filled', 'retlin', 'sizes', 'ub', 'ret_ub', 'zero_tail', 'vec_src', 'bit_ext'):
            if extra in st:
                out[extra] = dict(st[extra])
        if 'dirty' in st:
            out['dirty'] = set(st['dirty'])
        return out

    def join_state(self, a, b):
        ptr = {}
        for k, v in a['ptr'].items():
            w = b['ptr'].get(k)
            if w is not None and w[0] == v[0] and repr(w[1]) == repr(v[1]):
                ptr[k] = v
        cf = {k: v for k, v in a['cf'].items() if b['cf'].get(k) == v}
        out = dict(z=a['z'].join(b['z']), ptr=ptr, cf=cf)
        da, db = a.get('defs', {}), b.get('defs', {})
        out['defs'] = {k: v for k, v in da.items() if k in db and repr(db[k]) == repr(v)}
        ba, bb = a.get('bdefs', {}), b.get('bdefs', {})
        out['bdefs'] = {k: v for k, v in ba.items() if k in bb and bb[k] is v}
        sa, sb = a.get('sizes', {}), b.get('sizes', {})
        out['sizes'] = {k: v for k, v in sa.items() if k in sb and repr(sb[k]) == repr(v)}
        ua, ub_ = a.get('ub', {}), b.get('ub', {})
        out['ub'] = {k: v for k, v in ua.items() if k in ub_ and repr(ub_[k]) == repr(v)}
        for key in ('zero_tail', 'vec_src', 'bit_ext'):
            xa, xb = a.get(key, {}), b.get(key, {})
            out[key] = {k: v for k, v in xa.items() if k in xb and repr(xb[k]) == repr(v)}
        out['dirty'] = set(a.get('dirty', set())) | set(b.get('dirty', set()))
        fa, fb = a.get('filled', {}), b.get('filled', {})
        out['filled'] = {k: v for k, v in fa.items() if k in fb and fb[k]['loc'] == v['loc'] and repr(fb[k]['ln']) == repr(v['ln'])}
        return out

    def constrain(self, st, a, op, b):
        """a op b with a, b Lin; op in <=,<,>=,>,=="""
        if a is None or b is None:
            return
        d = lin_add(a, lin_neg(b))      # d op 0
        if d is None:
            return
        z = st['z']
        if op in ('<', '<='):
            z.add(d.x, d.y, -d.c - (1 if op == '<' else 0))
        elif op in ('>', '>='):
            z.add(d.y, d.x, d.c - (1 if op == '>' else 0))
        elif op == '==':
            z.add(d.x, d.y, -d.c)
            z.add(d.y, d.x, d.c)

    def entails(self, st, a, op, b):
        d = lin_add(a, lin_neg(b)) if a is not None and b is not None else None
        if d is None:
            # try the recorded symbolic upper bound of a's variable:  a = x + c <= ub(x) + c
            if op in ('<=', '<') and a is not None and a.y == Z and a.x in st.get('ub', {}):
                a2 = lin_add(st['ub'][a.x], Lin(Z, Z, a.c))
                if a2 is not None and a2.x != a.x:
                    return self.entails(st, a2, op, b)
            return False
        if op in ('<=', '<') and d.x != Z and d.x in st.get('ub', {}) and not self._entails_raw(st, d, op):
            a2 = lin_add(st['ub'][d.x], Lin(Z, d.y, d.c))
            if a2 is not None:
                return self._entails_raw(st, a2, op)
        return self._entails_raw(st, d, op)

    def _entails_raw(self, st, d, op):
        z = st['z']
        if op == '<=':
            return z.entails(d.x, d.y, -d.c)
        if op == '<':
            return z.entails(d.x, d.y, -d.c - 1)
        if op == '>=':
            return z.entails(d.y, d.x, d.c)
        if op == '>':
            return z.entails(d.y, d.x, d.c - 1)
        return False

    def kill_var(self, st, n):
        st['z'].forget(n)
        if st.get('bdefs'):
            st['bdefs'] = {k: v for k, v in st['bdefs'].items() if k != n and n not in self._bdef_vars.get(id(v), ())}
        if st.get('defs'):
            st['defs'] = {k: v for k, v in st['defs'].items() if k != n and n not in (v.x, v.y)}
        if st.get('ub'):
            st['ub'] = {k: v for k, v in st['ub'].items() if k != n and n not in (v.x, v.y)}
        if st.get('sizes'):
            st['sizes'] = {k: v for k, v in st['sizes'].items() if n not in (v.x, v.y)}
        for key in ('zero_tail', 'bit_ext'):
            if st.get(key):
                st[key] = {k: v for k, v in st[key].items() if n not in (v.x, v.y)}
        for k in [k for k, (base, off) in st['ptr'].items() if off is not None and n in (off.x, off.y)]:
            del st['ptr'][k]
        for k in [k for k, v in st['cf'].items() if k == n or any(n in (x, y) for facts in v.values() for (x, y, c) in facts)]:
            del st['cf'][k]
        self.apply_invariant(st, n)

    def apply_invariant(self, st, n):
        pass

    # -- obligations
    def need_read(self, st, base, off, width, e, what):
        """read of [off, off+width) from base"""
        loc = locline(e.get('loc', '?'))
        if off is None:
            self.obligations.append((what, show(e), loc, False, 'offset not linear'))
            return
        kind = base[0]
        lo_ok = self.entails(st, off, '>=', Lin())
        if kind in ('param', 'sv') and self.is_buffer(base):
            L = self.len_lin(base)
            hi_ok = self.entails(st, lin_add(off, Lin(Z, Z, width)), '<=', L)
            detail = 'need 0 <= %s and %s + %d <= %s ; known: %s' % (self.pp(off), self.pp(off), width, self.pp(L), self.ppz(st['z']))
            self.obligations.append((what, show(e)[:90], loc, bool(lo_ok and hi_ok), detail))
        elif kind == 'array':
            size = self.arrays.get(base[1])
            hi_ok = self.entails(st, lin_add(off, Lin(Z, Z, width)), '<=', Lin(Z, Z, size))
            self.obligations.append((what, show(e)[:90], loc, bool(lo_ok and hi_ok),
                                     'local array %s[%d]: need 0 <= %s and %s + %d <= %d ; known: %s' % (base[2], size, self.pp(off), self.pp(off), width, size, self.ppz(st['z']))))
        elif self.size_of(st, base) is not None:
            L = self.size_of(st, base)
            hi_ok = self.entails(st, lin_add(off, Lin(Z, Z, width)), '<=', L)
            self.obligations.append((what, show(e)[:90], loc, bool(lo_ok and hi_ok),
                                     'private buffer %s: need %s + %d <= %s ; known: %s' % (base[2], self.pp(off), width, self.pp(L), self.ppz(st['z']))))
        else:
            # pointer into memory this analysis does not own a length for: not a caller-buffer read
            pass

    def size_of(self, st, base):
        return st.get('sizes', {}).get(base[:2])

    def set_size(self, st, base, lin):
        st['sizes'] = dict(st.get('sizes', {}))
        if lin is None:
            st['sizes'].pop(base[:2], None)
        else:
            st['sizes'][base[:2]] = lin

    def is_buffer(self, base):
        return base[0] in ('param', 'sv') and base[1] == self.roles.get('data_id')

    def len_lin(self, base):
        return Lin(self.roles['len'], Z, 0)

    def pp(self, l):
        if l is None:
            return '?'
        n = lambda v: self.vname.get(v, v)
        s = ''
        if l.x != Z:
            s += n(l.x)
        if l.y != Z:
            s += '-' + n(l.y)
        if l.c or not s:
            s += ('%+d' % l.c) if s else '%d' % l.c
        return s

    def ppz(self, z):
        if z.bottom:
            return 'unreachable'
        n = lambda v: self.vname.get(v, v)
        out = []
        P, L = self.roles.get('pos'), self.roles.get('len')
        for (x, y), c in sorted(z.b.items()):
            if c == INF:
                continue
            if y == Z:
                out.append('%s<=%d' % (n(x), c))
            elif x == Z:
                out.append('%s>=%d' % (n(y), -c))
            else:
                out.append('%s-%s<=%d' % (n(x), n(y), c))
        return '; '.join(out[:14])

    # -- expression effects & reads (evaluation order approximated: sub-expressions first)
    def reads(self, e, st, bid, idx):
        """walk e: check reads, apply side effects (cursor ++ etc.)"""
        e_ = e
        if e_ is None:
            return
        k = e_.get('k')
        if k == 'cast':
            return self.reads(e_['e'], st, bid, idx)
        if k == 'sub':
            pb = self.ptr_of(e_['base'], st)
            ix = strip(e_['idx'])
            if ix is not None and ix.get('k') == 'un' and ix['op'] in ('++', '--') and ix.get('post'):
                # data[pos++]: the old value indexes
                off0 = self.lin(ix['e'], st)
                if pb is not None:
                    self.need_read(st, pb[0], lin_add(pb[1], off0), 1, e_, 'subscript')
                self.reads(ix, st, bid, idx)
                return
            self.reads(e_['idx'], st, bid, idx)
            if pb is not None:
                off = lin_add(pb[1], self.lin(e_['idx'], st)) if pb[1] is not None else None
                self.need_read(st, pb[0], off, 1, e_, 'subscript')
            else:
                self.reads(e_['base'], st, bid, idx)
            return
        if k == 'un':
            if e_['op'] in ('++', '--'):
                n = self.v(e_['e'])
                if n is not None:
                    self.shift(st, n, 1 if e_['op'] == '++' else -1)
                else:
                    t = strip(e_['e'])
                    if t.get('k') == 'ref' and t.get('id') in st['ptr']:
                        base, off = st['ptr'][t['id']]
                        st['ptr'][t['id']] = (base, lin_add(off, Lin(Z, Z, 1 if e_['op'] == '++' else -1)))
                return
            if e_['op'] == '*':
                pb = self.ptr_of(e_['e'], st)
                inner = strip(e_['e'])
                post = inner.get('k') == 'un' and inner['op'] in ('++', '--') and inner.get('post')
                if post:
                    pb = self.ptr_of(inner['e'], st)
                if pb is not None:
                    self.need_read(st, pb[0], pb[1], 1, e_, 'dereference')
                self.reads(e_['e'], st, bid, idx)
                return
            return self.reads(e_['e'], st, bid, idx)
        if k == 'bin':
            op = e_['op']
            if op == '=':
                self.reads(e_['r'], st, bid, idx)
                self.assign(e_['l'], e_['r'], st, bid, idx)
                return
            if op in ('+=', '-='):
                self.reads(e_['r'], st, bid, idx)
                n = self.v(e_['l'])
                if n is not None:
                    lo, hi = self.incr_range(e_['r'], st, bid, idx)
                    if op == '-=':
                        lo, hi = -hi, -lo
                    sym = self.hooks['incr_ub'](self, e_['r'], st, bid, idx) if (op == '+=' and 'incr_ub' in self.hooks) else None
                    if lo == hi:
                        self.shift(st, n, lo)
                    elif lo != -INF and hi != INF:
                        self.shift_range(st, n, lo, hi)
                        if sym is not None and sym.y == n and sym.x != n:
                            # increment <= x - n_old + c  =>  n_new <= x + c
                            st['z'].add(n, sym.x, sym.c)
                    else:
                        # x += y with y a zone variable
                        l = self.lin(e_['r'], st)
                        self.kill_var(st, n)
                else:
                    t = strip(e_['l'])
                    if t.get('k') == 'ref' and t.get('id') in st['ptr']:
                        base, off = st['ptr'][t['id']]
                        d = self.lin(e_['r'], st)
                        if op == '-=':
                            d = lin_neg(d)
                        no = lin_add(off, d) if off is not None else None
                        st['ptr'][t['id']] = (base, no)
                return
            if op in ('&=', '|=', '^=', '*=', '/=', '>>=', '<<=', '%='):
                self.reads(e_['r'], st, bid, idx)
                n = self.v(e_['l'])
                if n is not None:
                    self.kill_var(st, n)
                return
            self.reads(e_['l'], st, bid, idx)
            self.reads(e_['r'], st, bid, idx)
            return
        if k == 'cond':
            self.reads(e_['c'], st, bid, idx)
            return
        if k == 'ctor':
            for a in e_.get('args', []):
                self.reads(a, st, bid, idx)
            w = None
            for key, width in LOAD_WIDTH.items():
                if width and e_.get('cls', '').endswith(key):
                    w = width
            if w and len(e_.get('args', [])) == 1:
                pb = self.ptr_of(e_['args'][0], st)
                if pb is not None:
                    self.need_read(st, pb[0], pb[1], w, e_, 'vector load (%d bytes)' % w)
            return
        if k == 'call':
            return self.call(e_, st, bid, idx)
        if k == 'decl':
            for v in e_['vars']:
                init = v.get('init')
                if init is None:
                    continue
                self.reads(init, st, bid, idx)
                self.assign_var(v['id'], v.get('name'), v.get('t', ''), init, st, bid, idx)
            if 'decl' in self.hooks:
                self.hooks['decl'](self, e_, st, bid, idx)
            return
        if k == 'ret':
            if e_.get('e') is not None:
                self.reads(e_['e'], st, bid, idx)
            return
        if k == 'member':
            return self.reads(e_.get('base'), st, bid, idx)
        if k in ('initlist',):
            for a in e_.get('args', []):
                self.reads(a, st, bid, idx)

    def shift(self, st, n, c):
        st['z'].assign_shift(n, c)
        self._shift_cf(st, n)

    def shift_range(self, st, n, lo, hi):
        st['z'].assign_shift_range(n, lo, hi)
        self._shift_cf(st, n)

    def _shift_cf(self, st, n):
        for key in ('zero_tail', 'bit_ext', 'sizes', 'ub'):
            if st.get(key):
                st[key] = {k: v for k, v in st[key].items() if n not in (v.x, v.y)}
        for k in [k for k, v in st['cf'].items() if any(n in (x, y) for facts in v.values() for (x, y, c) in facts)]:
            del st['cf'][k]

    def incr_range(self, e, st, bid, idx):
        c = cval(e)
        if c is not None:
            return (c, c)
        if self.iv is not None:
            stt = self.iv.at(bid, idx)
            if stt is not None:
                r = self.iv.ev(e, dict(stt))
                return r
        return (-INF, INF)

    def lin_plus_range(self, e, st, bid, idx):
        """e == L + r with L linear and r an expression of known interval [lo, hi]"""
        e_ = strip(e)
        if e_ is None or e_.get('k') != 'bin' or e_['op'] != '+':
            return None
        for a, b in ((e_['l'], e_['r']), (e_['r'], e_['l'])):
            la = self.lin(a, st)
            if la is not None and self.lin(b, st) is None:
                lo, hi = self.incr_range(b, st, bid, idx)
                if lo != -INF or hi != INF:
                    return (la, lo, hi)
        return None

    def assign(self, lhs, rhs, st, bid, idx):
        l = strip(lhs)
        if l is None:
            return
        if l.get('k') == 'ref' and l.get('id') in st.get('bit_ext', {}):
            st['bit_ext'] = {k: v for k, v in st['bit_ext'].items() if k != l['id']}
        if l.get('k') == 'ref':
            return self.assign_var(l['id'], l.get('name'), l.get('t', ''), rhs, st, bid, idx)

    def assign_var(self, vid, name, typ, rhs, st, bid, idx):
        n = 'v%d' % vid
        self.vname[n] = name
        if '*' in typ:
            pb = self.ptr_of(rhs, st)
            if pb is not None and pb[1] is not None:
                # freeze the offset in a ghost variable so later cursor moves do not move the pointer
                g = 'off:%d' % vid
                self.vname[g] = name + '-' + str(pb[0][2])
                self.kill_var(st, g)
                off = pb[1]
                if off.x == Z and off.y == Z:
                    base = pb[0]
                    if base[0] == 'heap':
                        base = ('heap', vid, name)
                        for x in walk(rhs):
                            if x.get('k') == 'call' and x.get('cname') in ('Malloc', 'malloc'):
                                self.set_size(st, base, self.lin(x['args'][0], st))
                    st['ptr'][vid] = (base, Lin(Z, Z, off.c))
                    return
                elif off.y == Z:
                    st['z'].assign(g, off.x, off.c)
                else:
                    st['z'].forget(g)
                    self.constrain(st, Lin(g, Z, 0), '==', off)
                st['ptr'][vid] = (pb[0], Lin(g, Z, 0))
            else:
                st['ptr'].pop(vid, None)
            return
        l = self.lin(rhs, st)
        # call results with conditional facts
        r = strip_expect(rhs)
        self.kill_var(st, n)
        if typ.replace('const ', '').strip() in ('bool', '_Bool') and r is not None and \
                ((r.get('k') == 'bin' and r.get('op') in ('<', '<=', '>', '>=', '==', '!=', '&&', '||')) or (r.get('k') == 'un' and r.get('op') == '!')) and \
                not any(x.get('k') in ('call', 'ctor') or (x.get('k') == 'bin' and x.get('op') in ('=', '+=', '-=')) or (x.get('k') == 'un' and x.get('op') in ('++', '--')) for x in walk(r)):
            vs_ = set(self.v(x) for x in walk(r) if x.get('k') == 'ref' and x.get('dk') in ('local', 'param'))
            if n not in vs_:
                if not hasattr(self, '_bdef_vars'):
                    self._bdef_vars = {}
                self._bdef_vars[id(r)] = vs_
                st['bdefs'] = dict(st.get('bdefs', {}))
                st['bdefs'][n] = r
        if r is not None and r.get('k') == 'call' and id(r) in st.get('ret_ub', {}):
            ub = st['ret_ub'].pop(id(r))
            if ub is not None:
                st['ub'] = dict(st.get('ub', {}))
                st['ub'][n] = ub
            st['z'].add(Z, n, 0)
            return
        if r is not None and r.get('k') == 'call' and ('call', id(r)) in st['cf']:
            st['cf'][n] = st['cf'].pop(('call', id(r)))
            rv = st.get('retlin', {}).pop(id(r), None)
            if rv is not None:
                for (op, other) in rv:
                    self.constrain(st, Lin(n, Z, 0), op, other)
            return
        if l is not None:
            if l.x == Z and l.y == Z:
                st['z'].assign(n, Z, l.c)
            elif l.y == Z and l.x != n:
                st['z'].assign(n, l.x, l.c)
            elif l.x != Z and l.y != Z and n not in (l.x, l.y):
                # a difference of two variables is not a zone fact about n: remember it symbolically over frozen copies
                gx, gy = 'fz:%d:x' % vid, 'fz:%d:y' % vid
                names = []
                for g, src in ((gx, l.x), (gy, l.y)):
                    if not src.startswith('v'):
                        names.append(src)     # ghosts (frozen offsets, old cursors, sizes) never change
                        continue
                    self.kill_var(st, g)
                    self.vname[g] = self.vname.get(src, src) + "'"
                    st['z'].assign(g, src, 0)
                    if not hasattr(self, 'ghost_src'):
                        self.ghost_src = {}
                    self.ghost_src[g] = src
                    names.append(g)
                st.setdefault('defs', {})
                st['defs'] = dict(st['defs'])
                st['defs'][n] = Lin(names[0], names[1], l.c)
                # what a zone can keep: bounds of n from the bounds of x - y
                up = st['z'].get(l.x, l.y)
                lo = st['z'].get(l.y, l.x)
                if up != INF:
                    st['z'].add(n, Z, up + l.c)
                if lo != INF:
                    st['z'].add(Z, n, lo - l.c)
            else:
                self.constrain(st, Lin(n, Z, 0), '==', l)
        elif self.lin_plus_range(rhs, st, bid, idx) is not None:
            base, lo, hi = self.lin_plus_range(rhs, st, bid, idx)
            if lo != -INF:
                self.constrain(st, Lin(n, Z, 0), '>=', lin_add(base, Lin(Z, Z, lo)))
            if hi != INF:
                self.constrain(st, Lin(n, Z, 0), '<=', lin_add(base, Lin(Z, Z, hi)))
        else:
            if self.iv is not None:
                stt = self.iv.at(bid, idx)
                if stt is not None:
                    r2 = self.iv.ev(rhs, dict(stt))
                    if r2[0] != -INF:
                        st['z'].add(Z, n, -r2[0])
                    if r2[1] != INF:
                        st['z'].add(n, Z, r2[1])
        tr = _unsigned(typ)
        if tr:
            st['z'].add(Z, n, 0)

    # -- calls
    def call(self, e, st, bid, idx):
        n = e.get('cname')
        args = e.get('args', [])
        if n == '__builtin_expect':
            return self.reads(args[0], st, bid, idx)
        hook = self.hooks.get(n)
        if hook is not None and hook(self, e, st, bid, idx):
            return
        for a in args:
            self.reads(a, st, bid, idx)
        if e.get('obj') is not None:
            self.reads(e['obj'], st, bid, idx)
        if n in ('memcpy', 'memmove') and len(args) == 3:
            ln = self.lin(args[2], st)
            src = self.ptr_of(args[1], st)
            dst = self.ptr_of(args[0], st)
            # the length must be non-negative as a mathematical integer (no size_t wrap)
            ok_len = ln is not None and self.entails(st, ln, '>=', Lin())
            if src is not None and ln is not None:
                self.need_range(st, src, ln, e, 'memcpy source', ok_len)
            if dst is not None and ln is not None:
                self.need_range(st, dst, ln, e, 'memcpy destination', ok_len)
            return
        if n in ('memcmp',) and len(args) == 3:
            ln = self.lin(args[2], st)
            for a, w in ((args[0], 'memcmp operand 1'), (args[1], 'memcmp operand 2')):
                p = self.ptr_of(a, st)
                if p is not None and ln is not None:
                    self.need_range(st, p, ln, e, w, self.entails(st, ln, '>=', Lin()))
            return
        # readers with a fixed extent relative to a pointer argument
        ext = self.summaries.get(('extent', e.get('cid')))
        if ext:
            for ai, w in ext.items():
                if ai < len(args):
                    p = self.ptr_of(args[ai], st)
                    if p is not None:
                        self.need_read(st, p[0], p[1], w, e, '%s reads %d bytes' % (n, w))
        # family callees taking (data, pos&, len)
        sm = self.summaries.get(('cursor', e.get('cid')))
        if sm is not None:
            self.apply_cursor_summary(e, sm, st, bid, idx)
            return
        # unknown callee: by-reference integer arguments are clobbered
        g = self.facts.by_id.get(e.get('cid'))
        for ai, a in enumerate(args):
            if a.get('k') == 'ref' and a.get('dk') in ('local', 'param'):
                byref = True
                if g is not None and ai < len(g.params):
                    pt = g.params[ai]['t']
                    byref = '&' in pt and not pt.strip().startswith('const')
                elif g is None:
                    byref = False if e.get('builtin') else ('*' not in a.get('t', ''))
                    byref = byref and not e.get('callee', '').startswith('std::') and not e.get('callee', '').startswith('_mm')
                if byref:
                    nn = self.v(a)
                    if nn is not None:
                        self.kill_var(st, nn)
                        if _unsigned(a.get('t', '')):
                            st['z'].add(Z, nn, 0)
                    if a.get('id') in st['ptr']:
                        del st['ptr'][a['id']]

    def unfreeze(self, st, l):
        """a frozen copy that still equals the variable it was taken from stands for that variable"""
        if l is None:
            return l
        gs = getattr(self, 'ghost_src', {})
        x, y = l.x, l.y
        for which in ('x', 'y'):
            g = x if which == 'x' else y
            src = gs.get(g)
            if src is not None and st['z'].entails(g, src, 0) and st['z'].entails(src, g, 0):
                if which == 'x':
                    x = src
                else:
                    y = src
        return Lin(x, y, l.c)

    def need_range(self, st, p, ln, e, what, ok_len):
        base, off = p
        ln = self.unfreeze(st, ln)
        loc = locline(e.get('loc', '?'))
        if off is None:
            self.obligations.append((what, show(e)[:90], loc, False, 'offset not linear'))
            return
        end = lin_add(off, ln)
        kind = base[0]
        lo_ok = self.entails(st, off, '>=', Lin())
        if kind in ('param', 'sv') and self.is_buffer(base):
            L = self.len_lin(base)
            hi_ok = end is not None and self.entails(st, end, '<=', L)
            self.obligations.append((what, show(e)[:90], loc, bool(lo_ok and hi_ok and ok_len),
                                     'need 0 <= %s, length %s >= 0 and %s <= %s ; known: %s' % (self.pp(off), self.pp(ln), self.pp(end), self.pp(L), self.ppz(st['z']))))
        elif kind == 'array':
            size = self.arrays.get(base[1])
            hi_ok = end is not None and self.entails(st, end, '<=', Lin(Z, Z, size))
            self.obligations.append((what, show(e)[:90], loc, bool(lo_ok and hi_ok and ok_len),
                                     'local array %s[%d]: need length %s >= 0 and %s <= %d ; known: %s' % (base[2], size, self.pp(ln), self.pp(end), size, self.ppz(st['z']))))
        elif self.size_of(st, base) is not None:
            L = self.size_of(st, base)
            hi_ok = end is not None and self.entails(st, end, '<=', L)
            self.obligations.append((what, show(e)[:90], loc, bool(lo_ok and hi_ok and ok_len),
                                     'private buffer %s: need %s <= %s ; known: %s' % (base[2], self.pp(end), self.pp(L), self.ppz(st['z']))))

    def apply_cursor_summary(self, e, sm, st, bid, idx):
        """sm: dict(params=(data_i, pos_i, len_i), pre=[(x,y,c)], post={retclass: [(x,y,c)]}) over names pos,pos0,len"""
        args = e.get('args', [])
        di, pi, li = sm['params']
        posn = self.v(args[pi]) if pi is not None else None
        lenl = self.lin(args[li], st) if li is not None else None
        dptr = self.ptr_of(args[di], st) if di is not None else None
        ok_buf = dptr is not None and self.is_buffer(dptr[0]) and dptr[1] is not None and self.entails(st, dptr[1], '<=', Lin()) and self.entails(st, dptr[1], '>=', Lin())
        samelen = lenl is not None and lenl.x == self.roles['len'] and lenl.y == Z and lenl.c == 0
        loc = locline(e['loc'])
        if not (ok_buf and samelen and posn is not None):
            self.call_pre.append((e.get('cname'), loc, False, 'the callee must receive this function\'s own (buffer, cursor, limit) triple: %s' % show(e)[:80]))
            if posn is not None:
                self.kill_var(st, posn)
            return
        m = {'pos': posn, 'len': self.roles['len'], 'Z': Z}
        for (x, y, c, why) in sm.get('pre', []):
            ok = st['z'].entails(m[x], m[y], c)
            self.call_pre.append((e.get('cname'), loc, bool(ok), 'precondition %s of %s ; known: %s' % (why, e.get('cname'), self.ppz(st['z']))))
        # the stronger post-condition is available when the (optional) entry condition pos <= len holds here
        if 'strong' in sm and st['z'].entails(posn, self.roles['len'], 0):
            sm = dict(sm, post=sm['strong'])
        # ghost for the old cursor
        g = 'old:%d' % id(e)
        self.vname[g] = 'pos@' + loc.split(':')[-1]
        st['z'].assign(g, posn, 0)
        self.kill_var(st, posn)
        m['pos0'] = g
        st['z'].add(Z, posn, 0)
        outs = []
        cf = {}
        for rc, cons in sm['post'].items():
            z2 = st['z'].copy()
            for (x, y, c) in cons:
                z2.add(m[x], m[y], c)
            outs.append(z2)
            cf[rc] = [(m[x], m[y], c) for (x, y, c) in cons]
        if outs:
            z = outs[0]
            for o in outs[1:]:
                z = z.join(o)
            st['z'] = z
        st['z'].forget(g) if False else None
        st['cf'][('call', id(e))] = cf
        rl = sm.get('retlin')
        if rl:
            st.setdefault('retlin', {})[id(e)] = [(op, Lin(m[x], m[y], c)) for (op, x, y, c) in rl]

    # -- branch refinement
    def refine(self, cond, sense, st):
        c = strip_expect(cond)
        if c is None:
            return st
        while c.get('k') == 'un' and c['op'] == '!':
            sense = not sense
            c = strip_expect(c['e'])
        k = c.get('k')
        if k == 'ref' and c.get('dk') in ('local', 'param'):
            bd = st.get('bdefs', {}).get(self.v(c))
            if bd is not None:
                return self.refine(bd, sense, st)       # a bool local that names a condition: the condition itself
        if k == 'bin' and c['op'] in ('&&', '||'):
            conj = (c['op'] == '&&') == sense
            if conj:
                a = self.refine(c['l'], sense, st)
                return self.refine(c['r'], sense, a) if a is not None else None
            a = self.refine(c['l'], sense, self.copy_state(st))
            b = self.refine(c['r'], sense, self.copy_state(st))
            if a is None:
                return b
            if b is None:
                return a
            return self.join_state(a, b)
        if k == 'bin' and c['op'] in ('<', '<=', '>', '>=', '==', '!='):
            op = c['op']
            if not sense:
                op = {'<': '>=', '<=': '>', '>': '<=', '>=': '<', '==': '!=', '!=': '=='}[op]
            a, b = self.lin(c['l'], st), self.lin(c['r'], st)
            if a is None or b is None:
                pa, pb = self.ptr_of(c['l'], st), self.ptr_of(c['r'], st)
                if pa is not None and pb is not None and pa[0] == pb[0]:
                    a, b = pa[1], pb[1]
                elif pa is not None and pb is not None and self.is_buffer(pa[0]) and self.is_buffer(pb[0]):
                    a, b = pa[1], pb[1]
            # conditional facts of a variable compared with zero
            for (x, y) in ((c['l'], c['r']), (c['r'], c['l'])):
                n = self.v(x)
                cv = cval(y)
                xs = strip_expect(x)
                if n is None and xs is not None and xs.get('k') == 'call' and ('call', id(xs)) in st['cf']:
                    n = ('call', id(xs))
                if n is not None and cv is not None and n in st['cf']:
                    self.apply_cf(st, n, op if x is c['l'] else {'<': '>', '>': '<', '<=': '>=', '>=': '<='}.get(op, op), cv)
            if op == '!=':
                # x != c where bounds touch
                if a is not None and b is not None:
                    d = lin_add(a, lin_neg(b))
                    if d is not None:
                        z = st['z']
                        if z.get(d.y, d.x) <= d.c and False:
                            pass
                        # x - y + c != 0 ; if known x - y + c >= 0 then >= 1
                        if z.entails(d.y, d.x, d.c):
                            z.add(d.y, d.x, d.c - 1)
                        elif z.entails(d.x, d.y, -d.c):
                            z.add(d.x, d.y, -d.c - 1)
                return None if st['z'].bottom else st
            self.constrain(st, a, op, b)
            return None if st['z'].bottom else st
        if k == 'call' and ('call', id(c)) in st['cf']:
            cf = st['cf'][('call', id(c))]
            self.apply_cf_class(st, cf, 'nonzero' if sense else 'zero')
            return None if st['z'].bottom else st
        if k == 'call':
            hook = self.hooks.get('refine:' + str(c.get('cname')))
            if hook:
                hook(self, c, sense, st)
            return None if st['z'].bottom else st
        if k == 'ref':
            n = self.v(c)
            if n is not None:
                if n in st['cf']:
                    self.apply_cf_class(st, st['cf'][n], 'nonzero' if sense else 'zero')
                if sense:
                    if st['z'].entails(Z, n, 0):
                        st['z'].add(Z, n, -1)
                else:
                    st['z'].add(n, Z, 0)
                    st['z'].add(Z, n, 0)
            return None if st['z'].bottom else st
        return st

    def apply_cf(self, st, n, op, cv):
        cf = st['cf'][n]
        classes = set()
        for rc in cf:
            # which return classes are compatible with  n op cv ?
            ok = True
            if rc == 'zero':
                ok = {'==': cv == 0, '!=': cv != 0, '<': 0 < cv, '<=': 0 <= cv, '>': 0 > cv, '>=': 0 >= cv}[op]
            elif rc == 'nonzero':
                ok = not (op == '==' and cv == 0)
            elif rc == 'neg':
                ok = not ((op in ('>=',) and cv >= 0) or (op == '>' and cv >= -1) or (op == '==' and cv >= 0))
            elif rc == 'nonneg':
                ok = not ((op == '<' and cv <= 0) or (op == '<=' and cv < 0) or (op == '==' and cv < 0))
            if ok:
                classes.add(rc)
        self.apply_cf_set(st, cf, classes)

    def apply_cf_class(self, st, cf, which):
        classes = set()
        for rc in cf:
            if which == 'zero' and rc in ('zero', 'any'):
                classes.add(rc)
            if which == 'nonzero' and rc in ('nonzero', 'any', 'neg'):
                classes.add(rc)
            if which == 'nonzero' and rc == 'nonneg':
                classes.add(rc)
            if which == 'zero' and rc == 'nonneg':
                classes.add(rc)
        self.apply_cf_set(st, cf, classes)

    def apply_cf_set(self, st, cf, classes):
        if not classes:
            st['z'].bottom = True
            return
        zs = []
        for rc in classes:
            z2 = st['z'].copy()
            for (x, y, c) in cf[rc]:
                z2.add(x, y, c)
            zs.append(z2)
        z = zs[0]
        for o in zs[1:]:
            z = z.join(o)
        st['z'] = z

    # -- driver: states are partitioned by pointer provenance (which object each tracked pointer points into)
    def sig(self, st):
        return tuple(sorted((k, v[0][:2]) for k, v in st['ptr'].items()))

    def run(self, entry_state):
        fn = self.fn
        heads = _loop_heads(fn)
        IN = {fn.entry: {self.sig(entry_state): entry_state}}
        visits = {}
        work = [fn.entry]
        while work:
            b = work.pop()
            visits[b] = visits.get(b, 0) + 1
            if visits[b] > 300:
                raise AnalysisBroken('zone analysis of %s does not converge' % fn.qn)
            self.flow_block(b, IN, work, heads, visits, record=False)
        # recording pass with the fixpoint
        self.obligations = []
        self.call_pre = []
        self.returns = []
        for b in sorted(IN, reverse=True):
            self.flow_block(b, IN, None, heads, visits, record=True)
        self.IN = {b: self.merge_all(d) for b, d in IN.items()}
        return self

    def merge_all(self, d):
        sts = list(d.values())
        out = sts[0]
        for o in sts[1:]:
            out = self.join_state(out, o)
        return out

    def flow_block(self, b, IN, work, heads, visits, record):
        for sg in list(IN[b].keys()):
            self.flow_one(b, IN[b][sg], IN, work, heads, visits, record)

    def flow_one(self, b, st_in, IN, work, heads, visits, record):
        fn = self.fn
        st = self.copy_state(st_in)
        if st['z'].bottom:
            return
        B = fn.blocks[b]
        save_ob, save_cp = self.obligations, self.call_pre
        if not record:
            self.obligations, self.call_pre = [], []
        for i, s in enumerate(B['stmts']):
            s_ = strip(s)
            self.reads(s_, st, b, i)
            if s_ is not None and s_.get('k') == 'ret' and record:
                self.returns.append((self.ret_class(s_, st), st['z'].copy(), s_, self.copy_state(st)))
            if st['z'].bottom:
                break
        t = B.get('term')
        cond = t.get('cond') if t else None
        if cond is not None and not st['z'].bottom:
            self.reads(cond, st, b, 'cond')
        if not record:
            self.obligations, self.call_pre = save_ob, save_cp
        if work is None or st['z'].bottom:
            return
        for sx, sense in fn.succ_edges(b):
            if sx is None:
                continue
            out = self.copy_state(st)
            if cond is not None and sense in (True, False):
                out = self.refine(cond, sense, out)
                if out is None or out['z'].bottom:
                    continue
            elif cond is not None and isinstance(sense, tuple) and sense[1] not in (None, 'default'):
                n = self.v(cond)
                if n is not None:
                    out['z'].add(n, Z, int(sense[1]))
                    out['z'].add(Z, n, -int(sense[1]))
                    if out['z'].bottom:
                        continue
                    if n in out['cf']:
                        self.apply_cf(out, n, '==', int(sense[1]))
                        if out['z'].bottom:
                            continue
            d = IN.setdefault(sx, {})
            sg = self.sig(out)
            if sg not in d and len(d) >= 6:
                # too many partitions: fold everything into one
                merged = self.merge_all(d)
                d.clear()
                d[self.sig(merged)] = merged
                sg = self.sig(merged) if sg not in d else sg
                if sg not in d:
                    out = self.join_state(merged, out)
                    sg = self.sig(out)
                    d.clear()
            if sg in d:
                old = d[sg]
                j = self.join_state(old, out)
                if sx in heads and visits.get(sx, 0) >= 3:
                    j['z'] = old['z'].widen(j['z'])
                if j['z'].equal(old['z']) and j['ptr'] == old['ptr'] and j['cf'] == old['cf']:
                    continue
                d[self.sig(j)] = j
                if self.sig(j) != sg:
                    del d[sg]
            else:
                d[sg] = out
            if sx not in work:
                work.append(sx)

    def ret_class(self, rs, st):
        v = rs.get('e')
        if v is None:
            return 'void'
        c = cval(v)
        if c is not None:
            if c == 0:
                return 'zero'
            return 'neg' if c < 0 else 'nonzero'
        sv = strip_expect(v)
        n = self.v(sv)
        if n is not None:
            if st['z'].entails(Z, n, 0):
                return 'nonneg:' + n
            if st['z'].entails(n, Z, -1):
                return 'neg'
        if sv.get('k') == 'call' and ('call', id(sv)) in st['cf']:
            return 'forward'
        if sv.get('k') == 'un' and sv['op'] == '-':
            return 'neg?'
        return 'any'


def _unsigned(t):
    t = t.replace('const ', '').replace('&', '').strip()
    return t in ('size_t', 'uint64_t', 'unsigned long', 'uint32_t', 'unsigned int', 'uint8_t', 'unsigned char', 'uint16_t')


def _loop_heads(fn):
    heads = set()
    color = {fn.entry: 1}
    stack = [(fn.entry, iter([x for x in fn.blocks[fn.entry]['succs'] if x is not None]))]
    while stack:
        node, it = stack[-1]
        nxt = next(it, None)
        if nxt is None:
            color[node] = 2
            stack.pop()
            continue
        if color.get(nxt) == 1:
            heads.add(nxt)
        elif nxt not in color:
            color[nxt] = 1
            stack.append((nxt, iter([x for x in fn.blocks[nxt]['succs'] if x is not None])))
    return heads
