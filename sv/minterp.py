"""A small interpreter for integer-only functions of the fact IR (clang CFG +
expression trees).  It exists to *decide finite questions about guards and
small pure helpers* - "for which of these inputs is this statement reached",
"is the result >= the request for every state on this grid" - where the answer
is piecewise constant in the constants of the code and the grid contains every
break point.  It is not used to test behaviour on sampled inputs.

Anything it does not model raises Unsupported (callers turn that into
"analysis broken", exit 2).
"""
import os, sys
from .core import strip, cval, show

M64 = 2 ** 64 - 1


class Unsupported(Exception):
    pass


class UndefinedBehaviour(Exception):
    """the evaluated expression has undefined behaviour for this input (signed overflow, shift out of range ...)"""
    pass


def width(t):
    t = (t or '').replace('const ', '').replace('volatile ', '').strip()
    if t in ('_Bool', 'bool'):
        return 1, False
    if '*' in t or '&' in t:
        return 64, False
    if t.endswith('pointer') or t.endswith('::iterator') or t.endswith('::const_iterator'):
        return 64, False          # member typedefs of containers / views
    if t.endswith('size_type'):
        return 64, False
    if t.endswith('difference_type'):
        return 64, True
    import re as _re
    mv = _re.match(r'^(?:const )?__v(\d+)(q|h|s|d)[iuf]', t)
    if mv:
        return int(mv.group(1)) * {'q': 8, 'h': 16, 's': 32, 'd': 64}[mv.group(2)], False
    if 'm128' in t:
        return 128, False
    if 'm256' in t:
        return 256, False
    if 'intptr_t' in t or t.endswith('ptrdiff_t') or t.endswith('size_t'):
        return 64, not (t.startswith('u') or 'uintptr' in t or t.endswith('size_t') and not t.endswith('ssize_t'))
    if '128' in t and 'int' in t:
        return 128, not ('uint' in t or 'unsigned' in t)
    signed = not (t.startswith('u') or 'unsigned' in t or t in ('size_t',))
    if '64' in t or 'long' in t or t in ('size_t', 'ssize_t', 'ptrdiff_t'):
        return 64, signed
    if '16' in t or 'short' in t:
        return 16, signed
    if '8' in t or 'char' in t:
        return 8, signed
    return 32, signed


def wrap(v, t):
    if not isinstance(v, int):
        return v        # an opaque model object (pointer / struct) handed through by a call hook
    w, s = width(t)
    if w == 1:
        return 1 if v else 0
    v &= (1 << w) - 1
    if s and v >> (w - 1):
        v -= 1 << w
    return v


BUILTINS = {
    '__builtin_clzll': lambda a: (64 - a[0].bit_length()) if a[0] > 0 else _undef('clzll(0)'),
    '__builtin_clzl': lambda a: (64 - a[0].bit_length()) if a[0] > 0 else _undef('clzl(0)'),
    '__builtin_clz': lambda a: (32 - a[0].bit_length()) if a[0] > 0 else _undef('clz(0)'),
    '__builtin_ctzll': lambda a: ((a[0] & -a[0]).bit_length() - 1) if a[0] > 0 else _undef('ctzll(0)'),
    '__builtin_ctzl': lambda a: ((a[0] & -a[0]).bit_length() - 1) if a[0] > 0 else _undef('ctzl(0)'),
    '__builtin_ctz': lambda a: ((a[0] & -a[0]).bit_length() - 1) if a[0] > 0 else _undef('ctz(0)'),
    '__builtin_expect': lambda a: a[0],
    '__builtin_popcountll': lambda a: bin(a[0] & M64).count('1'),
    '__builtin_popcountl': lambda a: bin(a[0] & M64).count('1'),
    '__builtin_popcount': lambda a: bin(a[0] & 0xFFFFFFFF).count('1'),
    '_blsr_u64': lambda a: a[0] & (a[0] - 1) & M64,
    '__blsr_u64': lambda a: a[0] & (a[0] - 1) & M64,
    '__tzcnt_u64': lambda a: ((a[0] & -a[0]).bit_length() - 1) if a[0] else 64,
    '__lzcnt64': lambda a: 64 - a[0].bit_length(),
    '_lzcnt_u64_': lambda a: 64 - a[0].bit_length(),
    '_tzcnt_u64': lambda a: ((a[0] & -a[0]).bit_length() - 1) if a[0] else 64,
    '_lzcnt_u64': lambda a: 64 - a[0].bit_length(),
    'max': lambda a: max(a[0], a[1]),
    'min': lambda a: min(a[0], a[1]),
}



# ---- SSE integer intrinsics (Intel lane semantics); vectors are Python ints ----

def _lanes(v, w, n=128):
    m = (1 << w) - 1
    return [(v >> (i * w)) & m for i in range(n // w)]


def _pack(ls, w):
    v = 0
    m = (1 << w) - 1
    for i, x in enumerate(ls):
        v |= (x & m) << (i * w)
    return v


def _s(x, w):
    return x - (1 << w) if x >> (w - 1) else x


def _sat_s16(x):
    return max(-32768, min(32767, x))


def _sat_u16(x):
    return max(0, min(65535, x))


def _clmul(x, y):
    r = 0
    i = 0
    while y >> i:
        if (y >> i) & 1:
            r ^= x << i
        i += 1
    return r & ((1 << 128) - 1)


SSE = {
    '_mm_setzero_si128': lambda a: 0,
    '__builtin_ia32_pclmulqdq128': lambda a: _clmul((a[0] >> (64 if a[2] & 1 else 0)) & ((1 << 64) - 1), (a[1] >> (64 if a[2] & 16 else 0)) & ((1 << 64) - 1)),
    '_mm_set_epi64x': lambda a: ((a[0] & ((1 << 64) - 1)) << 64) | (a[1] & ((1 << 64) - 1)),
    '_mm_clmulepi64_si128': lambda a: _clmul((a[0] >> (64 if a[2] & 1 else 0)) & ((1 << 64) - 1), (a[1] >> (64 if a[2] & 16 else 0)) & ((1 << 64) - 1)),
    '_mm_set1_epi8': lambda a: _pack([a[0] & 0xFF] * 16, 8),
    '_mm_set1_epi16': lambda a: _pack([a[0] & 0xFFFF] * 8, 16),
    '_mm_set1_epi32': lambda a: _pack([a[0] & 0xFFFFFFFF] * 4, 32),
    '_mm_set1_epi64x': lambda a: _pack([a[0] & M64] * 2, 64),
    '_mm_set_epi16': lambda a: _pack(list(reversed([x & 0xFFFF for x in a])), 16),
    '_mm_set_epi32': lambda a: _pack(list(reversed([x & 0xFFFFFFFF for x in a])), 32),
    '_mm_setr_epi8': lambda a: _pack([x & 0xFF for x in a], 8),
    '_mm_sub_epi8': lambda a: _pack([x - y for x, y in zip(_lanes(a[0], 8), _lanes(a[1], 8))], 8),
    '_mm_add_epi8': lambda a: _pack([x + y for x, y in zip(_lanes(a[0], 8), _lanes(a[1], 8))], 8),
    '_mm_cmpgt_epi8': lambda a: _pack([0xFF if _s(x, 8) > _s(y, 8) else 0 for x, y in zip(_lanes(a[0], 8), _lanes(a[1], 8))], 8),
    '_mm_cmplt_epi8': lambda a: _pack([0xFF if _s(x, 8) < _s(y, 8) else 0 for x, y in zip(_lanes(a[0], 8), _lanes(a[1], 8))], 8),
    '_mm_cmpeq_epi8': lambda a: _pack([0xFF if x == y else 0 for x, y in zip(_lanes(a[0], 8), _lanes(a[1], 8))], 8),
    '_mm_or_si128': lambda a: a[0] | a[1],
    '_mm_and_si128': lambda a: a[0] & a[1],
    '_mm_xor_si128': lambda a: a[0] ^ a[1],
    '_mm_andnot_si128': lambda a: (~a[0]) & a[1] & ((1 << 128) - 1),
    '_mm_movemask_epi8': lambda a: sum(((x >> 7) & 1) << i for i, x in enumerate(_lanes(a[0], 8))),
    '_mm_slli_si128': lambda a: (a[0] << (8 * a[1])) & ((1 << 128) - 1) if a[1] < 16 else 0,
    '_mm_srli_si128': lambda a: (a[0] >> (8 * a[1])) if a[1] < 16 else 0,
    '_mm_maddubs_epi16': lambda a: _pack([_sat_s16(x0 * _s(y0, 8) + x1 * _s(y1, 8)) for (x0, x1), (y0, y1) in
                                          zip(zip(*[iter(_lanes(a[0], 8))] * 2), zip(*[iter(_lanes(a[1], 8))] * 2))], 16),
    '_mm_madd_epi16': lambda a: _pack([_s(x0, 16) * _s(y0, 16) + _s(x1, 16) * _s(y1, 16) for (x0, x1), (y0, y1) in
                                       zip(zip(*[iter(_lanes(a[0], 16))] * 2), zip(*[iter(_lanes(a[1], 16))] * 2))], 32),
    '_mm_packus_epi32': lambda a: _pack([_sat_u16(_s(x, 32)) for x in _lanes(a[0], 32)] + [_sat_u16(_s(x, 32)) for x in _lanes(a[1], 32)], 16),
    '_mm_extract_epi8': lambda a: _lanes(a[0], 8)[a[1] & 15],
    '_mm_extract_epi16': lambda a: _lanes(a[0], 16)[a[1] & 7],
    '_mm_extract_epi32': lambda a: _s(_lanes(a[0], 32)[a[1] & 3], 32),
    '_mm_extract_epi64': lambda a: _s(_lanes(a[0], 64)[a[1] & 1], 64),
    '__builtin_ia32_pslldqi128_byteshift': lambda a: (a[0] << (8 * a[1])) & ((1 << 128) - 1) if a[1] < 16 else 0,
    '__builtin_ia32_psrldqi128_byteshift': lambda a: (a[0] >> (8 * a[1])) if a[1] < 16 else 0,
    '__builtin_ia32_vec_ext_v16qi': lambda a: _s(_lanes(a[0], 8)[a[1] & 15], 8),
    '__builtin_ia32_vec_ext_v8hi': lambda a: _s(_lanes(a[0], 16)[a[1] & 7], 16),
    '__builtin_ia32_vec_ext_v4si': lambda a: _s(_lanes(a[0], 32)[a[1] & 3], 32),
    '__builtin_ia32_vec_ext_v2di': lambda a: _s(_lanes(a[0], 64)[a[1] & 1], 64),
    '_mm_cvtsi128_si32': lambda a: _s(a[0] & 0xFFFFFFFF, 32),
    '_mm_cvtsi128_si64': lambda a: _s(a[0] & M64, 64),
}


def _undef(what):
    raise UndefinedBehaviour(what)


def _signed_check(v, t, what):
    if not isinstance(v, int):
        return          # arithmetic on a model object (iterator / pointer)
    w, sg = width(t)
    if sg and w >= 32 and not (-(1 << (w - 1)) <= v < (1 << (w - 1))):
        raise UndefinedBehaviour('signed overflow in %s (%d does not fit %s)' % (what, v, t))


def member_path(e):
    """'n.u64' for this->(anonymous).n.(anonymous).u64 : dotted names of a member chain rooted at `this`"""
    names = []
    while e is not None and e.get('k') == 'member':
        if e.get('name'):
            names.append(e['name'])
        e = strip(e.get('base'))
    if e is None or e.get('k') != 'this' or not names:
        return None
    return '.'.join(reversed(names))


def _f2b(x):
    import struct as _st
    return _st.unpack('<Q', _st.pack('<d', float(x)))[0]


def _b2f(b):
    import struct as _st
    return _st.unpack('<d', _st.pack('<Q', b & ((1 << 64) - 1)))[0]


def _is_fp_type(t):
    t = (t or '').replace('const ', '')
    return t.strip().rstrip('&* ').strip() in ('double', 'float', 'long double')


class UnionVal:
    """a local union of 8-byte scalars (double / uint64_t punning): one bit pattern read through the accessed type"""
    def __init__(self):
        self.bits = 0

    def read(self, t):
        if _is_fp_type(t):
            return _b2f(self.bits)
        w, sg = width(t)
        v = self.bits & ((1 << w) - 1)
        if sg and v >> (w - 1):
            v -= 1 << w
        return v

    def write(self, t, v):
        self.bits = _f2b(v) if isinstance(v, float) else (v & ((1 << 64) - 1))

    def cast_to(self, t):
        return self


class MemberCell:
    """the address of a member of a local union"""
    def __init__(self, u, t):
        self.u, self.t = u, t

    def deref(self):
        return self.u.read(self.t)

    def set(self, v, as_t=None):
        self.u.write(as_t or self.t, v)

    def cast_to(self, t):
        return self


class LocalCell:
    """the address of a (pointer-typed) local variable: reads and writes go to the owning frame"""
    def __init__(self, env, vid, t):
        self.env, self.vid, self.t = env, vid, t

    def deref(self):
        if self.vid not in self.env:
            raise UndefinedBehaviour('read of an uninitialised local through its address')
        return self.env[self.vid]

    def set(self, v, as_t=None):
        if _is_fp_type(self.t) and isinstance(v, int):
            v = _b2f(v)              # an integer bit pattern stored through a cast pointer into a double
        elif not _is_fp_type(self.t) and isinstance(v, float):
            v = _f2b(v)
        self.env[self.vid] = v

    def cast_to(self, t):
        return self


class Interp:
    def __init__(self, fn, facts=None, call_hook=None, max_steps=2000):
        self.fn = fn
        self.facts = facts
        self.call_hook = call_hook
        self.max_steps = max_steps
        self.mem_stores = []
        self.memory = None        # optional {address: byte}; reads outside raise UndefinedBehaviour

    # ---- expressions
    def ev(self, e, env, members):
        e0 = e
        if e is None:
            raise Unsupported('empty expression')
        k = e.get('k')
        if k in ('paren',):
            return self.ev(e['e'], env, members)
        if k == 'sizeof' and e.get('cv') is not None:
            return int(e['cv'])
        if k == 'nullptr':
            return 0
        if k == 'new':
            pl = [self.ev(x, env, members) for x in (e.get('placement') or [])]
            init = e.get('init')
            iv = self.ev(init, env, members) if init is not None else None
            if self.call_hook is not None:
                r = self.call_hook(e, pl + [iv], env, members)
                if r is not None:
                    return r
            if pl and hasattr(pl[0], 'construct'):
                pl[0].construct(iv)
                return pl[0]
            if pl and hasattr(pl[0], 'deref') and hasattr(pl[0].deref(), 'construct'):
                pl[0].deref().construct(iv)
                return pl[0]
            raise Unsupported('new-expression %s' % show(e)[:50])
        if k == 'this':
            if '__this__' in env:
                return env['__this__']
            raise Unsupported('this')
        if k == 'lit':
            if e.get('cv') is None and e.get('null'):
                return 0
            return int(e['cv']) if e.get('cv') is not None else _undef('literal')
        if k == 'str':
            return bytes(e.get('bytes') or [])
        if k == 'flit':
            return float(e['v'])
        if k == 'initlist':
            vals = [self.ev(a, env, members) for a in (e.get('args') or e.get('inits') or [])]
            tn = (e.get('t') or '').replace('struct ', '').replace('const ', '').strip()
            if self.facts is not None:
                for c in self.facts.classes:
                    if c.get('name') == tn or c.get('qn') == tn:
                        fs = [f_['name'] for f_ in c.get('fields', [])]
                        if len(fs) == len(vals):
                            return dict(zip(fs, vals))
            return tuple(vals)
        if k == 'cast':
            if e.get('cv') is not None and strip(e) is not None and strip(e).get('k') not in ('ref', 'member'):
                return int(e['cv'])
            v = self.ev(e['e'], env, members)
            if isinstance(v, float):
                if e.get('ck') == 'FloatingToIntegral':
                    w_, sg_ = width(e.get('t'))
                    if v != v or not (-(1 << (w_ - 1)) if sg_ else 0) <= int(v) <= ((1 << (w_ - 1)) - 1 if sg_ else (1 << w_) - 1):
                        raise UndefinedBehaviour('conversion of %r to %s is out of range' % (v, e.get('t')))
                    return int(v)
                if e.get('ck') == 'FloatingToBoolean':
                    return 1 if v != 0.0 else 0
                if e.get('ck') == 'FloatingCast' and 'float' in (e.get('t') or '') and 'double' not in (e.get('t') or ''):
                    import struct as _st
                    return _st.unpack('<f', _st.pack('<f', v))[0]
                return v
            if isinstance(v, int) and e.get('ck') == 'IntegralToFloating':
                return float(v)
            if not isinstance(v, int):
                return v.cast_to(e.get('t')) if hasattr(v, 'cast_to') else v
            if e.get('ck') in ('LValueToRValue', 'NoOp'):
                return v
            if e.get('ck') == 'IntegralToBoolean':
                return 1 if v else 0
            return wrap(v, e.get('t'))
        if k == 'ref':
            if e.get('id') in env:
                return env[e['id']]
            if e.get('cv') is not None:
                return int(e['cv'])
            if e.get('dk') == 'global' and self.memory is not None and self.facts is not None and '[' in (e.get('t') or ''):
                a = self.global_address(e)
                if a is not None:
                    return a
            raise Unsupported('unbound variable %s' % e.get('name'))
        if k == 'member':
            b = strip(e.get('base'))
            if b is not None and b.get('k') == 'this':
                if e['name'] in members:
                    return members[e['name']]
                if hasattr(env.get('__this__'), 'get_member'):
                    th = env['__this__']
                    return th.get_member(e['name']) if e.get('name') else th
                raise Unsupported('unbound member %s' % e['name'])
            if b is not None and b.get('k') != 'this':
                root = b
                while root is not None and root.get('k') == 'member':
                    root = strip(root.get('base'))
                if root is not None:
                    try:
                        bv = self.ev(e['base'], env, members)
                    except Unsupported:
                        bv = None
                    if isinstance(bv, UnionVal):
                        return bv.read(e.get('t'))
                    if isinstance(bv, dict) and e.get('name') in bv:
                        return bv[e['name']]
                    if hasattr(bv, 'get_member') and e.get('name'):
                        return bv.get_member(e['name'])
                    if hasattr(bv, 'get_member') and not e.get('name'):
                        return bv               # anonymous union / struct level
            path = member_path(e)
            if path is not None:
                if path in members:
                    return members[path]
                if e.get('cv') is None:
                    raise Unsupported('unbound member %s' % path)
            if e.get('cv') is not None:
                return int(e['cv'])
            raise Unsupported('member of %s' % show(b))
        if k == 'un':
            op = e['op']
            if op in ('++', '--'):
                old = self.ev(e['e'], env, members)
                new = wrap(old + (1 if op == '++' else -1), e.get('t') or strip(e['e']).get('t'))
                self.store(e['e'], new, env, members)
                return old if e.get('post') else new
            if op == '&':
                inner0 = strip(e['e'])
                while inner0 is not None and inner0.get('k') == 'paren':
                    inner0 = strip(inner0.get('e'))
                if inner0 is not None and inner0.get('k') == 'sub':
                    try:
                        pb = self.ev(inner0['base'], env, members)
                    except Unsupported:
                        pb = None
                    if pb is not None and not isinstance(pb, int) and hasattr(pb, 'deref'):
                        return pb + self.ev(inner0['idx'], env, members)      # &p[i] == p + i for a model pointer
            if op == '&':
                in0 = strip(e['e'])
                if in0 is not None and in0.get('k') == 'ref' and in0.get('dk') in ('local', 'param') and _is_fp_type(in0.get('t')):
                    return LocalCell(env, in0['id'], in0.get('t'))
                if in0 is not None and in0.get('k') == 'member':
                    try:
                        bu_ = self.ev(in0['base'], env, members)
                    except Unsupported:
                        bu_ = None
                    if isinstance(bu_, UnionVal):
                        return MemberCell(bu_, in0.get('t'))
            if op == '&' and self.memory is not None:
                in0 = strip(e['e'])
                if in0 is not None and in0.get('k') == 'ref' and in0.get('dk') in ('local', 'param') and (in0.get('t') or '').rstrip().rstrip('&').rstrip().endswith('*') \
                        and (in0.get('id') not in env or isinstance(env.get(in0['id']), int)):
                    return LocalCell(env, in0['id'], in0.get('t'))      # the address of a pointer local (handed to a helper that advances it)
                if in0 is not None and in0.get('k') == 'ref' and in0.get('dk') == 'local' and '*' not in (in0.get('t') or '') and '[' not in (in0.get('t') or '') \
                        and not isinstance(env.get(in0.get('id')), (dict, tuple)) and (in0.get('id') not in env or isinstance(env.get(in0['id']), int)):
                    return ('addrof', in0['id'], in0.get('t'))       # the address of a scalar local: only mem* may use it
            if op == '&' and self.memory is not None:
                inner = strip(e['e'])
                if inner is not None and inner.get('k') == 'sub':
                    a0 = self.ev(inner['base'], env, members)
                    ix = self.ev(inner['idx'], env, members)
                    if isinstance(a0, int) and isinstance(ix, int):
                        ew, _ = width(inner.get('t'))
                        return a0 + ix * max(1, ew // 8)
            v = self.ev(e['e'], env, members)
            if op == '&' and not isinstance(v, int):
                return v                    # the address of a model object is the object
            if op == '*' and isinstance(v, (LocalCell, MemberCell)):
                r_ = v.deref()
                if isinstance(r_, float) and not _is_fp_type(e.get('t')):
                    return wrap(_f2b(r_), e.get('t'))
                if isinstance(r_, int) and _is_fp_type(e.get('t')):
                    return _b2f(r_)
                return r_
            if op == '*' and not isinstance(v, int):
                return v.deref() if hasattr(v, 'deref') else v
            if op == '*' and isinstance(v, int) and self.memory is not None:
                w_, sg_ = width(e.get('t'))
                val_ = self.load(v, max(1, w_ // 8))
                return wrap(val_, e.get('t'))
            if op == '!':
                return 0 if v else 1
            if op == '-':
                _signed_check(-v, e.get('t'), 'negation')
                return wrap(-v, e.get('t'))
            if op == '~':
                return wrap(~v, e.get('t'))
            if op == '+':
                return v
            raise Unsupported('unary ' + op)
        if k == 'cond':
            c = self.ev(e.get('c'), env, members)
            return self.ev(e['a'] if c else e['b'], env, members)
        if k == 'bin':
            op = e['op']
            if op == '&&':
                return 1 if (self.ev(e['l'], env, members) and self.ev(e['r'], env, members)) else 0
            if op == '||':
                return 1 if (self.ev(e['l'], env, members) or self.ev(e['r'], env, members)) else 0
            if op == ',':
                self.ev(e['l'], env, members)
                return self.ev(e['r'], env, members)
            if op == '=' or (op.endswith('=') and op not in ('==', '!=', '<=', '>=')):
                r = self.ev(e['r'], env, members)
                if op != '=':
                    l = self.ev(e['l'], env, members)
                    r = self.arith(op[:-1], l, r, e)
                t = strip(e['l']).get('t') if strip(e['l']) is not None else e.get('t')
                r = wrap(r, t)
                self.store(e['l'], r, env, members)
                return r
            l = self.ev(e['l'], env, members)
            r = self.ev(e['r'], env, members)
            if op in ('==', '!=', '<', '<=', '>', '>='):
                if isinstance(l, (int, float)) and isinstance(r, (int, float)) and (isinstance(l, float) or isinstance(r, float)):
                    return 1 if {'==': l == r, '!=': l != r, '<': l < r, '<=': l <= r, '>': l > r, '>=': l >= r}[op] else 0
                if not (isinstance(l, int) and isinstance(r, int)):
                    # model objects (pointers to structs): identity; a null pointer is the integer 0
                    same = l is r or (getattr(l, 'value_eq', False) and getattr(r, 'value_eq', False) and l == r) or \
                        (isinstance(l, tuple) and isinstance(r, tuple) and l == r)
                    if op == '==':
                        return 1 if same else 0
                    if op == '!=':
                        return 0 if same else 1
                    try:
                        return 1 if {'<': l < r, '<=': l <= r, '>': l > r, '>=': l >= r}[op] else 0
                    except TypeError:
                        raise Unsupported('ordering comparison of model objects')
                return 1 if {'==': l == r, '!=': l != r, '<': l < r, '<=': l <= r, '>': l > r, '>=': l >= r}[op] else 0
            res = self.arith(op, l, r, e)
            if op in ('+', '-', '*'):
                _signed_check(res, e.get('t'), op)
            return wrap(res, e.get('t'))
        if k == 'ctor':
            # a copy / move / conversion wrapper around one value (T x = T{f()} before C++17): the value itself; the
            # arguments are evaluated first so that call hooks see the calls inside
            args = [self.ev(a, env, members) for a in (e.get('args') or [])]
            if self.call_hook is not None:
                r = self.call_hook(e, args, env, members)
                if r is not None:
                    return r
            if len(args) == 1:
                return args[0]
            raise Unsupported('constructor %s with %d arguments' % (e.get('cname'), len(args)))
        if k == 'call':
            name = e.get('cname')
            args = []
            for a in (e.get('args') or []):
                try:
                    args.append(self.ev(a, env, members))
                except Unsupported:
                    a0_ = strip(a)
                    if a0_ is not None and a0_.get('k') == 'ref' and a0_.get('dk') == 'local' and a0_.get('id') not in env:
                        # an uninitialised local handed over by reference (out-parameter): the callee writes it first
                        args.append(0.0 if _is_fp_type(a0_.get('t')) else 0)
                    else:
                        raise
            if self.call_hook is not None:
                r = self.call_hook(e, args, env, members)
                if r is not None:
                    return r
            if name in ('abs', 'labs', 'llabs', '__builtin_abs', '__builtin_labs', '__builtin_llabs') and len(args) == 1:
                w, _ = width(e.get('t'))
                if args[0] == -(1 << (w - 1)):
                    _undef('%s(%d): the magnitude is not representable in %s' % (name, args[0], e.get('t')))
                return abs(args[0])
            if name in ('_mm_loadu_si128', '_mm_load_si128', '_mm_lddqu_si128') and self.memory is not None:
                return self.load(args[0], 16)
            if e.get('ccls') == 'std::numeric_limits' and name in ('max', 'min', 'lowest') and not args:
                w, sg = width(e.get('t'))
                if name == 'max':
                    return (1 << (w - 1)) - 1 if sg else (1 << w) - 1
                return -(1 << (w - 1)) if sg else 0
            if name in ('memcpy', 'memmove', '__builtin_memcpy', '__builtin_memmove') and self.memory is not None and len(args) == 3 \
                    and isinstance(args[0], tuple) and args[0] and args[0][0] == 'addrof' and isinstance(args[1], int) and isinstance(args[2], int):
                w_, _sgn0 = width(args[0][2])
                if args[2] != w_ // 8:
                    raise Unsupported('memcpy of %d bytes into a %d-byte local' % (args[2], w_ // 8))
                env[args[0][1]] = wrap(self.load(args[1], args[2]), args[0][2])
                return 0
            if name in ('memcpy', 'memmove', '__builtin_memcpy', '__builtin_memmove') and self.memory is not None and len(args) == 3 and all(isinstance(a, int) for a in args):
                dst, src, n_ = args
                data = [self.load(src + j, 1) for j in range(n_)]
                if name.endswith('memcpy') and n_ and not (dst + n_ <= src or src + n_ <= dst):
                    raise UndefinedBehaviour('memcpy of overlapping ranges')
                for j in range(n_):
                    self.write(dst + j, 1, data[j], ' (%s of %d bytes)' % (name, n_))
                return dst
            if name in ('memset', '__builtin_memset') and self.memory is not None and len(args) == 3 and all(isinstance(a, int) for a in args):
                dst, val_, n_ = args
                if n_ > (1 << 20):
                    raise UndefinedBehaviour('memset of %d bytes' % n_)
                for j in range(n_):
                    self.write(dst + j, 1, val_ & 0xff, ' (memset of %d bytes)' % n_)
                return dst
            if name in SSE:
                return SSE[name](args)
            if name in BUILTINS:
                return BUILTINS[name](args)
            g = self.facts.by_id.get(e.get('cid')) if self.facts is not None else None
            if g is not None and len(g.params) == len(args) and e.get('obj') is None:
                sub_ = Interp(g, self.facts, self.call_hook, self.max_steps)
                sub_.memory = self.memory
                sub_.mem_stores = self.mem_stores
                self._share(sub_)
                r_, env2_, _, _ = sub_.run({p['id']: a for p, a in zip(g.params, args)}, {})
                self._write_back(g, e, env2_, env, members)
                return r_
            if g is not None and len(g.params) == len(args) and e.get('obj') is not None and strip(e['obj']) is not None and strip(e['obj']).get('k') == 'this':
                # a method of the same object: it shares the member state
                sub = Interp(g, self.facts, self.call_hook, self.max_steps)
                sub.mem_stores = self.mem_stores
                sub.memory = self.memory
                self._share(sub)
                r, env2_, mem2, _ = sub.run({p['id']: a for p, a in zip(g.params, args)}, members)
                members.clear()
                members.update(mem2)
                self._write_back(g, e, env2_, env, members)
                return r
            raise Unsupported('call of %s' % name)
        if k == 'sub':
            # a constant global table: the element from its initialiser
            b_ = strip(e.get('base'))
            while b_ is not None and b_.get('k') == 'cast':
                b_ = strip(b_.get('e'))
            if b_ is not None and b_.get('k') == 'ref' and b_.get('dk') == 'global' and b_.get('id') not in env and self.facts is not None:
                for st_ in self.facts.statics:
                    if st_.get('id') == b_['id'] and st_.get('const') and isinstance(st_.get('value'), dict) and 'arr' in st_['value']:
                        arr_ = st_['value']['arr']
                        ix = self.ev(e.get('idx'), env, members)
                        if not isinstance(ix, int) or not 0 <= ix < len(arr_):
                            raise UndefinedBehaviour('index %s into %s[%d]' % (ix, st_['name'], len(arr_)))
                        el = arr_[ix]
                        if isinstance(el, (str, int)):
                            return int(el)
                        if isinstance(el, dict) and 'struct' in el:
                            # a row of a table of structs: fields by name (from the class facts); character arrays are mapped
                            # read-only into the byte memory and stand for their address
                            tn_ = (st_.get('t') or '').replace('const ', '').replace('struct ', '').split('[')[0].strip()
                            fields_ = None
                            for c_ in self.facts.classes:
                                if c_.get('name') == tn_ or (c_.get('qn') or '').endswith('::' + tn_) or c_.get('qn') == tn_:
                                    fields_ = [f_['name'] for f_ in c_.get('fields', [])]
                            if fields_ is None or len(fields_) != len(el['struct']):
                                raise Unsupported('row of struct table %s' % st_['name'])
                            row_ = {}
                            for fn_, v_ in zip(fields_, el['struct']):
                                if isinstance(v_, (str, int)):
                                    row_[fn_] = int(v_)
                                elif isinstance(v_, dict) and 'strbytes' in v_ and self.memory is not None:
                                    key_ = ('row', st_['id'], ix, fn_)
                                    if not hasattr(self, 'globals_at'):
                                        self.globals_at = {}
                                        self.readonly = getattr(self, 'readonly', [])
                                    if key_ not in self.globals_at:
                                        a_ = 0x48000000 + 0x40 * len([k for k in self.globals_at if isinstance(k, tuple)])
                                        for j_, b_ in enumerate(v_['strbytes']):
                                            self.memory[a_ + j_] = int(b_) & 0xff
                                        self.readonly.append((a_, a_ + len(v_['strbytes'])))
                                        self.globals_at[key_] = a_
                                    row_[fn_] = self.globals_at[key_]
                                else:
                                    raise Unsupported('field %s of struct table %s' % (fn_, st_['name']))
                            return row_
                        if isinstance(el, dict) and 'arr' in el:
                            return [int(x_) if isinstance(x_, (str, int)) else x_ for x_ in el['arr']]
                        if isinstance(el, list):
                            return [int(x_) if isinstance(x_, (str, int)) else x_ for x_ in el]
                        if isinstance(el, dict) and 'bits' in el and len(el['bits']) == 16:
                            import struct as _st
                            return _st.unpack('<d', _st.pack('<Q', int(el['bits'], 16)))[0]
                        raise Unsupported('element of table %s' % st_['name'])
            bv0 = None
            try:
                bv0 = self.ev(e['base'], env, members)
            except Unsupported:
                bv0 = None
            if isinstance(bv0, (tuple, list)) and not (bv0 and isinstance(bv0[0], str)):
                ix_ = self.ev(e.get('idx'), env, members)
                if not isinstance(ix_, int) or not 0 <= ix_ < len(bv0):
                    raise UndefinedBehaviour('index %s into a local array of %d elements' % (ix_, len(bv0)))
                return bv0[ix_]
            if isinstance(bv0, (bytes, bytearray)):
                ix_ = self.ev(e.get('idx'), env, members)
                if not isinstance(ix_, int) or not 0 <= ix_ <= len(bv0):
                    raise UndefinedBehaviour('index %s into a string literal of %d bytes' % (ix_, len(bv0)))
                return bv0[ix_] if ix_ < len(bv0) else 0          # the terminating NUL
            if bv0 is not None and not isinstance(bv0, int) and hasattr(bv0, 'deref'):
                return (bv0 + self.ev(e.get('idx'), env, members)).deref()
        if k == 'sub' and self.memory is not None:
            base = self.ev(e['base'], env, members)
            idx = self.ev(e.get('idx'), env, members)
            w, sg = width(e.get('t'))
            nb = max(1, w // 8)
            v = self.load(base + idx * nb, nb)
            return _s(v, w) if sg and w > 1 else v
        if k == 'un' and False:
            pass
        raise Unsupported('expression kind %s (%s)' % (k, show(e0)[:50]))

    def _write_back(self, g, e, env2, env, members):
        """non-const lvalue-reference parameters of scalar / pointer type: what the callee left in them is what the
        caller's variable holds afterwards"""
        for p_, a_ in zip(g.params, e.get('args') or []):
            t_ = (p_.get('t') or '').strip()
            if not t_.endswith('&') or t_.endswith('&&') or t_.startswith('const ') and '*' not in t_:
                continue
            if p_['id'] not in env2 or not isinstance(env2[p_['id']], (int, float)):
                continue
            a0 = strip(a_)
            if a0 is None or a0.get('k') not in ('ref', 'member'):
                continue
            try:
                self.store(a_, env2[p_['id']], env, members)
            except Unsupported:
                pass

    def _share(self, sub):
        """a callee works on the same byte memory: same regions, same tables"""
        for a_ in ('writable', 'written', 'readonly', 'globals_at'):
            if hasattr(self, a_):
                setattr(sub, a_, getattr(self, a_))
        if not hasattr(self, 'globals_at'):
            self.globals_at = {}
            self.readonly = getattr(self, 'readonly', [])
            sub.globals_at, sub.readonly = self.globals_at, self.readonly
        sub._nlocals = getattr(self, '_nlocals', 0) + 8

    def global_address(self, e):
        """address of a constant global array: its bytes are mapped read-only on first use"""
        if not hasattr(self, 'globals_at'):
            self.globals_at = {}
        if e['id'] in self.globals_at:
            return self.globals_at[e['id']]
        for st_ in self.facts.statics:
            if st_.get('id') == e['id'] and st_.get('const') and isinstance(st_.get('value'), dict) and 'arr' in st_['value']:
                t = st_.get('t') or ''
                ew, _ = width(t.split('[')[0])
                ew = max(1, ew // 8)
                base = 0x40000000 + 0x10000 * len(self.globals_at)
                a = base
                for el in st_['value']['arr']:
                    if not isinstance(el, (str, int)):
                        return None
                    v = int(el) & ((1 << (8 * ew)) - 1)
                    for j in range(ew):
                        self.memory[a + j] = (v >> (8 * j)) & 0xff
                    a += ew
                if not hasattr(self, 'readonly'):
                    self.readonly = []
                self.readonly.append((base, a))
                self.globals_at[e['id']] = base
                return base
        return None

    def write(self, addr, n, v, what=''):
        for lo, hi in getattr(self, 'readonly', []):
            if lo <= addr < hi:
                raise UndefinedBehaviour('store into a constant table')
        wr = getattr(self, 'writable', None)
        if wr is not None and not any(lo <= addr and addr + n <= hi for lo, hi in wr):
            raise UndefinedBehaviour('store of %d byte(s) at offset %d relative to the buffer start%s' % (n, addr - wr[0][0], what))
        for j in range(n):
            self.memory[addr + j] = (v >> (8 * j)) & 0xff
        if hasattr(self, 'written'):
            self.written.update(range(addr, addr + n))

    def load(self, addr, n):
        v = 0
        for i in range(n):
            if addr + i not in self.memory:
                raise UndefinedBehaviour('read of unmapped byte at offset %d' % (addr + i - min(self.memory)))
            v |= self.memory[addr + i] << (8 * i)
        return v

    def arith(self, op, l, r, e):
        if isinstance(l, float) or isinstance(r, float):
            # IEEE-754 binary64 arithmetic (Python floats): one correctly rounded operation each, as SSE2 does
            l, r = float(l), float(r)
            if op == '+':
                return l + r
            if op == '-':
                return l - r
            if op == '*':
                return l * r
            if op == '/':
                if r == 0.0:
                    return float('nan') if l == 0.0 or l != l else (float('inf') if (l > 0) == (str(r)[0] != '-') else float('-inf'))
                return l / r
            raise Unsupported('floating operator ' + op)
        if op == '+':
            return l + r
        if op == '-':
            return l - r
        if op == '*':
            return l * r
        if op in ('/', '%'):
            if r == 0:
                _undef('division by zero')
            q = abs(l) // abs(r)
            if (l < 0) != (r < 0):
                q = -q
            return q if op == '/' else l - q * r
        if op == '&':
            return l & r
        if op == '|':
            return l | r
        if op == '^':
            return l ^ r
        if op in ('<<', '>>'):
            # the shift count must be below the width of the (promoted) left operand
            wl_ = 64
            try:
                w0_, _sg = width((e or {}).get('t'))
                if w0_ in (8, 16, 32):
                    wl_ = 32
                elif w0_ == 128:
                    wl_ = 128
            except Exception:
                wl_ = 64
            if not isinstance(r, int) or not 0 <= r < wl_:
                _undef('shift of a %d-bit value by %s' % (wl_, r))
            return l << r if op == '<<' else l >> r
        raise Unsupported('operator ' + op)

    def store(self, lhs, v, env, members):
        l = strip(lhs)
        if l is None:
            raise Unsupported('store target')
        if l.get('k') == 'ref':
            env[l['id']] = v
            return
        if l.get('k') == 'member' and strip(l.get('base')) is not None and strip(l['base']).get('k') == 'this':
            members[l['name']] = v
            return
        if l.get('k') == 'member':
            # a field of a modelled struct value (reached through a pointer / reference / another member)
            try:
                bv = self.ev(l['base'], env, members)
            except Unsupported:
                bv = None
            if isinstance(bv, UnionVal):
                bv.write(l.get('t'), v)
                return
            if isinstance(bv, dict):
                bv[l['name']] = v
                return
            if hasattr(bv, 'set_member'):
                bv.set_member(l['name'], v)
                return
            path = member_path(l)
            if path is not None:
                members[path] = v
                return
        if (l.get('k') == 'un' and l.get('op') == '*') or l.get('k') == 'sub':
            addr_once = None
            if l.get('k') == 'un':
                # the pointer operand is evaluated exactly once (it may have a side effect: *p++ = x)
                try:
                    addr_once = self.ev(l['e'], env, members)
                except Unsupported:
                    if self.memory is not None and isinstance(v, int):
                        raise
                    addr_once = None
                if isinstance(addr_once, (LocalCell, MemberCell)):
                    addr_once.set(v, l.get('t'))
                    return
            if self.memory is not None and isinstance(v, int):
                if l.get('k') == 'sub':
                    a0 = self.ev(l['base'], env, members)
                    ix = self.ev(l['idx'], env, members)
                    ew, _ = width(l.get('t'))
                    addr = a0 + ix * max(1, ew // 8) if isinstance(a0, int) and isinstance(ix, int) else None
                else:
                    addr = addr_once
                    ew, _ = width(l.get('t'))
                if isinstance(addr, int):
                    self.write(addr, max(1, ew // 8), v & ((1 << ew) - 1))
                    self.mem_stores.append((show(l), v))
                    return
            # a store through a pointer: memory is not modelled; recorded for the caller
            self.mem_stores.append((show(l), v))
            return
        raise Unsupported('store to %s' % show(l))

    # ---- statements / control flow
    def run(self, env, members, stop_at=None):
        """returns (return value or None, env, members, reached) ; stop_at: predicate(block id, stmt index, stmt) -> True to stop"""
        fn = self.fn
        env = dict(env)
        members = members.copy() if type(members) is not dict and hasattr(members, 'copy') else dict(members)
        b = fn.entry
        steps = 0
        while True:
            steps += 1
            if steps > self.max_steps:
                raise Unsupported('step limit')
            B = fn.blocks[b]
            for i, s in enumerate(B['stmts']):
                if stop_at is not None and stop_at(b, i, s):
                    return None, env, members, True
                s_ = strip(s) if isinstance(s, dict) else None
                if s_ is None:
                    continue
                k = s_.get('k')
                if k == 'ret':
                    v = self.ev(s_['e'], env, members) if s_.get('e') is not None else None
                    return v, env, members, False
                if k == 'decl':
                    for vd in s_['vars']:
                        import re as _re2
                        ma = _re2.match(r'^(?:unsigned |signed )?(char|uint8_t|int8_t)\[(\d+)\]$', (vd.get('t') or '').replace('const ', ''))
                        zero_init_ = False
                        if ma and self.memory is not None and vd.get('init') is not None:
                            in_ = strip(vd['init'])
                            if in_ is not None and in_.get('k') == 'initlist' and all((strip(x_) or {}).get('cv') in (0, '0') for x_ in (in_.get('args') or in_.get('inits') or [])):
                                zero_init_ = True          # T buf[N] = {0}: every element zero
                        if ma and self.memory is not None and (vd.get('init') is None or zero_init_):
                            # a local byte array: its own writable region (contents indeterminate unless = {0})
                            nloc = getattr(self, '_nlocals', 0)
                            self._nlocals = nloc + 1
                            a_ = 0x20000000 + 0x1000 * nloc
                            for j_ in range(int(ma.group(2))):
                                self.memory[a_ + j_] = 0 if zero_init_ else 0xCD
                            if getattr(self, 'writable', None) is not None:
                                self.writable.append((a_, a_ + int(ma.group(2))))
                            env[vd['id']] = a_
                            continue
                        if (vd.get('t') or '').startswith('union ') or '(unnamed union' in (vd.get('t') or '') or '(anonymous union' in (vd.get('t') or ''):
                            env[vd['id']] = UnionVal()
                            continue
                        if vd.get('init') is not None:
                            try:
                                env[vd['id']] = wrap(self.ev(vd['init'], env, members), vd.get('t'))
                            except Unsupported as ex_:
                                # a local of a type this interpreter does not model: left unbound, any later use fails
                                if os.environ.get('SV_DEBUG_DECL'):
                                    sys.stderr.write('decl of %s left unbound: %s\n' % (vd.get('name'), ex_))
                                env.pop(vd['id'], None)
                    continue
                if k == 'new':
                    self.ev(s_, env, members)
                    continue
                if k in ('bin', 'un', 'call', 'cond'):
                    # sub-expressions listed separately by the CFG are pure re-evaluations: only effects matter
                    if k == 'bin' and not (s_['op'] == '=' or (s_['op'].endswith('=') and s_['op'] not in ('==', '!=', '<=', '>='))) and s_['op'] != ',':
                        continue
                    if k == 'un' and s_['op'] not in ('++', '--'):
                        continue
                    if k == 'cond':
                        continue
                    if k == 'call' and not _has_effect(s_):
                        continue
                    self.ev(s_, env, members)
                    continue
                if k == 'init':
                    # a constructor's member initialiser: the member gets the value (aggregates / zero-initialisation: skipped)
                    try:
                        ini_ = strip(s_.get('e'))
                        if ini_ is not None and ini_.get('k') not in ('zeroinit', 'initlist') and s_.get('field'):
                            members[s_['field']] = self.ev(s_['e'], env, members)
                    except Unsupported:
                        pass
                    continue
                if k == 'autodtor':
                    if self.call_hook is not None and s_.get('id') in env:
                        self.call_hook({'k': 'autodtor', 'cname': '~auto', 'loc': s_.get('loc')}, [env[s_['id']]], env, members)
                    continue
                if k in ('ref', 'lit', 'member', 'cast', 'paren', 'sub', 'str'):
                    continue
                if k in ('ctor', 'lit', 'flit', 'ref', 'member', 'cast', 'sub', 'str', 'initlist', 'this', 'sizeof', 'nullptr'):
                    continue          # a value computed for its enclosing full expression (listed separately by the CFG): no effect of its own
                raise Unsupported('statement kind %s' % k)
            t = B.get('term')
            succs = B['succs']
            live = [x for x in succs if x is not None]
            if b == fn.exit or not live:
                return None, env, members, False
            if t and t.get('cls') == 'SwitchStmt':
                v = self.ev(t['cond'], env, members)
                nb = None
                dflt = None
                for x in succs:
                    if x is None:
                        continue
                    cv_ = fn.blocks[x].get('case')
                    try:
                        if cv_ is not None and int(cv_) == v:
                            nb = x
                        elif cv_ is None:
                            dflt = x
                    except (TypeError, ValueError):
                        dflt = x
                nb = nb if nb is not None else dflt
                if nb is None:
                    raise Unsupported('switch without a matching arm')
                b = nb
                continue
            if t and t.get('cond') is not None and len(succs) == 2:
                v = self.ev(t['cond'], env, members)
                nb = succs[0] if v else succs[1]
                if nb is None:
                    raise Unsupported('pruned edge taken')
                b = nb
            else:
                if len(live) != 1:
                    raise Unsupported('ambiguous successor')
                b = live[0]


def _has_effect(call):
    return True
