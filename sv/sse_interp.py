"""Tiny evaluator for straight-line SSE2 integer code in the fact IR: 128-bit
vectors are Python ints, each intrinsic is its Intel-documented lane semantics
(primitive contracts; listed in evidence).  Used to evaluate UtoaSSE's real
data flow for every 4-digit value — an exhaustive check of a finite domain by
abstract evaluation of the source, not an execution of the library."""
from .core import strip, cval, show, locline

M128 = (1 << 128) - 1


def lanes(v, w):
    n = 128 // w
    m = (1 << w) - 1
    return [(v >> (i * w)) & m for i in range(n)]


def pack(ls, w):
    v = 0
    m = (1 << w) - 1
    for i, x in enumerate(ls):
        v |= (x & m) << (i * w)
    return v


def _mm_cvtsi32_si128(a):
    return a & 0xFFFFFFFF


def _mm_setzero_si128():
    return 0


def _mm_mul_epu32(a, b):
    la, lb = lanes(a, 64), lanes(b, 64)
    return pack([(x & 0xFFFFFFFF) * (y & 0xFFFFFFFF) for x, y in zip(la, lb)], 64)


def _mm_srli_epi64(a, n):
    return pack([x >> n if n < 64 else 0 for x in lanes(a, 64)], 64)


def _mm_slli_epi64(a, n):
    return pack([(x << n) if n < 64 else 0 for x in lanes(a, 64)], 64)


def _mm_sub_epi32(a, b):
    return pack([(x - y) for x, y in zip(lanes(a, 32), lanes(b, 32))], 32)


def _mm_sub_epi16(a, b):
    return pack([(x - y) for x, y in zip(lanes(a, 16), lanes(b, 16))], 16)


def _mm_add_epi8(a, b):
    return pack([(x + y) for x, y in zip(lanes(a, 8), lanes(b, 8))], 8)


def _mm_unpacklo_epi16(a, b):
    la, lb = lanes(a, 16), lanes(b, 16)
    out = []
    for i in range(4):
        out += [la[i], lb[i]]
    return pack(out, 16)


def _mm_unpacklo_epi32(a, b):
    la, lb = lanes(a, 32), lanes(b, 32)
    return pack([la[0], lb[0], la[1], lb[1]], 32)


def _mm_mulhi_epu16(a, b):
    return pack([(x * y) >> 16 for x, y in zip(lanes(a, 16), lanes(b, 16))], 16)


def _mm_mullo_epi16(a, b):
    return pack([(x * y) & 0xFFFF for x, y in zip(lanes(a, 16), lanes(b, 16))], 16)


def _mm_packus_epi16(a, b):
    def sat(x):
        if x >= 0x8000:
            return 0        # negative int16 saturates to 0
        return min(x, 255)
    return pack([sat(x) for x in lanes(a, 16)] + [sat(x) for x in lanes(b, 16)], 8)


INTRINSICS = {f.__name__: f for f in (
    _mm_cvtsi32_si128, _mm_setzero_si128, _mm_mul_epu32, _mm_srli_epi64, _mm_slli_epi64, _mm_sub_epi32, _mm_sub_epi16,
    _mm_add_epi8, _mm_unpacklo_epi16, _mm_unpacklo_epi32, _mm_mulhi_epu16, _mm_mullo_epi16, _mm_packus_epi16)}


class Unsupported(Exception):
    pass


class VecEval:
    """evaluate a straight-line function (single path) whose locals are __m128i values"""

    def __init__(self, fn, tables):
        self.fn = fn
        self.tables = tables    # qn -> (elem_width_bits, [values])
        self.stmts = []
        b = fn.entry
        seen = set()
        while b is not None and b not in seen:
            seen.add(b)
            B = fn.blocks[b]
            self.stmts += B['stmts']
            live = [x for x in B['succs'] if x is not None]
            if len(live) > 1:
                raise Unsupported('control flow in %s' % fn.qn)
            b = live[0] if live else None

    def table_vec(self, e):
        """*(const __m128i *)(table)  -> 128-bit value of the first 16 bytes"""
        for x in _walk(e):
            if x.get('k') == 'ref' and x.get('qn') in self.tables:
                w, vals = self.tables[x['qn']]
                return pack(vals[:128 // w], w)
        return None

    def ev(self, e, env):
        e0 = e
        e = strip(e)
        if e is None:
            raise Unsupported('null')
        k = e.get('k')
        if k == 'ref':
            if e['id'] in env:
                return env[e['id']]
            raise Unsupported('ref %s' % e.get('name'))
        c = cval(e0)
        if c is not None:
            return c
        if k == 'call':
            n = e.get('cname')
            if n in INTRINSICS:
                args = [self.ev(a, env) for a in e.get('args', [])]
                return INTRINSICS[n](*args) & M128
            raise Unsupported('call %s' % n)
        if k == 'un' and e['op'] == '*':
            v = self.table_vec(e)
            if v is not None:
                return v
        if k in ('ctor',) and len(e.get('args', [])) == 1:
            return self.ev(e['args'][0], env)
        v = self.table_vec(e)
        if v is not None:
            return v
        raise Unsupported('expr %s at %s' % (show(e), locline(e.get('loc', '?'))))

    def run(self, args):
        env = {}
        for p, a in zip(self.fn.params, args):
            env[p['id']] = a
        for s in self.stmts:
            s_ = strip(s)
            k = s_.get('k')
            if k == 'decl':
                for v in s_['vars']:
                    if v.get('init') is not None:
                        env[v['id']] = self.ev(v['init'], env)
            elif k == 'ret':
                return self.ev(s_['e'], env)
            elif k == 'autodtor':
                continue
            else:
                raise Unsupported('statement %s' % show(s_))
        raise Unsupported('no return')


def _walk(e):
    from .core import walk
    return walk(e)
