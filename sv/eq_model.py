"""E6 (part 3) — DNode::operator== against JSON value equality, by exhaustive exploration of its CFG.

The comparison is a recursive function over two node trees.  Its CFG (current source) is interpreted by
sv/minterp.py for every ordered pair of trees from a small universe; the node accessors it calls are answered from a
tree model laid out as the library lays nodes out (members / elements in a block, an iterator is (block, index),
reading through an iterator at or behind the end of its block is undefined behaviour - that slot holds whatever was
there before).  Nested comparisons (operator== / operator!= on children) are interpreted recursively from the same
CFG.  Obligation: the result equals JSON value equality - objects compare as unordered sets of (key, value), arrays
in order, strings by bytes whatever their storage flag, numbers by kind and payload - and no comparison reads behind
a block.
"""
from .core import strip, show, AnalysisBroken
from .minterp import Interp, Unsupported, UndefinedBehaviour


class N:
    """a node: kind in null true false uint sint real str arr obj; flag: storage flag of strings"""
    __slots__ = ('kind', 'val', 'kids', 'flag')

    def __init__(self, kind, val=None, kids=None, flag='copy'):
        self.kind, self.val, self.kids, self.flag = kind, val, kids or [], flag

    def __repr__(self):
        return text(self)


def text(t):
    if t.kind == 'str':
        return '"%s"' % t.val
    if t.kind in ('uint', 'sint', 'real'):
        return '%s%s' % (t.val, {'uint': 'u', 'sint': '', 'real': ''}[t.kind])
    if t.kind in ('true', 'false', 'null'):
        return t.kind
    if t.kind == 'arr':
        return '[' + ','.join(text(c) for c in t.kids) + ']'
    return '{' + ','.join(text(t.kids[i]) + ':' + text(t.kids[i + 1]) for i in range(0, len(t.kids), 2)) + '}'


def json_eq(a, b):
    if a.kind in ('arr',):
        return b.kind == 'arr' and len(a.kids) == len(b.kids) and all(json_eq(x, y) for x, y in zip(a.kids, b.kids))
    if a.kind == 'obj':
        if b.kind != 'obj' or len(a.kids) != len(b.kids):
            return False
        bm = {b.kids[i].val: b.kids[i + 1] for i in range(0, len(b.kids), 2)}
        for i in range(0, len(a.kids), 2):
            k = a.kids[i].val
            if k not in bm or not json_eq(a.kids[i + 1], bm[k]):
                return False
        return True
    if a.kind == 'str':
        return b.kind == 'str' and a.val == b.val
    return a.kind == b.kind and a.val == b.val


class Member:
    """one object member: .name / .value"""
    def __init__(self, owner, idx):
        self.owner, self.idx = owner, idx

    def get_member(self, name):
        n = len(self.owner.kids) // 2
        if not 0 <= self.idx < n:
            raise UndefinedBehaviour('member #%d of an object with %d members is read (%s)' % (self.idx, n, name))
        return self.owner.kids[2 * self.idx + (0 if name == 'name' else 1)]


class It:
    """iterator into the member / element block of a node"""
    value_eq = True

    def __init__(self, owner, idx, members):
        self.owner, self.idx, self.members = owner, idx, members

    def __eq__(self, o):
        return isinstance(o, It) and o.owner is self.owner and o.idx == self.idx and o.members == self.members

    def __hash__(self):
        return hash((id(self.owner), self.idx))

    def __add__(self, k):
        return It(self.owner, self.idx + k, self.members)

    def __sub__(self, k):
        if isinstance(k, It):
            return self.idx - k.idx
        return It(self.owner, self.idx - k, self.members)

    def deref(self):
        if self.members:
            return Member(self.owner, self.idx)
        if not 0 <= self.idx < len(self.owner.kids):
            raise UndefinedBehaviour('element #%d of an array with %d elements is read' % (self.idx, len(self.owner.kids)))
        return self.owner.kids[self.idx]

    def get_member(self, name):
        return self.deref().get_member(name) if self.members else getattr(self.deref(), name)


class Eq:
    def __init__(self, f_eq, f_ne, facts, tags):
        self.f_eq, self.f_ne, self.facts, self.tags = f_eq, f_ne, facts, tags
        self.calls = 0

    def sub(self, n):
        m = {'null': 'kNull', 'true': 'kTrue', 'false': 'kFalse', 'uint': 'kUint', 'sint': 'kSint', 'real': 'kReal', 'obj': 'kObject', 'arr': 'kArray'}
        if n.kind == 'str':
            return self.tags[{'copy': 'kStringCopy', 'free': 'kStringFree', 'const': 'kStringConst'}[n.flag]]
        return self.tags[m[n.kind]]

    def run(self, f, this, rhs, depth=0):
        if depth > 8:
            raise Unsupported('comparison nested deeper than 8')
        self.calls += 1
        it = None

        def hook(e, args, env, members):
            name = e.get('cname') or ''
            if name.startswith('__builtin_expect'):
                return None
            o = it.ev(e['obj'], env, members) if e.get('obj') is not None else None
            if e.get('opcall') and o is None and args:
                o = args[0]
            if isinstance(o, N):
                n = o
                if name == 'getBasicType':
                    return self.sub(n) & self.tags.get('kBasicTypeMaskValue', 7)
                if name == 'GetType':
                    return self.sub(n)
                if name == 'Size':
                    return len(n.kids) // 2 if n.kind == 'obj' else (len(n.kids) if n.kind == 'arr' else (len(n.val) if n.kind == 'str' else 0))
                if name in ('IsObject', 'IsArray', 'IsString', 'IsNumber'):
                    return int({'IsObject': n.kind == 'obj', 'IsArray': n.kind == 'arr', 'IsString': n.kind == 'str', 'IsNumber': n.kind in ('uint', 'sint', 'real')}[name])
                if name in ('MemberBegin', 'CMemberBegin'):
                    return It(n, 0, True)
                if name in ('MemberEnd', 'CMemberEnd'):
                    return It(n, len(n.kids) // 2, True)
                if name in ('Begin', 'CBegin'):
                    return It(n, 0, False)
                if name in ('End', 'CEnd'):
                    return It(n, len(n.kids), False)
                if name == 'FindMember':
                    key = args[-1] if not e.get('opcall') else args[-1]
                    if not (isinstance(key, tuple) and key[0] == 'sv'):
                        raise Unsupported('FindMember(%r)' % (key,))
                    for j in range(0, len(n.kids), 2):
                        if n.kids[j].val == key[1]:
                            return It(n, j // 2, True)
                    return It(n, len(n.kids) // 2, True)
                if name == 'GetStringView':
                    if n.kind != 'str':
                        raise UndefinedBehaviour('GetStringView() of a %s node' % n.kind)
                    return ('sv', n.val)
                if name in ('operator==', 'operator!='):
                    other = args[-1]
                    if not isinstance(other, N):
                        raise Unsupported('%s with %r' % (name, other))
                    r = self.run(self.f_eq, n, other, depth + 1)
                    return r if name == 'operator==' else int(not r)
                raise Unsupported('node accessor %s' % name)
            if name in ('operator==', 'operator!=') and len(args) == 2 and all(isinstance(a, tuple) and a and a[0] == 'sv' for a in args):
                return int((args[0][1] == args[1][1]) == (name == 'operator=='))
            if name in ('memcmp', '__builtin_memcmp') and len(args) == 3 and all(isinstance(a, N) for a in args[:2]):
                a, b = args[0], args[1]
                return 0 if (self.sub(a), a.val) == (self.sub(b), b.val) else 1
            return None
        it = Interp(f, self.facts, call_hook=hook, max_steps=100000)
        env = {'__this__': this}
        if f.params:
            env[f.params[0]['id']] = rhs
        r = it.run(env, {})[0]
        return int(bool(r))
