"""Byte-level evaluation of the scanners' CFGs (E5 family): sv/minterp.py with a byte memory, plus

* the SIMD wrapper layer (simd128<uint8_t> / simd256<uint8_t> / their bool vectors / simd8x64) answered BY CONTRACT:
  a vector is the bytes it was loaded from, a comparison with a byte is the lane-wise UNSIGNED comparison, to_bitmask()
  has bit i for lane i, store() writes the lanes back.  The wrapper bodies themselves (which intrinsic implements the
  unsigned compare) are not evaluated here - trusted, see evidence `trusted`;
* 128/256-bit intrinsics used directly by the scanners (sv/minterp.py SSE table, 256-bit ones here);
* struct values returned by brace-init (StringBlock): dicts, their methods interpreted with the dict as member state;
* the address of a pointer local (&src handed to a helper that advances it): a reference cell.
"""
from .core import strip, show, AnalysisBroken
from .minterp import Interp, Unsupported, UndefinedBehaviour, wrap
import re


class Vec:
    """lanes of a byte vector"""
    def __init__(self, lanes):
        self.lanes = list(lanes)

    def cast_to(self, t):
        return self


class BVec:
    """a bool vector: bit i <-> lane i"""
    def __init__(self, bits, n):
        self.bits, self.n = bits, n

    def cast_to(self, t):
        return self


class Cell:
    """the address of a local variable of the caller"""
    def __init__(self, env, vid, t):
        self.env, self.vid, self.t = env, vid, t

    def deref(self):
        if self.vid not in self.env:
            raise UndefinedBehaviour('read of an uninitialised local through its address')
        return self.env[self.vid]

    def set(self, v):
        self.env[self.vid] = v

    def cast_to(self, t):
        return self


def vec_len_of(name):
    m = re.search(r'simd(128|256)', name or '')
    if m:
        return int(m.group(1)) // 8
    if 'simd8x64' in (name or ''):
        return 64
    return None


def _lanes(v, n):
    return [(v >> (8 * i)) & 0xff for i in range(n)]


def _pack(l):
    r = 0
    for i, b in enumerate(l):
        r |= (b & 0xff) << (8 * i)
    return r


def _s8(b):
    return b - 256 if b >= 128 else b


AVX = {
    '_mm256_set1_epi8': lambda a: _pack([a[0] & 0xff] * 32),
    '_mm256_setzero_si256': lambda a: 0,
    '_mm256_cmpeq_epi8': lambda a: _pack([0xff if x == y else 0 for x, y in zip(_lanes(a[0], 32), _lanes(a[1], 32))]),
    '_mm256_cmpgt_epi8': lambda a: _pack([0xff if _s8(x) > _s8(y) else 0 for x, y in zip(_lanes(a[0], 32), _lanes(a[1], 32))]),
    '_mm256_and_si256': lambda a: a[0] & a[1],
    '_mm256_or_si256': lambda a: a[0] | a[1],
    '_mm256_xor_si256': lambda a: a[0] ^ a[1],
    '_mm256_andnot_si256': lambda a: (~a[0]) & a[1] & ((1 << 256) - 1),
    '_mm256_max_epu8': lambda a: _pack([max(x, y) for x, y in zip(_lanes(a[0], 32), _lanes(a[1], 32))]),
    '_mm256_min_epu8': lambda a: _pack([min(x, y) for x, y in zip(_lanes(a[0], 32), _lanes(a[1], 32))]),
    '_mm256_movemask_epi8': lambda a: sum(1 << i for i, x in enumerate(_lanes(a[0], 32)) if x & 0x80) - ((1 << 32) if _lanes(a[0], 32)[31] & 0x80 else 0),
}


class ByteVM:
    """one evaluation context: a byte memory with a text buffer, the tables mapped on demand"""
    def __init__(self, facts, extra_hook=None):
        self.facts = facts
        self.extra_hook = extra_hook

    def make(self, f, memory, writable=None, max_steps=200000):
        it = Interp(f, self.facts, call_hook=None, max_steps=max_steps)
        it.memory = memory
        if writable is not None:
            it.writable = list(writable)
        it.written = set()
        vm = self

        def hook(e, args, env, members):
            name = e.get('cname') or ''
            if name.startswith('__builtin_expect'):
                return None
            if vm.extra_hook is not None:
                r = vm.extra_hook(e, args, env, members, cur[0])
                if r is not None:
                    return r
            I = cur[0]
            k = e.get('k')
            cls = e.get('ccls') or e.get('cdiag') or e.get('t') or ''
            if k == 'ctor':
                cd = e.get('cdiag') or e.get('callee') or ''
                n = vec_len_of(cd)
                if n is not None:
                    at = [(a.get('t') or '') for a in (e.get('args') or [])]
                    if len(args) == 1 and isinstance(args[0], (Vec, BVec)):
                        return args[0]
                    if '<bool>' in cd and len(args) == 1 and isinstance(args[0], int) and '*' not in at[0] and 'vector_size' not in at[0] and '__m' not in at[0]:
                        return BVec(((1 << n) - 1) if args[0] else 0, n)
                    if len(args) == 1 and isinstance(args[0], int) and '*' in at[0]:
                        return Vec([I.load(args[0] + j, 1) for j in range(n)])       # load from an address
                    if len(args) == 1 and isinstance(args[0], int) and ('vector_size' in at[0] or '__m' in at[0]):
                        if '<bool>' in cd:
                            return BVec(sum(1 << i for i, x in enumerate(_lanes(args[0], n)) if x & 0x80), n)
                        return Vec(_lanes(args[0], n))                              # from a raw register
                    if len(args) == 1 and isinstance(args[0], int):
                        return Vec([args[0] & 0xff] * n)                            # splat of one byte
                    if not args:
                        return Vec([0] * n)
                    raise Unsupported('vector constructor %s' % show(e)[:60])
                return None
            if k == 'call':
                o = None
                if e.get('obj') is not None:
                    ob_ = strip(e['obj'])
                    if ob_ is not None and ob_.get('k') == 'this' and '__this__' not in env:
                        return None               # a method of the struct being interpreted: minterp shares the member state
                    o = I.ev(e['obj'], env, members)
                elif e.get('opcall') and args:
                    o = args[0]
                if name == 'operator=' and args and isinstance(o, (dict, Vec, BVec)) and isinstance(args[-1], type(o)):
                    # implicit copy / move assignment of a modelled value
                    if isinstance(o, dict):
                        o.clear()
                        o.update(args[-1])
                    elif isinstance(o, Vec):
                        o.lanes = list(args[-1].lanes)
                    else:
                        o.bits, o.n = args[-1].bits, args[-1].n
                    return o
                if isinstance(o, Vec):
                    other = args[-1] if args else None
                    n = len(o.lanes)
                    if name in ('operator==', 'operator<=', 'operator<', 'operator>', 'operator>=', 'operator!='):
                        if isinstance(other, Vec):
                            ol = other.lanes
                        elif isinstance(other, int):
                            ol = [other & 0xff] * n
                        else:
                            raise Unsupported('vector comparison with %r' % (other,))
                        fn_ = {'operator==': lambda x, y: x == y, 'operator!=': lambda x, y: x != y, 'operator<=': lambda x, y: x <= y, 'operator<': lambda x, y: x < y,
                               'operator>': lambda x, y: x > y, 'operator>=': lambda x, y: x >= y}[name]
                        return BVec(sum(1 << i for i in range(n) if fn_(o.lanes[i], ol[i])), n)
                    if name == 'eq' and isinstance(other, int):
                        return sum(1 << i for i in range(n) if o.lanes[i] == (other & 0xff))
                    if name.startswith('operator ') and ('vector_size' in name or '__m' in name):
                        return _pack(o.lanes)      # conversion to the raw register type
                    if name == 'store':
                        for j, b in enumerate(o.lanes):
                            I.write(args[-1] + j, 1, b, ' (vector store)')
                        return 0
                    raise Unsupported('vector method %s' % name)
                if isinstance(o, BVec):
                    other = args[-1] if args else None
                    if name == 'to_bitmask':
                        return o.bits
                    if name in ('operator|', 'operator&', 'operator^') and isinstance(other, BVec):
                        return BVec({'operator|': o.bits | other.bits, 'operator&': o.bits & other.bits, 'operator^': o.bits ^ other.bits}[name], o.n)
                    if name in ('operator|=', 'operator&=') and isinstance(other, BVec):
                        o.bits = (o.bits | other.bits) if name == 'operator|=' else (o.bits & other.bits)
                        return o
                    if name == 'operator~' or name == 'operator!':
                        return BVec(~o.bits & ((1 << o.n) - 1), o.n)
                    if name == 'any':
                        return int(o.bits != 0)
                    raise Unsupported('bool-vector method %s' % name)
                if isinstance(o, dict) and e.get('obj') is not None:
                    g = vm.facts.by_id.get(e.get('cid'))
                    if g is not None and len(g.params) == len(args):
                        sub = vm.make(g, I.memory, getattr(I, 'writable', None), max_steps)
                        sub.written = I.written
                        I._share(sub)
                        r, _, mem2, _ = sub.run({p['id']: a for p, a in zip(g.params, args)}, o)
                        o.update(mem2)
                        return r
                if name == 'GetNonSpaceBits' and len(args) == 1 and isinstance(args[0], int):
                    # by contract (the table behind it is decided by sv/ws_table.py): bit i <-> byte i of the 64-byte block is not JSON white space
                    return sum(1 << j for j in range(64) if I.load(args[0] + j, 1) not in (0x20, 0x09, 0x0a, 0x0d))
                if name in AVX:
                    return AVX[name](args)
                if name in ('_mm256_loadu_si256', '_mm256_load_si256', '_mm256_lddqu_si256'):
                    return I.load(args[0], 32)
                if name in ('_mm256_storeu_si256', '_mm256_store_si256'):
                    I.write(args[0], 32, args[1], ' (%s)' % name)
                    return 0
                if name in ('_mm_storeu_si128', '_mm_store_si128'):
                    I.write(args[0], 16, args[1], ' (%s)' % name)
                    return 0
            return None
        cur = [it]
        it.call_hook = hook
        return it
