"""C20 — UpdateLazy is a faithful recursive object merge: only the clause "keys
are matched by their decoded value" is decided: an escaped key is decoded from a
private copy that contains the closing quote and VEC_LEN-1 bytes of slack, the
decoded key node owns the buffer exactly when one was allocated, and a decode
error frees the buffer and is returned (DESIGN.md section 5/C20)."""
from ..core import get_facts, strip, strip_expect, cval, show, walk, locline
from ..e2_dom import Must
from . import c11, c11_entry


def ownership(facts, rep):
    n = 0
    seen = set()
    for f in facts.functions:
        if f.cls_qn != 'sonic_json::Parser' or f.short != 'parseLazyImpl':
            continue
        rep.fn(f)
        alloc = [v for bid, i, s in f.stmts() if strip(s).get('k') == 'decl' for v in strip(s)['vars'] if v['name'] == 'allocated']
        rep.require(len(alloc) >= 1, 'C20: ownership flag not found in %s' % f.name)
        if not alloc:
            continue
        aid = alloc[0]['id']

        def gen_stmt(s):
            out = []
            for e in walk(s):
                if e.get('k') == 'call' and e.get('cname') in ('Malloc', 'malloc'):
                    out.append('buffer')
                if e.get('k') == 'bin' and e['op'] == '=' and strip(e['l']).get('id') == aid and cval(e['r']) == 1:
                    out.append('flag')
            return out

        def kill_stmt(s):
            out = []
            for e in walk(s):
                if e.get('k') == 'bin' and e['op'] == '=' and strip(e['l']).get('id') == aid and cval(e['r']) == 0:
                    out += ['flag', 'buffer']
                if e.get('k') == 'call' and e.get('cname') == 'Free':
                    out.append('buffer')
            return out
        M = Must(f, gen_stmt=gen_stmt, kill_stmt=kill_stmt)
        for bid, i, s, e in f.walk():
            key = (show(e)[:60], locline(e.get('loc', '?')))
            # the key event receives the ownership flag: flag set <=> a buffer is live
            if e.get('k') == 'call' and e.get('cname') == 'Key' and len(e.get('args', [])) == 3:
                st = M.at(bid, i)
                if st is None or key in seen:
                    continue
                seen.add(key)
                a = strip(e['args'][2])
                n += 1
                rep.check(a.get('k') == 'ref' and a.get('id') == aid, 'E2.key-ownership', f.qn, show(e)[:70], locline(e['loc']),
                          'the key node must be told whether it owns its buffer through the allocated flag', facts.config)
            # flag := true only with a live buffer
            if e.get('k') == 'bin' and e['op'] == '=' and strip(e['l']).get('id') == aid and cval(e['r']) == 1:
                st = M.at(bid, i)
                if st is None or key in seen:
                    continue
                seen.add(key)
                n += 1
                rep.check('buffer' in st, 'E2.key-ownership', f.qn, show(e), locline(e['loc']), 'allocated may become true only after the buffer was obtained', facts.config)
        # error exit of the decode: buffer freed before returning the error
        for bid, i, s in f.stmts():
            s_ = strip(s)
            if s_.get('k') == 'ret':
                v = strip(s_.get('e'))
                names = [x.get('name') for x in walk(s_) if x.get('k') == 'ref']
                if 'err' in names:
                    st = M.at(bid, i)
                    key = ('ret', locline(s_['loc']))
                    if st is None or key in seen:
                        continue
                    seen.add(key)
                    n += 1
                    rep.check('buffer' not in st, 'E2.key-ownership', f.qn, show(s_)[:60], locline(s_['loc']),
                              'a decode error must free the private buffer before returning', facts.config)
    rep.require(n >= 3, 'C20: only %d ownership obligations found' % n)


def run(rep, tier):
    configs = [('K1', ('::avx2::',))] if tier == 'quick' else [('K1', ('::avx2::',)), ('K3', ('::sse::',))]
    for cfg, ns in configs:
        facts = get_facts(cfg)
        rep.unit(facts)
        sink = type('Sink', (), {})()
        # the callee summaries come from the C11 family analysis (its own obligations are reported by C11)
        from ..core import Report
        quiet = Report('C20-aux', tier, rep.seed)
        fam, n = c11.run_family(facts, quiet, ns)
        rep.require(not quiet.violations, 'C20: the scanner family analysis (C11) has open violations; the decode-buffer clause depends on its summaries')
        c11_entry.check(facts, rep, fam, only='parseLazyImpl')
        # sibling site in SkipScanner::GetOnDemand must satisfy the same contract
        c11_entry.check(facts, rep, fam, only='GetOnDemand')
        ownership(facts, rep)
    rep.min_instances('E3.decode-buffer', 4)
    rep.trust('clang 14 front end', 'zone analysis and callee summaries of C11', 'contract of parseStringInplace: scans to the first unescaped quote with VEC_LEN-byte block loads')
    rep.assumptions += [
        'decides only the clause "keys are matched by their decoded value" (private decode buffer contains the closing quote, has VEC_LEN-1 slack, ownership flag, error exit)',
        'does NOT decide the merge semantics (recursive replace/append, no member lost): model-based behaviour',
    ]
