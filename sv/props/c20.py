"""C20 — UpdateLazy is a faithful recursive object merge: only the clause "keys
are matched by their decoded value" is decided: an escaped key is decoded from a
private copy that contains the closing quote and VEC_LEN-1 bytes of slack, the
decoded key node owns the buffer exactly when one was allocated, and a decode
error frees the buffer and is returned (DESIGN.md section 5/C20)."""
from ..core import get_facts, strip, strip_expect, cval, show, walk, locline, AnalysisBroken
from ..e2_dom import Must
from . import c11, c11_entry


def ownership(facts, rep):
    n = 0
    seen = set()
    for f in facts.functions:
        if f.cls_qn != 'sonic_json::Parser' or f.short != 'parseLazyImpl':
            continue
        rep.fn(f)
        # the ownership flag by role: the bool local handed to the handler's Key(data, size, owned) event
        alloc = []
        for _b, _i, _s, e_ in f.walk():
            if e_.get('k') == 'call' and e_.get('cname') == 'Key' and len(e_.get('args', [])) == 3:
                a_ = strip(e_['args'][2])
                if a_ is not None and a_.get('k') == 'ref' and a_.get('dk') == 'local':
                    alloc.append(a_)
        rep.require(len(alloc) >= 1, 'C20: ownership flag not found in %s' % f.name)
        if not alloc:
            continue
        aid = alloc[0]['id']
        # ... and the decode error by role: the variable parseStringInplace reports through
        err_ids = set()
        for _b, _i, _s, e_ in f.walk():
            if e_.get('k') == 'call' and e_.get('cname') == 'parseStringInplace' and len(e_.get('args', [])) >= 2:
                a_ = strip(e_['args'][1])
                if a_ is not None and a_.get('k') == 'ref':
                    err_ids.add(a_.get('id'))

        def gen_stmt(s):
            out = []
            for e in walk(s):
                if e.get('k') == 'call' and e.get('cname') in ('Malloc', 'malloc'):
                    out.append('buffer')
                if e.get('k') == 'bin' and e['op'] == '=' and strip(e['l']).get('id') == aid and cval(e['r']) == 1:
                    out.append('flag')
            return out

        def kill_stmt(s):
            out = []
            for e in walk(s):
                if e.get('k') == 'bin' and e['op'] == '=' and strip(e['l']).get('id') == aid and cval(e['r']) == 0:
                    out += ['flag', 'buffer']
                if e.get('k') == 'call' and e.get('cname') == 'Free':
                    out.append('buffer')
            return out
        M = Must(f, gen_stmt=gen_stmt, kill_stmt=kill_stmt)
        # one buffer per key: the key node keeps a view into the decode buffer, so the buffer a key is decoded into
        # must have been obtained since the previous key was handed to the handler
        def kill2(s):
            out = list(kill_stmt(s))
            for e in walk(s):
                if e.get('k') == 'call' and e.get('cname') == 'Key':
                    out.append('buffer')
            return out
        M2 = Must(f, gen_stmt=gen_stmt, kill_stmt=kill2)
        for bid, i, s, e in f.walk():
            if e.get('k') == 'call' and e.get('cname') == 'parseStringInplace':
                st = M2.at(bid, i)
                if st is None:
                    continue
                key = ('decode', locline(e['loc']))
                if key in seen:
                    continue
                seen.add(key)
                n += 1
                rep.check('buffer' in st, 'E2.key-ownership', f.qn, 'decode into a buffer obtained for this key: %s' % show(e)[:50], locline(e['loc']),
                          'every escaped key is decoded into its own allocation (earlier key nodes still view theirs)', facts.config)
        for bid, i, s, e in f.walk():
            key = (show(e)[:60], locline(e.get('loc', '?')))
            # the key event receives the ownership flag: flag set <=> a buffer is live
            if e.get('k') == 'call' and e.get('cname') == 'Key' and len(e.get('args', [])) == 3:
                st = M.at(bid, i)
                if st is None or key in seen:
                    continue
                seen.add(key)
                a = strip(e['args'][2])
                n += 1
                rep.check(a.get('k') == 'ref' and a.get('id') == aid, 'E2.key-ownership', f.qn, show(e)[:70], locline(e['loc']),
                          'the key node must be told whether it owns its buffer through the allocated flag', facts.config)
            # flag := true only with a live buffer
            if e.get('k') == 'bin' and e['op'] == '=' and strip(e['l']).get('id') == aid and cval(e['r']) == 1:
                st = M.at(bid, i)
                if st is None or key in seen:
                    continue
                seen.add(key)
                n += 1
                rep.check('buffer' in st, 'E2.key-ownership', f.qn, show(e), locline(e['loc']), 'allocated may become true only after the buffer was obtained', facts.config)
        # error exit of the decode: buffer freed before returning the error
        for bid, i, s in f.stmts():
            s_ = strip(s)
            if s_.get('k') == 'ret':
                v = strip(s_.get('e'))
                names = [x.get('id') for x in walk(s_) if x.get('k') == 'ref']
                if err_ids & set(names):
                    st = M.at(bid, i)
                    key = ('ret', locline(s_['loc']))
                    if st is None or key in seen:
                        continue
                    seen.add(key)
                    n += 1
                    rep.check('buffer' not in st, 'E2.key-ownership', f.qn, show(s_)[:60], locline(s_['loc']),
                              'a decode error must free the private buffer before returning', facts.config)
    rep.require(n >= 3, 'C20: only %d ownership obligations found' % n)


def merge_skeleton(facts, rep):
    """Structure of UpdateNodeLazy that the merge semantics needs (necessary conditions, not the semantics):
    (A) the loop runs over [source.MemberBegin(), source.MemberEnd()) in steps of one and every iteration either
        appends the member (AddMember with the member's own name and value) or merges it into the member found in
        the target (recursive call on (match->value, iter->value)) before it advances;
    (B) the replace-or-merge decision, evaluated over the eight truth assignments of (target is object, source is
        object, target is empty), replaces exactly when NOT(target object AND source object AND target non-empty);
    (C) a success return is preceded by the replacement, by the completion of the member loop, or sits behind tests
        establishing "both objects, target non-empty, source empty" (nothing to merge)."""
    n = 0
    for f in facts.functions:
        if f.short != 'UpdateNodeLazy':
            continue
        rep.fn(f)
        ps = [p['id'] for p in f.params]
        rep.require(len(ps) >= 2, 'C20: UpdateNodeLazy parameters not bound')
        tid, sid = ps[0], ps[1]

        def on(c, pid):
            o = strip(c.get('obj')) if c.get('obj') is not None else None
            return o is not None and o.get('k') == 'ref' and o.get('id') == pid

        def atom(cond):
            """(name, negated) for the boolean atoms of the decision"""
            c = strip_expect(cond)
            neg = False
            while c is not None and c.get('k') == 'un' and c['op'] == '!':
                neg = not neg
                c = strip_expect(c['e'])
            if c is None or c.get('k') != 'call':
                return None
            if c.get('cname') == 'IsObject' and on(c, tid):
                return ('tobj', neg)
            if c.get('cname') == 'IsObject' and on(c, sid):
                return ('sobj', neg)
            if c.get('cname') == 'Empty' and on(c, tid):
                return ('tempty', neg)
            if c.get('cname') == 'Empty' and on(c, sid):
                return ('sempty', neg)
            return None
        # locate the replacement statement and the loop
        repl = None
        loop_head = None
        for bid, B in f.blocks.items():
            for i, st in enumerate(B['stmts']):
                s_ = strip(st)
                if s_ is not None and s_.get('k') == 'call' and s_.get('cname') == 'operator=' and len(s_.get('args', [])) == 2:
                    a0 = strip(s_['args'][0])
                    if a0 is not None and a0.get('k') == 'ref' and a0.get('id') == tid and any(x.get('k') == 'ref' and x.get('id') == sid for x in walk(s_['args'][1])):
                        repl = (bid, i)
            t = B.get('term')
            if t and t.get('cls') in ('ForStmt', 'WhileStmt') and t.get('cond') is not None:
                loop_head = bid
        rep.require(repl is not None and loop_head is not None, 'C20: replacement statement / member loop of UpdateNodeLazy not found')
        if repl is None or loop_head is None:
            continue
        # (B) truth table: start at the first block whose terminator is one of the atoms
        first = None
        order = []
        for bid in sorted(f.blocks, reverse=True):
            t = f.blocks[bid].get('term')
            if t and t.get('cond') is not None and atom(t['cond']):
                order.append(bid)
        # the entry of the decision: the atom block that no other atom block reaches... take the one reached first from the entry
        import itertools
        bad = []
        for tobj, sobj, tempty, sempty in itertools.product((0, 1), repeat=4):
            env = {'tobj': tobj, 'sobj': sobj, 'tempty': tempty, 'sempty': sempty}
            # walk from function entry, taking both outcomes of non-atom branches is not needed: raw lowering and the
            # error exit precede the decision, so start from the unique atom block that dominates the others
            cur = None
            for bid in order:
                preds_atom = [b for b in order if bid in [x for x in f.blocks[b]['succs'] if x is not None]]
                if not preds_atom:
                    cur = bid
            if cur is None:
                raise AnalysisBroken('C20: decision entry of UpdateNodeLazy not found')
            outcome = None
            for _ in range(12):
                B = f.blocks[cur]
                if cur == repl[0]:
                    outcome = 'replace'
                    break
                if cur == loop_head or any(x.get('k') == 'call' and x.get('cname') in ('CreateMap', 'MemberBegin') for st in B['stmts'] for x in walk(st)):
                    outcome = 'merge'
                    break
                t = B.get('term')
                a = atom(t['cond']) if t and t.get('cond') is not None else None
                if a is None or a[0] not in env:
                    nn = [x for x in B['succs'] if x is not None]
                    if len(nn) != 1:
                        raise AnalysisBroken('C20: unexpected branch %s inside the replace-or-merge decision' % (show(t['cond']) if t and t.get('cond') else cur))
                    cur = nn[0]
                    continue
                v = bool(env[a[0]]) != a[1]
                cur = B['succs'][0] if v else B['succs'][1]
            want = 'merge' if (tobj and sobj and not tempty) else 'replace'
            if outcome != want:
                bad.append('target object=%d, source object=%d, target empty=%d, source empty=%d -> %s (expected %s)' % (tobj, sobj, tempty, sempty, outcome, want))
        n += 1
        rep.check(not bad, 'E2.merge-decision', f.qn, 'replace exactly when NOT(target object AND source object AND target non-empty): 16 assignments of the four kind/emptiness tests', f.loc, '; '.join(bad[:3]), facts.config)

        # (A) loop coverage
        def gen_stmt(st):
            out = []
            for e in walk(st):
                if e.get('k') == 'call' and e.get('cname') == 'AddMember' and on(e, tid):
                    a = e.get('args', [])
                    okv = len(a) >= 2 and any(x.get('k') == 'member' and x.get('name') == 'value' for x in walk(a[1]))
                    if okv:
                        out.append('merged')
                if e.get('k') == 'call' and e.get('cname') == 'UpdateNodeLazy':
                    a = e.get('args', [])
                    if len(a) >= 2 and all(any(x.get('k') == 'member' and x.get('name') == 'value' for x in walk(y)) for y in a[:2]):
                        out.append('merged')
            return out

        def kill_edge(b, cond, sense):
            return ['merged'] if b == loop_head and sense is True else []
        M = Must(f, gen_stmt=gen_stmt, kill_edge=kill_edge)
        steps = 0
        for bid, i, st in f.stmts():
            s_ = strip(st)
            if s_ is not None and s_.get('k') in ('un', 'call') and (s_.get('op') == '++' or s_.get('cname') == 'operator++'):
                stt = M.at(bid, i)
                if stt is None:
                    continue
                steps += 1
                n += 1
                rep.check('merged' in stt, 'E2.merge-loop', f.qn, 'every iteration appends or merges its member before %s' % show(s_), locline(s_['loc']),
                          'no source member may be skipped: AddMember(name, value) or UpdateNodeLazy(found value, member value) on every path through the loop body', facts.config)
        rep.require(steps >= 1, 'C20: iterator step of the member loop not found')
        # iteration range: iterator initialised from source.MemberBegin(), compared with source.MemberEnd()
        calls = [e.get('cname') for _, _, _, e in f.walk() if e.get('k') == 'call' and on(e, sid)]
        n += 1
        rep.check('MemberBegin' in calls and 'MemberEnd' in calls, 'E2.merge-loop', f.qn, 'the loop ranges over source.MemberBegin() .. source.MemberEnd()', f.loc, str(sorted(set(calls))), facts.config)

        # (C) success returns
        def gen_stmt2(st):
            out = []
            s_ = strip(st)
            if s_ is not None and s_.get('k') == 'call' and s_.get('cname') == 'operator=' and len(s_.get('args', [])) == 2:
                a0 = strip(s_['args'][0])
                if a0 is not None and a0.get('k') == 'ref' and a0.get('id') == tid:
                    out.append('replaced')
            return out

        def gen_edge2(b, cond, sense):
            out = []
            if b == loop_head and sense is False:
                out.append('loopdone')
            a = atom(cond)
            if a is not None:
                v = (sense is True) != a[1]
                out.append(a[0] + ('=1' if v else '=0'))
            return out
        M2 = Must(f, gen_stmt=gen_stmt2, gen_edge=gen_edge2)
        errv = facts.enum_values().get('kErrorNone', 0)
        for bid, i, st in f.stmts():
            s_ = strip(st)
            if s_ is None or s_.get('k') != 'ret':
                continue
            stt = M2.at(bid, i)
            if stt is None:
                continue
            c = cval(s_.get('e'))
            success = (c == errv) or ('loopdone' in stt)
            if c is not None and c != errv:
                continue
            if c is None and 'loopdone' not in stt:
                continue          # returns a computed error value before the loop completed: an error exit
            n += 1
            nothing = {'tobj=1', 'sobj=1', 'tempty=0', 'sempty=1'} <= set(stt)
            rep.check('replaced' in stt or 'loopdone' in stt or nothing, 'E2.merge-complete', f.qn, show(s_), locline(s_['loc']),
                      'success is reported only after the target was replaced, after every source member was processed, or when there is provably nothing to merge; have %s' % sorted(stt), facts.config)
        break
    rep.require(n >= 5, 'C20: merge-skeleton obligations found: %d' % n)


GROWS = ('Push', 'PushSize', 'Grow', 'Reserve', 'Push5_8')
PTRS = ('PushSize', 'PushSizeUnsafe', 'Begin', 'End', 'Top', 'Grow')


def clause_stable_pointer(facts, rep, files=('sonic/dom/handler.h', 'sonic/dom/serialize.h', 'sonic/dom/schema_handler.h', 'sonic/writebuffer.h')):
    """no pointer into a growable buffer outlives a growth: the node stack of the lazy handler (and every other
    internal::Stack / WriteBuffer) reallocates when it is pushed to, so an address obtained from PushSize / Begin /
    End / Top (a) is never kept in a member field - later events push again - and (b) when kept in a local or a
    reference, is not used after a later call that can grow the same buffer (must-analysis: the 'fresh' fact of the
    variable is killed by Push / PushSize / Grow / Reserve on that buffer)."""
    n = 0
    seen = set()
    for f in facts.functions:
        if not any(f.file.endswith(x) for x in files):
            continue
        key = (f.qn.split('<')[0], f.loc)
        if key in seen:
            continue

        def buf_of(e):
            """text of the stack object a call is made on, if its type is a Stack / WriteBuffer"""
            o = e.get('obj')
            if o is None:
                return None
            o_ = strip(o)
            while o_ is not None and o_.get('k') == 'cast':
                o_ = strip(o_['e'])
            t = (o_.get('t') or '') if o_ is not None else ''
            if 'Stack' in t or 'WriteBuffer' in t:
                return show(o_)
            return None

        def ptr_source(e):
            """buffer whose storage the value of expression e points into (through casts, placement new, unary *)"""
            for x in walk(e):
                if x.get('k') == 'call' and x.get('cname') in PTRS and buf_of(x) is not None and '*' in (x.get('t') or ''):
                    return buf_of(x)
            return None
        derived = {}      # local id -> buffer text
        stores = []
        uses = []
        for bid, i, s_ in f.stmts():
            st = strip(s_)
            if not isinstance(st, dict):
                continue
            if st.get('k') == 'decl':
                for vd in st['vars']:
                    if vd.get('init') is not None and ('*' in (vd.get('t') or '') or '&' in (vd.get('t') or '')):
                        b = ptr_source(vd['init'])
                        if b is not None:
                            derived[vd['id']] = b
            for e in walk(st):
                if e.get('k') == 'bin' and e['op'] == '=':
                    b = ptr_source(e['r'])
                    l = strip(e['l'])
                    if b is not None and l is not None:
                        if l.get('k') == 'member' and is_this_member_(l):
                            stores.append((e, b))
                        elif l.get('k') == 'ref' and l.get('dk') == 'local' and '*' in (l.get('t') or ''):
                            derived[l['id']] = b
        if not derived and not stores and not any(buf_of(e) for _, _, _, e in f.walk() if e.get('k') == 'call'):
            continue
        seen.add(key)
        rep.fn(f)
        for e, b in stores:
            n += 1
            rep.check(False, 'E8.stable-pointer', f.qn, show(e)[:90], locline(e['loc']),
                      'an address inside the growable buffer %s is kept in a member field; the next push may reallocate the buffer' % b, facts.config)
        if derived:
            def gen_stmt(s):
                out = []
                st = strip(s)
                if isinstance(st, dict) and st.get('k') == 'decl':
                    for vd in st['vars']:
                        if vd['id'] in derived and vd.get('init') is not None and ptr_source(vd['init']) is not None:
                            out.append(('fresh', vd['id']))
                for e in walk(s):
                    if e.get('k') == 'bin' and e['op'] == '=' and strip(e['l']) is not None and strip(e['l']).get('k') == 'ref' \
                            and strip(e['l']).get('id') in derived and ptr_source(e['r']) is not None:
                        out.append(('fresh', strip(e['l'])['id']))
                return out

            def kill_stmt(s):
                out = []
                for e in walk(s):
                    if e.get('k') == 'call' and e.get('cname') in GROWS and buf_of(e) is not None:
                        for vid, b in derived.items():
                            if b == buf_of(e):
                                out.append(('fresh', vid))
                # a statement that both grows and re-derives (x = new (stk.PushSize(1)) T) ends with the pointer fresh: gen runs after kill
                return out
            M = Must(f, gen_stmt=gen_stmt, kill_stmt=kill_stmt)
            for bid, i, s_, e in f.walk():
                if e.get('k') == 'ref' and e.get('id') in derived:
                    st = M.at(bid, i)
                    if st is None:
                        continue
                    # the defining occurrence itself is not a use
                    top = strip(s_)
                    if isinstance(top, dict) and top.get('k') == 'decl' and any(vd['id'] == e['id'] for vd in top['vars']):
                        continue
                    if isinstance(top, dict) and top.get('k') == 'bin' and top['op'] == '=' and strip(top['l']) is e:
                        continue
                    n += 1
                    rep.check(('fresh', e['id']) in st, 'E8.stable-pointer', f.qn, 'use of %s in %s' % (e.get('name'), show(s_)[:60]), locline(e['loc']),
                              'the pointer into %s may have been invalidated by a push since it was taken' % derived[e['id']], facts.config)
        if not stores and not derived:
            n += 1
            rep.check(True, 'E8.stable-pointer', f.qn, 'no address of the growable buffer is kept', f.loc, '', facts.config)
    rep.require(n >= 6, 'stable-pointer: %d sites in %s (>= 6 expected)' % (n, files))


def is_this_member_(l):
    b = strip(l.get('base'))
    return b is not None and b.get('k') == 'this'


def clause_lazy_build(facts, rep):
    """'objects of any size / no member is lost': the lazy SAX handler is interpreted on the node model with a node stack
    that reallocates when it grows (sv/schema_model.py), driven as parseLazyImpl drives it, for objects of 0..40
    members and arrays of 0..40 elements: the root node read from the stack's base afterwards has exactly the keys
    and raw values of the text in order, the stack holds the root alone, and no slot of a released block is touched."""
    from ..schema_model import T, Lazy, tstr
    from .. import dom_model as dm
    from ..dom_model import Machine
    from ..minterp import Unsupported, UndefinedBehaviour
    tags = {}
    for en in facts.enums:
        if en.get('qn', '').endswith('TypeFlag'):
            for c in en.get('values', []):
                tags[c['name']] = int(c['v'])
    nfns, hfns = {}, {}
    for f in facts.functions:
        if f.name.startswith('sonic_json::DNode<sonic_json::SimpleAllocator>') or f.name.startswith('sonic_json::DNode<SAlloc>'):
            nfns.setdefault(f.short, f)
        if f.cls_qn == 'sonic_json::LazySAXHandler' and ('SAlloc' in f.name or 'SimpleAllocator' in f.name):
            hfns.setdefault(f.short, f)
    need = ('StartObject', 'EndObject', 'StartArray', 'EndArray', 'Key', 'Raw')
    rep.require(all(n in hfns for n in need) and 'kObject' in tags, 'C20: LazySAXHandler functions not all found: %s' % sorted(hfns))
    for n_ in need:
        rep.fn(hfns[n_])
    L = Lazy(facts, hfns, nfns, tags)
    bad = None
    cnt = 0
    try:
        for kind in ('obj', 'arr'):
            for n in list(range(0, 41)):
                t = T('obj', None, [('k%d' % i, T('uint', i)) for i in range(n)]) if kind == 'obj' else T('arr', None, [T('uint', i) for i in range(n)])
                M = Machine(facts, nfns, tags)
                try:
                    st = L.lazy_build(M, t)
                    cnt += 1
                    root = st.block.slots[0]
                    if st.top != 1:
                        bad = '%s of %d: %d nodes left on the node stack' % (kind, n, st.top)
                    elif root.kind != kind or root.length != n:
                        bad = '%s of %d: the root at the stack base is a %s of %d' % (kind, n, root.kind, root.length)
                    elif n and (root.block is None or root.block.freed):
                        bad = '%s of %d: the root has no live children block' % (kind, n)
                    else:
                        for i in range(n):
                            if kind == 'obj':
                                k_, v_ = root.block.slots[2 * i], root.block.slots[2 * i + 1]
                                if k_.kind != 'str' or k_.val[:k_.length] != 'k%d' % i or v_.kind != 'raw' or v_.val != str(i):
                                    bad = 'object of %d: member %d is (%s %r, %s %r)' % (n, i, k_.kind, k_.val, v_.kind, v_.val)
                                    break
                            else:
                                v_ = root.block.slots[i]
                                if v_.kind != 'raw' or v_.val != str(i):
                                    bad = 'array of %d: element %d is %s %r' % (n, i, v_.kind, v_.val)
                                    break
                except UndefinedBehaviour as ux:
                    bad = '%s of %d: undefined behaviour: %s' % (kind, n, ux)
                if bad:
                    break
            if bad:
                break
    except Unsupported as ex:
        raise AnalysisBroken('C20: the lazy handler cannot be interpreted on the DOM model: %s' % ex)
    rep.check(bad is None, 'E6.lazy-build', 'sonic_json::LazySAXHandler', 'root built from the lazy events == the members / elements of the text, for %d sizes' % cnt,
              hfns['EndObject'].loc, bad or '', facts.config)


def clause_merge_model(facts, rep, tier):
    """UpdateNodeLazy against the recursive object merge, by bounded exploration: its CFG is interpreted (recursively)
    on the node / block / multimap model of sv/dom_model.py; a raw node is a JSON text, and the lazy parse of an object
    text is replaced by its contract (an object whose members are the keys with raw values, in order - the contract
    E6.lazy-build and the scanner rules decide); CreateMap / FindMember / AddMember run the interpreted container code.
    For every ordered pair (target, source) of a universe of JSON values - scalars, arrays, objects of <= 3 members,
    nested to depth 3, disjoint / overlapping / equal key sets - the target afterwards equals

        merge(t, s) = t and s objects, t non-empty:  t with every member of s merged into the member of the same key, or appended
                      otherwise:                      s
    """
    import json as _json, itertools
    from .. import dom_model as dm
    from ..dom_model import V, Ptr, Block, Machine
    from ..minterp import Interp, Unsupported, UndefinedBehaviour
    tags = {}
    for en in facts.enums:
        if en.get('qn', '').endswith('TypeFlag'):
            for c in en.get('values', []):
                tags[c['name']] = int(c['v'])
    fu = [f for f in facts.functions if f.short == 'UpdateNodeLazy' and len(f.params) == 3]
    rep.require(len(fu) >= 1 and 'kObject' in tags, 'C20: UpdateNodeLazy not found')
    if not fu:
        return
    f = fu[0]
    rep.fn(f)
    pool = 'MemoryPoolAllocator' in f.name
    nfns = {}
    for g in facts.functions:
        if (g.cls_qn or '').startswith('sonic_json::DNode'):
            mine = (g.name.startswith('sonic_json::DNode<>::')) if pool else (g.name.startswith('sonic_json::DNode<sonic_json::SimpleAllocator>') or g.name.startswith('sonic_json::DNode<SAlloc>'))
            if not mine:
                continue
            if g.short == 'findMemberImpl' and g.params and 'StringView' not in g.params[0]['t'] and 'basic_string_view' not in g.params[0]['t']:
                continue
            nfns.setdefault(g.short, g)
    rep.require(all(n in nfns for n in ('addMemberImpl', 'findMemberImpl', 'CreateMap', 'destroy')), 'C20: container functions of the matching DNode instantiation not found')

    def dumps(x):
        return _json.dumps(x, separators=(',', ':'))

    def merge(t, s_):
        if isinstance(t, dict) and isinstance(s_, dict) and t:
            out = dict(t)
            for k, v in s_.items():
                out[k] = merge(out[k], v) if k in out else v
            return out
        return s_

    class PR:
        def __init__(self, err=0):
            self.err = err

    class Run:
        def __init__(self):
            self.M = Machine(facts, nfns, tags, need_free=not pool)
            self.depth = 0

        def raw(self, x):
            v = V('raw', dumps(x))
            v.length = len(v.val)
            v.addr = dm.new_addr()
            return v

        def lazy_parse(self, node, text):
            x = _json.loads(text)
            if not isinstance(x, dict):
                raise Unsupported('lazy parse of a non-object')
            node.kind, node.val, node.own, node.block, node.length = 'obj', None, None, None, 0
            if x:
                b = Block(self.M.ledger, len(x), 2)
                for j, (k, v) in enumerate(x.items()):
                    kn = b.slots[2 * j]
                    kn.kind, kn.val, kn.length, kn.addr = 'str', k, len(k), dm.new_addr()
                    b.slots[2 * j + 1].copy_bits(self.raw(v))
                node.block, node.length = b, len(x)

        def value(self, v):
            if v.kind == 'raw':
                return _json.loads(v.val)
            if v.kind == 'obj':
                out = {}
                for j in range(v.length):
                    k = v.block.slots[2 * j]
                    if k.kind != 'str':
                        raise UndefinedBehaviour('a member name is a %s node' % k.kind)
                    if k.val in out:
                        return ('duplicate key', k.val)
                    out[k.val] = self.value(v.block.slots[2 * j + 1])
                return out
            raise UndefinedBehaviour('a %s node in the result of a lazy merge' % v.kind)

        def update(self, target, source):
            self.depth += 1
            if self.depth > 10:
                raise Unsupported('merge recursion deeper than 10')
            it = None
            R = self

            def hook(e, a, env, members):
                nm = e.get('cname') or ''
                o = None
                if e.get('obj') is not None:
                    try:
                        o = it.ev(e['obj'], env, members)
                    except Unsupported:
                        o = None
                if e.get('opcall') and o is None and a and isinstance(a[0], PR) and nm == 'operator=':
                    a[0].err = a[1].err if isinstance(a[1], PR) else 0
                    return a[0]
                if isinstance(o, PR):
                    if nm == 'Error':
                        return o.err
                if e.get('k') == 'ctor' and 'ParseResult' in (e.get('cname') or e.get('t') or ''):
                    return PR(0) if not a else (a[0] if isinstance(a[0], PR) else PR(0))
                if nm == 'ParseLazy' and len(a) == 3:
                    node = a[0].slot() if isinstance(a[0], Ptr) else a[0]
                    R.lazy_parse(node, dm.skey(a[1]))
                    return PR(0)
                if nm == 'UpdateNodeLazy' and len(a) == 3:
                    t_ = a[0].slot() if isinstance(a[0], Ptr) else a[0]
                    s__ = a[1].slot() if isinstance(a[1], Ptr) else a[1]
                    return R.update(t_, s__)
                if isinstance(o, (V, Ptr)):
                    n = o.slot() if isinstance(o, Ptr) else o
                    if nm == 'IsRaw':
                        return int(n.kind == 'raw')
                    if nm == 'GetRaw':
                        if n.kind != 'raw':
                            raise UndefinedBehaviour('GetRaw() of a %s node' % n.kind)
                        return ('sv', n.val, n.addr or dm.new_addr())
                    if nm == 'Empty':
                        return int(n.length == 0) if n.kind in ('obj', 'arr') else 1
                    if nm == 'FindMember':
                        return R.M.call('findMemberImpl', n, a[-1])
                    if nm == 'AddMember':
                        val = a[1].slot() if isinstance(a[1], Ptr) else a[1]
                        return R.M.call('addMemberImpl', n, a[0], val, 'ALLOC', a[3] if len(a) > 3 else 1)
                    if nm == 'CreateMap':
                        return R.M.call('CreateMap', n, 'ALLOC')
                if isinstance(o, dm.CharPtr) or (e.get('k') == 'un'):
                    pass
                return R.M.generic_hook(e, a, env, members, it)
            it = Interp(f, facts, call_hook=hook, max_steps=200000)
            try:
                r = it.run({f.params[0]['id']: target, f.params[1]['id']: source, f.params[2]['id']: 'ALLOC'}, {})[0]
            finally:
                self.depth -= 1
            return r
    # the first character of a raw text is read through *GetRaw().data()
    if not hasattr(dm.CharPtr, 'deref'):
        dm.CharPtr.deref = lambda self_: ord(self_.text[0]) if self_.text else 0
    scal = [1, 'x', None, True, [1, 2], []]
    objs1 = [{}, {'a': 1}, {'b': 'x'}, {'a': 1, 'b': 2}, {'b': 3, 'a': 4}, {'a': 1, 'b': 2, 'c': 3}, {'c': [1], 'd': None}]
    nested = [{'a': {'x': 1}}, {'a': {'x': 1, 'y': {'p': 1}}, 'b': 2}, {'a': {'y': {'q': 2}}, 'c': {}}, {'a': {}, 'b': {'k': 1}}, {'a': [1], 'b': {'k': {'z': 0}}},
              {'b': {'k': {'z': 1, 'w': 2}}, 'a': {'x': {'deep': 1}}}, {'a': {'x': 1, 'y': {'p': 1}}, 'b': {'k': 1}, 'c': {'m': {'n': {}}}}]
    univ = scal + objs1 + nested
    if tier == 'thorough':
        univ += [{'k%d' % i: {'v': i} for i in range(9)}, {'k%d' % i: {'w': i} for i in range(4, 12)}]
    bad = None
    n = 0
    try:
        for t in univ:
            for s_ in univ:
                R = Run()
                tn, sn = R.raw(t), R.raw(s_)
                try:
                    err = R.update(tn, sn)
                    n += 1
                    got = R.value(tn)
                    want = merge(t, s_)
                    if err:
                        bad = 'target %s, source %s: error %s' % (dumps(t), dumps(s_), err)
                    elif got != want or (isinstance(got, dict) and list(got) != list(want)):
                        bad = 'target %s, source %s: result %s, the merge is %s' % (dumps(t), dumps(s_), dumps(got) if not isinstance(got, tuple) else got, dumps(want))
                except UndefinedBehaviour as ux:
                    bad = 'target %s, source %s: undefined behaviour: %s' % (dumps(t), dumps(s_), ux)
                if bad:
                    break
            if bad:
                break
    except Unsupported as ex:
        raise AnalysisBroken('C20: UpdateNodeLazy cannot be interpreted on the DOM model: %s' % ex)
    rep.extra['merge_pairs_explored'] = n
    rep.check(bad is None, 'E6.lazy-merge', f.qn, 'target after UpdateNodeLazy == merge(target, source) on %d ordered pairs' % n, f.loc, bad or '', facts.config)


def run(rep, tier):
    configs = [('K1', ('::avx2::',))] if tier == 'quick' else [('K1', ('::avx2::',)), ('K3', ('::sse::',))]
    for cfg, ns in configs:
        facts = get_facts(cfg)
        rep.unit(facts)
        sink = type('Sink', (), {})()
        # the callee summaries come from the C11 family analysis (its own obligations are reported by C11)
        from ..core import Report
        quiet = Report('C20-aux', tier, rep.seed)
        fam, n = c11.run_family(facts, quiet, ns)
        rep.require(not quiet.violations, 'C20: the scanner family analysis (C11) has open violations; the decode-buffer clause depends on its summaries')
        c11_entry.check(facts, rep, fam, only='parseLazyImpl')
        # sibling site in SkipScanner::GetOnDemand must satisfy the same contract
        c11_entry.check(facts, rep, fam, only='GetOnDemand')
        ownership(facts, rep)
        try:
            merge_skeleton(facts, rep)
        except AnalysisBroken as ex:
            rep.broken.append(str(ex))      # the explorations below still run
        # each lazily parsed slice is scanned by a fresh Parser: the scanner's white-space cache is per buffer (shared with C02 clause f)
        from . import c02
        c02.clause_f(facts, rep)
        # a lazily parsed key is decoded only when SkipString reports an escape (shared with C10 / C05)
        from . import c10
        c10.clause_escape_flag(facts, rep, ns)
        c10.clause_escape_carry(facts, rep, ns)
        c10.clause_container_carry(facts, rep, ns)
        c10.clause_skip_literal(facts, rep)     # a lazily parsed true / false / null, also as the whole text
        c10.clause_escaped_bits(facts, rep, tier)
        # source keys are matched against the target through the lookup map (CreateMap / FindMember): its comparator must be
        # the unsigned lexicographic order on every path, or a key that is present is not found and gets appended (shared with C14)
        clause_stable_pointer(facts, rep)
        from . import c14
        c14.clause_c(facts, rep)
        c14.clause_e(facts, rep, ns, min_returns=(6 if cfg == 'K1' else 1))
    try:
        clause_lazy_build(get_facts('K1'), rep)
    except AnalysisBroken as ex:
        rep.broken.append(str(ex))
    try:
        clause_merge_model(get_facts('K1'), rep, tier)
    except AnalysisBroken as ex:
        rep.broken.append(str(ex))
    rep.min_instances('E3.decode-buffer', 4)
    # one raw value skipped from any alignment: start / end / no stray read, byte by byte (sv/scaneval.py; shared by C10, C11, C15, C20)
    from .. import scaneval
    for cfg6 in (('K1',) if tier == 'quick' else ('K1', 'K3')):
        try:
            scaneval.clause(get_facts(cfg6), rep, tier)
        except AnalysisBroken as ex:
            rep.broken.append(str(ex))
    # the shape rules on UpdateNodeLazy are decided together with the exploration that interprets it on the DOM model
    for r_ in ('E2.merge-decision', 'E2.merge-loop', 'E2.merge-complete'):
        rep.corroborate(r_, 'E6.lazy-merge')
    for pre_ in ('C20: unexpected branch', 'C20: decision entry', 'C20: replacement statement', 'C20: merge-skeleton', 'C20: iterator step', 'C20: UpdateNodeLazy parameters'):
        rep.corroborate_floor(pre_, 'E6.lazy-merge')
    rep.trust('clang 14 front end', 'zone analysis and callee summaries of C11', 'contract of parseStringInplace: scans to the first unescaped quote with VEC_LEN-byte block loads')
    rep.assumptions += [
        'decides only the clause "keys are matched by their decoded value" (private decode buffer contains the closing quote, has VEC_LEN-1 slack, ownership flag, error exit)',
        'also decides the skeleton of UpdateNodeLazy: replace-or-merge decision truth table, every loop iteration appends or merges its member, success only after replacement / loop completion',
        'does NOT decide the merge semantics end to end (which value ends up where): model-based behaviour',
    ]
