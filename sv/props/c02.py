"""C02 — Parse is total and memory-safe for every allocator kind (clauses a-d of
DESIGN.md section 5/C02)."""
from ..core import (get_facts, strip, strip_expect, cval, show, walk, locline, is_this_member,
                    AnalysisBroken)
from ..e1_status import FamilyAnalysis, topo_order, can_return_false
from ..e2_dom import Must, guard_lower_bound, linear

PARSER = 'sonic_json::Parser'


def handler_classes(facts):
    """classes whose methods are invoked on a reference parameter of a Parser
    method: the SAX handler roles are bound by data flow, not by name"""
    hs = set()
    for f in facts.functions:
        if f.cls_qn != PARSER:
            continue
        pids = {p['id'] for p in f.params}
        for bid, i, s, e in f.walk():
            if e.get('k') == 'call' and e.get('obj') is not None and e.get('ccls'):
                o = strip(e['obj'])
                if o is not None and o.get('k') == 'ref' and o.get('id') in pids:
                    hs.add(e['ccls'])
    return hs


def skip_handler_classes(facts):
    out = set()
    for s in facts.statics:
        if s['name'] == 'check_key_return':
            q = s['qn'].rsplit('::', 1)[0]
            out.add(q.split('<', 1)[0])
    return out


def clause_a(facts, rep):
    hs = handler_classes(facts)
    rep.require(len(hs) >= 2, 'C02.a: fewer than two SAX handler classes bound from Parser call sites: %s' % sorted(hs))
    # the event-emitting family: Parser methods with a handler-typed parameter
    fam = []
    for f in facts.functions:
        if f.cls_qn != PARSER:
            continue
        fam.append(f)
    fa = FamilyAnalysis(facts, rep, 'C02', fam, hs)
    fa.skip_handlers = skip_handler_classes(facts)
    order = topo_order(fam)
    fa.run(order)
    for f in fam:
        rep.fn(f)
    # roots: family members not called from the family; their fail-world exits must all carry the error
    called = set()
    for f in fam:
        for bid, i, s, e in f.walk():
            if e.get('k') == 'call' and e.get('cid') in fa.family and e['cid'] != f.id:
                called.add(e['cid'])
    roots = [f for f in fam if f.id not in called and fa.emits.get(f.id)]
    rep.require(len(roots) >= 2, 'C02.a: parser entry points not found')
    for f in roots:
        for (st, rc, sk) in fa.summary.get(f.id, ()):
            rep.check(st == 'signalled', 'E1.root', f.qn, 'entry point outcome %s/%s' % (st, rc), f.loc,
                      'a failed event must surface in the ParseResult of the entry point', facts.config)
    # fallibility census for evidence
    memo = {}
    fall = []
    for f in facts.functions:
        if f.cls_qn in hs and f.d.get('ret_t') in ('_Bool', 'bool'):
            if can_return_false(f, facts, memo):
                fall.append(f.name)
    rep.extra.setdefault('fallible_events', {})[facts.config] = sorted(set(x.split('<')[0] + '::' + x.rsplit('::', 1)[-1] for x in fall))
    return fa


def _sym_member(names):
    def sym(e):
        if e.get('k') == 'member' and is_this_member(e) and e['name'] in names:
            return e['name']
        if e.get('k') == 'ref' and e.get('dk') in ('local', 'param'):
            return 'v:' + e['name']
        return None
    return sym


def clause_b(facts, rep):
    """stores into the parser node stack are dominated by a successful node();
    node() bumps np_ only under np_ < cap_; SetUp's cap_ equals the allocated count"""
    n_store = 0
    for f in facts.functions:
        if f.cls_qn not in ('sonic_json::SAXHandler', 'sonic_json::SchemaHandler'):
            continue
        # stack subscripts  st_[np_ - 1]
        sites = []
        for bid, i, s, e in f.walk():
            if e.get('k') == 'sub' and is_this_member(strip(e['base']), 'st_'):
                idx = linear(e['idx'], _sym_member({'np_'}))
                if idx is not None and idx.get('np_') == 1:
                    sites.append((bid, i, e, idx))
        if f.id in push_fn_ids(facts, f.cls_qn):
            # np_++ / np_ += 1 dominated by cap_ - np_ >= 1
            def gen_edge(b, cond, sense):
                m = guard_lower_bound(cond, sense, _sym_member({'np_', 'cap_'}), 'cap_', 'np_')
                return ['room'] if (m is not None and m >= 1) else []
            M = Must(f, gen_edge=gen_edge)
            found = 0
            for bid, i, s in f.stmts():
                for e in walk(s):
                    if e.get('k') == 'un' and e['op'] in ('++',) and is_this_member(e['e'], 'np_') or \
                       (e.get('k') == 'bin' and e['op'] in ('+=', '=') and is_this_member(e['l'], 'np_')):
                        found += 1
                        st = M.at(bid, i)
                        if st is None:
                            continue   # unreachable
                        rep.check('room' in st, 'E2.node-guard', f.qn, show(e), locline(e['loc']),
                                  'np_ may grow only under np_ < cap_', facts.config)
            rep.require(found >= 1, 'C02.b: %s: no np_ increment found in node()' % f.name)
            rep.fn(f)
            continue
        if not sites:
            continue
        rep.fn(f)
        node_ids = push_fn_ids(facts, f.cls_qn)

        def gen_edge(b, cond, sense, node_ids=node_ids):
            c = strip_expect(cond)
            neg = False
            while c is not None and c.get('k') == 'un' and c['op'] == '!':
                neg = not neg
                c = strip_expect(c['e'])
            if c is not None and c.get('k') == 'call' and c.get('cid') in node_ids:
                if sense != neg:
                    return ['pushed']
            return []

        def kill_stmt(s):
            # a store that lowers / rewrites np_ invalidates the token
            for e in walk(s):
                if e.get('k') == 'bin' and e['op'] in ('=', '-=', '+=') and is_this_member(e['l'], 'np_'):
                    return ['pushed']
                if e.get('k') == 'un' and e['op'] in ('--', '++') and is_this_member(e['e'], 'np_'):
                    return ['pushed']
            return []
        M = Must(f, gen_edge=gen_edge, kill_stmt=kill_stmt)
        for bid, i, e, idx in sites:
            if idx.get(1, 0) != -1:
                # st_[np_ + k], k != -1 is outside the slot the push reserved
                rep.fail('E2.stack-store', f.qn, show(e), locline(e['loc']), 'stack slot index is not np_ - 1', facts.config)
                continue
            st = M.at(bid, i)
            if st is None:
                continue   # unreachable
            n_store += 1
            rep.check('pushed' in st, 'E2.stack-store', f.qn, show(e), locline(e['loc']),
                      'access to st_[np_-1] must be dominated by the success edge of node()', facts.config)
    rep.min_instances('E2.stack-store', 20)
    rep.min_instances('E2.node-guard', 2)
    # SetUp: capacity recorded == elements allocated
    for f in facts.functions:
        if f.short != 'SetUp' or f.cls_qn not in ('sonic_json::SAXHandler', 'sonic_json::SchemaHandler'):
            continue
        rep.fn(f)
        alloc_cnt = None
        for bid, i, s, e in f.walk():
            if e.get('k') == 'call' and e.get('cname') == 'realloc':
                sz = linear(e['args'][1], lambda x: ('v:' + x['name']) if x.get('k') == 'ref' else None)
                if sz:
                    vs = [(k, v) for k, v in sz.items() if k != 1 and v != 0]
                    if len(vs) == 1 and sz.get(1, 0) == 0:
                        alloc_cnt = vs[0]
        if alloc_cnt is None:
            rep.require(False, 'C02.b: %s: realloc size form not recognised' % f.name)
            continue
        var, elem = alloc_cnt
        ok = False
        for bid, i, s in f.stmts():
            s_ = strip(s)
            if s_.get('k') == 'bin' and s_['op'] == '=' and is_this_member(s_['l'], 'cap_'):
                r = linear(s_['r'], lambda x: ('v:' + x['name']) if x.get('k') == 'ref' else None)
                good = r is not None and r.get(var, 0) == 1 and r.get(1, 0) <= 0 and all(k in (var, 1) for k in r)
                rep.check(good, 'E5.setup-cap', f.qn, show(s_), locline(s_['loc']),
                          'cap_ must not exceed the element count passed to realloc (%s x %d bytes)' % (var, elem), facts.config)
                ok = True
        rep.require(ok, 'C02.b: %s: no store to cap_' % f.name)


def clause_c(facts, rep):
    """TearDown destroys st_[i] only under i < np_ and frees st_"""
    for f in facts.functions:
        if f.short != 'TearDown' or f.cls_qn not in ('sonic_json::SAXHandler', 'sonic_json::SchemaHandler'):
            continue
        rep.fn(f)

        def gen_edge(b, cond, sense):
            c = strip_expect(cond)
            if c is None or c.get('k') != 'bin':
                return []
            for var in _loop_vars(f):
                m = guard_lower_bound(cond, sense, _sym_member({'np_'}), 'np_', 'v:' + var)
                if m is not None and m >= 1:
                    return [('lt', var)]
            return []

        def kill_stmt(s):
            out = []
            for e in walk(s):
                if e.get('k') == 'un' and e['op'] in ('++', '--') and strip(e['e']).get('k') == 'ref':
                    out.append(('lt', strip(e['e'])['name']))
                if e.get('k') == 'bin' and e['op'] in ('=', '+=', '-=') and strip(e['l']).get('k') == 'ref':
                    out.append(('lt', strip(e['l'])['name']))
            return out
        M = Must(f, gen_edge=gen_edge, kill_stmt=kill_stmt)
        dtors = 0
        frees = 0
        for bid, i, s, e in f.walk():
            if e.get('k') == 'call' and e.get('cname', '').startswith('~'):
                o = strip(e.get('obj'))
                if o is not None and o.get('k') == 'sub' and is_this_member(strip(o['base']), 'st_'):
                    ix = strip(o['idx'])
                    st = M.at(bid, i)
                    if st is None:
                        continue
                    dtors += 1
                    rep.check(ix.get('k') == 'ref' and ('lt', ix['name']) in st, 'E2.teardown', f.qn,
                              show(e), locline(e['loc']), 'destructor index must be below np_', facts.config)
            if e.get('k') == 'call' and e.get('cname') == 'free':
                a = strip(e['args'][0])
                if is_this_member(a, 'st_'):
                    frees += 1
                    rep.ok('E2.teardown', '%s: %s' % (f.qn, show(e)), locline(e['loc']))
        rep.require(dtors >= 1 and frees >= 1, 'C02.c: %s: destructor loop or free(st_) not found' % f.name)


def _loop_vars(f):
    vs = set()
    for bid, i, s in f.stmts():
        s_ = strip(s)
        if s_.get('k') == 'decl':
            for v in s_['vars']:
                vs.add(v['name'])
    return vs


def clause_d(facts, rep, widest, vec_len):
    """padding: the padded text buffers are built by evaluating allocateStringBuffer / allocateSchemaStringBuffer
    (sv/minterp.py with a byte memory; helpers they call are interpreted too) for several text lengths: the block
    requested from the allocator has len + K bytes with one K for all lengths, K covers the widest padded load, the
    text is copied in full, and the three bytes behind it are the sentinel (a byte that is no JSON token, the closing
    quote, a plain byte) - every store inside the block.  Whatever the spelling (index or pointer stores, a shared
    helper, a named padding constant)."""
    from ..minterp import Interp, Unsupported, UndefinedBehaviour
    n = 0
    for f in facts.functions:
        if f.short not in ('allocateStringBuffer', 'allocateSchemaStringBuffer') or len(f.params) != 2:
            continue
        rep.fn(f)
        n += 1
        Ks = set()
        bad_copy = bad_store = None
        sent = None
        TEXT, BASE = 0x2000, 0x100000
        try:
            for L in (0, 1, 5, 63, 64, 100):
                text = bytes((0x41 + (i_ % 23)) for i_ in range(L))
                req = []

                def hook(e, args, env, members):
                    nm = e.get('cname') or ''
                    if nm == 'Malloc' and len(args) == 1 and isinstance(args[0], int):
                        req.append(args[0])
                        for j_ in range(args[0]):
                            it.memory[BASE + j_] = 0xCD
                        it.writable.append((BASE, BASE + args[0]))
                        return BASE
                    return None
                it = Interp(f, facts, call_hook=hook, max_steps=20000)
                it.memory = {TEXT + i_: b_ for i_, b_ in enumerate(text)}
                it.writable = []
                it.written = set()
                r, env, members, _ = it.run({f.params[0]['id']: TEXT, f.params[1]['id']: L}, {'alloc_': 'ALLOC', 'str_': 0, 'schema_str_': 0})
                if r not in (0, None) or len(req) != 1:
                    raise Unsupported('result %r with %d allocation requests' % (r, len(req)))
                Ks.add(req[0] - L)
                got = bytes(it.memory[BASE + i_] for i_ in range(L))
                if got != text or not all((BASE + i_) in it.written for i_ in range(L)):
                    bad_copy = 'text of %d bytes: the buffer starts with %r' % (L, got[:16])
                tail = [it.memory.get(BASE + L + k_) if (BASE + L + k_) in it.written else None for k_ in range(3)]
                extra = sorted(a_ - BASE - L for a_ in it.written if a_ >= BASE + L + 3)
                if sent is None:
                    sent = tail
                elif sent != tail:
                    bad_store = 'sentinel differs between lengths: %r / %r' % (sent, tail)
                if extra and min(extra) < 3:
                    bad_store = 'stores at offsets %s behind the text' % extra[:4]
        except UndefinedBehaviour as ex:
            rep.check(False, 'E5.padding', f.qn, 'stores stay inside the requested block', f.loc, 'undefined behaviour: %s' % ex, facts.config)
            continue
        except Unsupported as ex:
            rep.require(False, 'C02.d: %s cannot be evaluated: %s' % (f.name, ex))
            continue
        if len(Ks) != 1:
            rep.check(False, 'E5.padding', f.qn, 'Malloc(len + K) with one K', f.loc, 'padding differs between lengths: %s' % sorted(Ks), facts.config)
            continue
        K = Ks.pop()
        # Every padded scanner stops at the sentinel: a block load therefore starts at an index <= len
        # (white space / digits / literals: byte 0 of the sentinel is none of them) or <= len + 1
        # (string blocks: the sentinel quote at len + 1 ends the literal).
        rep.check(K >= widest and K >= vec_len + 2 and K >= 3, 'E5.padding', f.qn, 'Malloc(len + %d)' % K, f.loc,
                  'padding %d must cover the widest padded-input load (%d bytes starting at index <= len), a string block '
                  '(%d bytes starting at <= len+1) and the 3 sentinel bytes' % (K, widest, vec_len),
                  facts.config)
        rep.check(bad_copy is None, 'E5.padding', f.qn, 'the whole text is copied', f.loc, bad_copy or '', facts.config)
        b = sent or [None, None, None]
        rep.check(bad_store is None and all(x is not None for x in b), 'E5.sentinel', f.qn, 'sentinel offsets %s' % [k_ for k_ in range(3) if b[k_] is not None], f.loc,
                  bad_store or 'sentinel must occupy [len, len+3)', facts.config)
        structural = set(b'[]{},:" \t\r\n0123456789-+.eEtrufalsn\\')
        rep.check(b[1] == ord('"') and b[0] is not None and b[0] not in structural and b[0] >= 0x20
                  and b[2] is not None and b[2] >= 0x20 and b[2] not in structural,
                  'E5.sentinel', f.qn, 'sentinel bytes %r' % (b,), f.loc,
                  "byte 0 must be no JSON token byte, byte 1 the closing quote, byte 2 a plain byte", facts.config)
    rep.require(n >= 2, 'C02.d: padded buffer allocators not found')


def widest_load(facts, files=('skip.inc.h', 'quote.inc.h', 'str2int.h')):
    """widest vector load constructor used by the padded scanners, from the
    primitive table (see sv/primitives.py)"""
    from ..primitives import LOAD_WIDTH
    w = 0
    for f in facts.functions:
        if not any(f.file.endswith(x) for x in files):
            continue
        for bid, i, s, e in f.walk():
            if e.get('k') == 'ctor':
                for key, width in LOAD_WIDTH.items():
                    if e.get('cls', '').endswith(key):
                        w = max(w, width)
            if e.get('k') == 'call' and e.get('cname') in LOAD_WIDTH:
                w = max(w, LOAD_WIDTH[e['cname']])
    return w


def cval_static(s):
    v = s.get('value')
    try:
        return int(v)
    except (TypeError, ValueError):
        return None


def clause_digit_capacity(facts, rep):
    """a number literal with hundreds of digits is converted through the 800-digit Decimal of the slow path: every
    subscript of the digit array stays below its capacity and the digit count never exceeds it (zone analysis,
    sv/counted_buf.py; upper side only)"""
    from .. import counted_buf
    a = counted_buf.Analysis(facts, 'Decimal', 'd', 'nd', ('atof_native.h',))
    n = a.run(rep, 'E3.digit-capacity', facts.config)
    rep.require(n >= 12, 'C02.digit-capacity: %d subscripts of the digit array found (>= 12 expected)' % n)


def clause_setup_bound(facts, rep, classes=('sonic_json::SAXHandler', 'sonic_json::SchemaHandler')):
    """'succeeds for every valid text' / the handler never refuses a node of a valid text: SetUp() is evaluated
    (sv/minterp.py) for text lengths 0..400 and a few large ones; the node-stack capacity it records must be at least
    the largest number of simultaneously live nodes a valid text of that length can have, (len + 1) / 2 - the root
    costs one byte, every further node at least two ("[1,1,...,1]", "[[[...[1]...]]]")."""
    from ..minterp import Interp, Unsupported, UndefinedBehaviour
    n = 0
    for f in facts.functions:
        if f.short != 'SetUp' or f.cls_qn not in classes or len(f.params) != 1:
            continue
        if 'SAlloc' in f.name or 'SimpleAllocator' in f.name:
            continue
        rep.fn(f)
        bad = None
        cnt = 0
        try:
            for L in list(range(0, 401)) + [1 << 16, (1 << 16) + 1, (1 << 32) + 1, (1 << 40) + 7]:
                def hook(e, args, env, members, L=L):
                    if e.get('cname') in ('size', 'length'):
                        return L
                    if e.get('cname') == 'realloc':
                        return 0x10000
                    return None
                for prev_cap in (0, 16):
                    mem = {'st_': 0 if prev_cap == 0 else 0x8000, 'cap_': prev_cap, 'np_': 0}
                    r = Interp(f, facts, call_hook=hook).run({f.params[0]['id']: ('sv', L)}, mem)
                    cnt += 1
                    cap = r[2].get('cap_')
                    need_ = (L + 1) // 2
                    if not r[0] or cap is None or cap < need_:
                        bad = bad or 'text length %d (previous capacity %d): SetUp returns %s with capacity %s, a valid text of that length can have %d live nodes' % (L, prev_cap, r[0], cap, need_)
        except UndefinedBehaviour as ex:
            bad = 'undefined behaviour: %s' % ex
        except Unsupported as ex:
            raise AnalysisBroken('C02: %s cannot be evaluated: %s' % (f.name, ex))
        n += 1
        rep.check(bad is None, 'E5.setup-bound', f.qn, 'capacity after SetUp(len) >= (len + 1) / 2 for %d evaluated lengths' % cnt, f.loc, bad or '', facts.config)
    rep.require(n >= len(classes), 'C02: SetUp of the SAX handlers found: %d (%d expected)' % (n, len(classes)))


def run(rep, tier):
    configs = ['K1'] if tier == 'quick' else ['K1', 'K2', 'K3', 'K4', 'K7']
    for cfg in configs:
        facts = get_facts(cfg)
        rep.unit(facts)
        clause_a(facts, rep)
        clause_b(facts, rep)
        clause_c(facts, rep)
        clause_e(facts, rep)
        clause_f(facts, rep)
        w = widest_load(facts)
        rep.require(w >= 16, 'C02.d: no vector load found in the padded scanners (%s)' % cfg)
        vec_len = widest_load(facts, ('quote.inc.h',))
        rep.require(vec_len >= 16, 'C02.d: no vector load found in the string scanner (%s)' % cfg)
        clause_d(facts, rep, w, vec_len)
        # 'with the pooling allocator': a pool chunk created for a request must cover it (shared with C16)
        from . import c16
        c16.chunk_size_rule(facts, rep)
        c16.clause_a(facts, rep, '')       # a pool on a user buffer: the capacity accounts for the alignment skip
        clause_digit_capacity(facts, rep)
        clause_setup_bound(facts, rep)
        # a malformed \\u escape must be rejected or it swallows the sentinel quote: the encoder's range test (shared with C05)
        from . import c05 as _c05
        _c05.clause_c(facts, rep, tier)
        # ... and a raw control byte must stop the string scanner before it steps over the closing quote / the sentinel
        _c05.clause_e(facts, rep, ('::avx2::',) if cfg in ('K1', 'K2', 'K7') else ('::sse::',) if cfg == 'K3' else ('::avx2::', '::sse::'))
        c16.round_up_rule(facts, rep)      # ... and the rounded size is never below the request
    rep.min_instances('E1.status', 20)
    rep.trust('clang 14 parser/template instantiation/CFG builder', 'sv/primitives.py load widths',
              'libc realloc/free/memcpy semantics')
    rep.assumptions += [
        'decides clauses (a)-(d) of DESIGN.md C02 only: event-status discipline, node-stack stores dominated by a successful push, TearDown bounds, padding/sentinel constants',
        'does not decide absence of undefined behaviour in general, nor that End* counts equal the nodes above the parent',
    ]


_PUSH_CACHE = {}


def push_fn_ids(facts, cls_qn):
    """the handler's slot-reserving helper, by role: a parameterless method of the class that advances np_ by one
    (node() in the pinned source) - whatever it is called"""
    key_ = (id(facts), cls_qn)
    if key_ in _PUSH_CACHE:
        return _PUSH_CACHE[key_]
    out = set()
    _PUSH_CACHE[key_] = out
    for g in facts.functions:
        if g.cls_qn != cls_qn or g.params or g.d.get('ctor'):
            continue
        inc = False
        other = False
        for _, _, _, e in g.walk():
            if (e.get('k') == 'un' and e.get('op') == '++' and is_this_member(e['e'], 'np_')) or \
               (e.get('k') == 'bin' and e.get('op') == '+=' and is_this_member(e['l'], 'np_') and cval(e['r']) == 1):
                inc = True
            if e.get('k') == 'sub' and is_this_member(strip(e.get('base')), 'st_'):
                other = True
        if inc and not other:
            out.add(g.id)
    return out


def clause_e(facts, rep):
    """every slot that a successful node() adds below np_ is given a node type before the
    event returns: TearDown runs ~NodeType() on all of st_[0, np_) and destroy() switches on
    the type, so an untyped (stale or uninitialised) slot is acted upon."""
    TYPERS = ('setLength', 'setType', 'setRaw')
    n = 0
    for f in facts.functions:
        if f.cls_qn not in ('sonic_json::SAXHandler', 'sonic_json::SchemaHandler') or f.id in push_fn_ids(facts, f.cls_qn):
            continue
        node_ids = push_fn_ids(facts, f.cls_qn)
        if not any(e.get('cid') in node_ids for _, _, _, e in f.calls()):
            continue
        rep.fn(f)
        aliases = set()   # locals initialised with &st_[np_-1]

        def is_slot(e):
            e = strip(e)
            if e is None:
                return False
            if e.get('k') == 'un' and e['op'] == '&':
                return is_slot_lv(e['e'])
            if e.get('k') == 'ref' and e.get('id') in aliases:
                return True
            return False

        def is_slot_lv(e):
            e = strip(e)
            if e is None:
                return False
            if e.get('k') == 'sub' and is_this_member(strip(e['base']), 'st_'):
                idx = linear(e['idx'], _sym_member({'np_'}))
                return idx is not None and idx.get('np_') == 1 and idx.get(1, 0) == -1
            if e.get('k') == 'un' and e['op'] == '*':
                return is_slot(e['e'])
            if e.get('k') == 'ref' and e.get('id') in ref_aliases:
                return True
            return False
        ref_aliases = set()     # reference locals bound to st_[np_-1]
        for bid, i, s in f.stmts():
            s_ = strip(s)
            if s_.get('k') == 'decl':
                for v in s_['vars']:
                    if v.get('init') is not None and v['t'].rstrip().endswith('&') and not v['t'].rstrip().endswith('&&'):
                        if is_slot_lv(v['init']):
                            ref_aliases.add(v['id'])
                        continue
                    if v.get('init') is not None and '*' in v['t']:
                        ini = strip(v['init'])
                        if is_slot(ini) or (ini.get('k') == 'new' and any(is_slot(a) for a in ini.get('placement', []))):
                            aliases.add(v['id'])

        def kill_edge(b, cond, sense, node_ids=node_ids):
            c = strip_expect(cond)
            neg = False
            while c is not None and c.get('k') == 'un' and c['op'] == '!':
                neg = not neg
                c = strip_expect(c['e'])
            if c is not None and c.get('k') == 'call' and c.get('cid') in node_ids and sense != neg:
                return ['clean']
            return []

        def gen_stmt(s):
            for e in walk(s):
                if e.get('k') == 'new' and any(is_slot(a) for a in e.get('placement', [])):
                    return ['clean']
                if e.get('k') == 'call' and e.get('cname') in TYPERS and e.get('obj') is not None:
                    o = strip(e['obj'])
                    if is_slot_lv(o) or is_slot(o):
                        return ['clean']
            return []
        M = Must(f, gen_stmt=gen_stmt, kill_edge=kill_edge, entry=frozenset(['clean']))
        for bid, i, s in f.stmts():
            s_ = strip(s)
            if s_.get('k') == 'ret':
                st = M.at(bid, i)
                if st is None:
                    continue
                c = cval(s_.get('e'))
                if c == 0:
                    continue   # failure return: the parse stops (clause a) and np_ was not raised on this path
                n += 1
                rep.check('clean' in st, 'E2.slot-init', f.qn, 'return after a push', locline(s_['loc']),
                          'the slot added by node() must be given a type (placement new / setLength / setType) before the event returns; '
                          'TearDown destroys every slot below np_', facts.config)
    rep.require(n >= 16, 'C02.e: only %d push-returns analysed' % n)


def clause_f(facts, rep):
    """per-parse scanner state: skip_space caches a block bitmap as offsets into the *current* buffer
    (SkipScanner::nonspace_bits_end_/nonspace_bits_), and Parser::reset() does not clear it. Every
    Parser / SkipScanner that a document or on-demand entry point uses must therefore be a fresh
    function-local object (or be re-initialised): a parser object that outlives one parse carries
    offsets of a freed buffer into the next."""
    n = 0
    for f in facts.functions:
        for bid, i, s, e in f.walk():
            if e.get('k') != 'call' or e.get('obj') is None:
                continue
            if e.get('ccls') == PARSER and e.get('cname') in ('Parse', 'ParseLazy') and f.cls_qn != PARSER:
                o = strip(e['obj'])
                n += 1
                local = o is not None and o.get('k') == 'ref' and o.get('dk') == 'local'
                rep.check(local, 'E7.fresh-parser', f.qn, show(e)[:80], locline(e['loc']),
                          'the Parser object must be a function-local automatic variable (its white-space cache is only valid for one buffer)', facts.config)
            if e.get('ccls') == 'sonic_json::internal::SkipScanner' and f.cls_qn not in (PARSER, 'sonic_json::internal::SkipScanner'):
                o = strip(e['obj'])
                n += 1
                local = o is not None and o.get('k') == 'ref' and o.get('dk') == 'local'
                rep.check(local, 'E7.fresh-parser', f.qn, show(e)[:80], locline(e['loc']),
                          'the SkipScanner object must be a function-local automatic variable', facts.config)
        rep.fn(f) if False else None
    # ... and serves one buffer only: no second parse-entry call on the same object is reachable from the first
    # without passing through the object's declaration again (a loop around both, or two calls in sequence)
    for f in facts.functions:
        if f.cls_qn in (PARSER, 'sonic_json::internal::SkipScanner'):
            continue
        sites = {}
        for bid, i, s, e in f.walk():
            if e.get('k') == 'call' and e.get('obj') is not None and (
                    (e.get('ccls') == PARSER and e.get('cname') in ('Parse', 'ParseLazy')) or
                    (e.get('ccls') == 'sonic_json::internal::SkipScanner' and e.get('cname') in ('GetOnDemand',))):
                o = strip(e['obj'])
                if o is not None and o.get('k') == 'ref' and o.get('dk') == 'local':
                    sites.setdefault(o['id'], []).append((bid, i, e))
        for oid, cs in sites.items():
            decl = None
            for bid, i, s in f.stmts():
                s_ = strip(s)
                if s_ is not None and s_.get('k') == 'decl' and any(vd['id'] == oid for vd in s_['vars']):
                    decl = bid
            def reach(src, dst_set):
                seen, work = set(), [x for x in f.blocks[src]['succs'] if x is not None]
                while work:
                    b = work.pop()
                    if b in seen or b == decl:
                        continue
                    seen.add(b)
                    if b in dst_set:
                        return True
                    work += [x for x in f.blocks[b]['succs'] if x is not None]
                return False
            blocks = [b for b, _, _ in cs]
            reused = None
            for k, (bid, i, e) in enumerate(cs):
                others = set(b for j, (b, _, _) in enumerate(cs) if j != k)
                same_block_later = any(b == bid and ii > i for j, (b, ii, _) in enumerate(cs) if j != k)
                if same_block_later or reach(bid, others | {bid}):
                    reused = e
                    break
            n += 1
            rep.check(reused is None, 'E7.fresh-parser', f.qn, 'one buffer per parser/scanner object (%d entry call(s))' % len(cs), locline(cs[0][2]['loc']),
                      'a second parse on the same object (%s) is reachable without re-creating it: its white-space cache still describes the previous buffer' % (show(reused)[:60] if reused else ''), facts.config)
    # inside Parser, the scanner is the by-value member of the (fresh) parser
    for c in facts.classes:
        if c['qn'] == PARSER:
            sc = [x for x in c['fields'] if 'SkipScanner' in x['t']]
            rep.check(len(sc) == 1 and '*' not in sc[0]['t'] and '&' not in sc[0]['t'], 'E7.fresh-parser', PARSER, 'scanner member %s' % [x['t'] for x in sc],
                      locline(c['loc']), 'the scanner must be owned by value by the parser', facts.config)
            n += 1
            break
    # and no static-storage Parser / SkipScanner anywhere
    for s in facts.statics:
        if 'Parser' in s['t'] or 'SkipScanner' in s['t']:
            rep.fail('E7.fresh-parser', s.get('func') or s['qn'], 'static %s %s' % (s['t'], s['name']), locline(s['loc']),
                     'a parser/scanner with static storage is shared by all parses', facts.config)
    rep.require(n >= 4, 'C02.f: only %d parser entry call sites found' % n)
