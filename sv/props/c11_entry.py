"""C11 (a)/(e) and C20: zone analysis of the two entry functions that bind their
own cursor / limit locals and decode escaped keys in private buffers:
SkipScanner::GetOnDemand and Parser::parseLazyImpl."""
from ..core import strip, strip_expect, cval, show, walk, locline, AnalysisBroken
from ..e3_zone import ZoneAnalysis, Zone, Lin, Z, lin_add, lin_neg, INF
from ..e3_interval import intervals_for
from ..primitives import LOAD_WIDTH

SCANNER = 'sonic_json::internal::SkipScanner'


def vec_len(facts, ns):
    """VEC_LEN of the string scanner that the entry functions call (width of its vector loads);
    with several candidate kernels (dynamic dispatch) the widest one"""
    w = 0
    nss = ns if isinstance(ns, (tuple, list)) else (ns,)
    for f in facts.functions:
        if f.short == 'parseStringInplace' and any(n in f.qn for n in nss):
            for bid, i, s, e in f.walk():
                if e.get('k') == 'ctor':
                    for key, width in LOAD_WIDTH.items():
                        if width and e.get('cls', '').endswith(key):
                            w = max(w, width)
            # StringBlock::Find(src) loads one vector as well
    return w or None


def hooks_for(za_holder, vlen):
    """hooks modelling std::vector::resize / operator[] sizes and the parseStringInplace contract"""

    def resize(za, e, st, bid, idx):
        o = strip(e.get('obj'))
        if o is None or o.get('k') != 'ref':
            return False
        base = ('vec', o['id'], o.get('name'))
        sz = za.lin(e['args'][0], st)
        za.set_size(st, base, sz)
        # pointers into the old storage are invalidated
        for k in [k for k, v in st['ptr'].items() if v[0][:2] == base[:2]]:
            del st['ptr'][k]
        st.setdefault('filled', {}).pop(base[:2], None)
        return True

    def memcpy(za, e, st, bid, idx):
        # record what was copied into a private buffer, then let the generic handler check the ranges
        args = e['args']
        dst = za.ptr_of(args[0], st)
        src = za.ptr_of(args[1], st)
        ln = za.lin(args[2], st)
        if dst is not None and dst[0][0] in ('vec', 'heap') and src is not None and ln is not None and dst[1] is not None:
            st.setdefault('filled', {})[dst[0][:2]] = dict(src=src, ln=ln, dst_off=dst[1], loc=locline(e['loc']), expr=show(e)[:80])
        return False

    def psi(za, e, st, bid, idx):
        """parseStringInplace(p, err): scans from p to the closing quote with VEC_LEN-byte block loads.
        Contract for a private buffer: (i) it contains the closing quote the scanner of the caller's buffer found
        (the copy reaches the cursor), (ii) VEC_LEN - 1 bytes of the buffer follow the quote."""
        a0 = e['args'][0]
        p = za.ptr_of(a0, st)
        loc = locline(e['loc'])
        if p is None:
            za.obligations.append(('decode-buffer', show(e)[:80], loc, False, 'pointer provenance unknown'))
            return True
        base = p[0]
        if base[0] in ('vec', 'heap'):
            info = st.get('filled', {}).get(base[:2])
            if info is None:
                za.obligations.append(('decode-buffer', show(e)[:80], loc, False, 'no copy into the private buffer dominates the decode'))
            else:
                src_base, src_off = info['src']
                end = lin_add(src_off, info['ln'])          # one past the last copied source byte
                pos = Lin(za.roles['pos'], Z, 0)
                ok1 = za.is_buffer(src_base) and end is not None and za.entails(st, end, '>=', pos)
                za.obligations.append(('decode-buffer', 'closing quote copied: %s' % info['expr'], info['loc'], bool(ok1),
                                       'the private copy must reach the cursor (the byte at pos-1 is the closing quote SkipString found): need %s >= %s ; known: %s' % (
                                           za.pp(end), za.pp(pos), za.ppz(st['z']))))
                size = za.size_of(st, base)
                need = lin_add(lin_add(info['dst_off'], info['ln']), Lin(Z, Z, vlen - 1))
                ok2 = size is not None and need is not None and za.entails(st, need, '<=', size)
                za.obligations.append(('decode-buffer', 'slack after the quote: buffer of %s' % (za.pp(size) if size else '?'), info['loc'], bool(ok2),
                                       'a %d-byte block load may start at the quote: need %s <= %s ; known: %s' % (vlen, za.pp(need), za.pp(size) if size else '?', za.ppz(st['z']))))
            if info is not None:
                # contract (C05): in-place unescaping never grows the text: result <= bytes before the quote = copied - 1
                st.setdefault('ret_ub', {})[id(e)] = lin_add(info['ln'], Lin(Z, Z, -1))
        # the pointer argument is advanced by the callee; the by-reference error is written
        t = strip(a0)
        if t is not None and t.get('k') == 'ref':
            st['ptr'].pop(t['id'], None)
        return True

    return {'resize': resize, 'memcpy': memcpy, 'parseStringInplace': psi}


def analyse_entry(facts, fam, f, rep, bind, vlen, pre_pos_le_len=True):
    iv = intervals_for(facts, f, fam.tables, depth=0)
    roles = bind(f)
    if roles is None:
        rep.require(False, 'C11: roles of %s not bound' % f.name)
        return None
    za = ZoneAnalysis(f, facts, iv, roles, summaries=fam.summaries, hooks=hooks_for(None, vlen))
    st = za.new_state()
    z = st['z']
    if roles.get('pos_is_param'):
        z.add(Z, roles['pos'], 0)
        if pre_pos_le_len:
            # entry condition pos <= json.size(); `len` is bound to that size by its initialiser
            sz = 'size:%d' % roles['data_id']
            za.vname[sz] = 'json.size()'
            z.add(Z, sz, 0)
            z.add(roles['pos'], sz, 0)
    za.vname[roles['pos']] = 'pos'
    za.vname[roles['len']] = 'len'
    if not roles.get('pos_is_param'):
        z.add(Z, roles['len'], 0)      # size_t parameter
    za.run(st)
    return za


def bind_getondemand(f):
    pos = [p for p in f.params if p['name'] == 'pos']
    json = [p for p in f.params if 'string_view' in p['t'] or 'StringView' in p['t']]
    ln = data = None
    for bid, i, s in f.stmts():
        s_ = strip(s)
        if s_.get('k') == 'decl':
            for v in s_['vars']:
                ini = v.get('init')
                if ini is None:
                    continue
                for x in walk(ini):
                    if x.get('k') == 'call' and x.get('cname') == 'size' and json and strip(x.get('obj')).get('id') == json[0]['id']:
                        ln = v
                    if x.get('k') == 'call' and x.get('cname') == 'data' and json and strip(x.get('obj')).get('id') == json[0]['id']:
                        data = v
    if not (pos and json and ln and data):
        return None
    return dict(data_id=json[0]['id'], pos='v%d' % pos[0]['id'], len='v%d' % ln['id'], pos_is_param=True, pos_id=pos[0]['id'])


def bind_parselazy(f):
    pn = {p['name']: p for p in f.params}
    if 'data' not in pn or 'len' not in pn:
        return None
    pos = None
    for bid, i, s in f.stmts():
        s_ = strip(s)
        if s_.get('k') == 'decl':
            for v in s_['vars']:
                if v['name'] == 'pos':
                    pos = v
    if pos is None:
        return None
    return dict(data_id=pn['data']['id'], pos='v%d' % pos['id'], len='v%d' % pn['len']['id'], pos_id=pos['id'])


def report(fam, f, za, rep, facts, rules=('E3.read', 'E3.decode-buffer')):
    rep.fn(f)
    seen = set()
    for what, ex, loc, ok, detail in za.obligations:
        key = (what, ex, loc)
        if key in seen and ok:
            continue
        seen.add(key)
        rule = 'E3.decode-buffer' if what == 'decode-buffer' else 'E3.read'
        rep.check(ok, rule, f.qn, '%s: %s' % (what, ex), loc, detail, facts.config)
    for callee, loc, ok, detail in za.call_pre:
        key = ('pre', callee, loc, detail[:30])
        if key in seen and ok:
            continue
        seen.add(key)
        rep.check(ok, 'E3.call-pre', f.qn, 'call of %s' % callee, loc, detail, facts.config)


def check(facts, rep, fam, only=None):
    ns = fam.ns
    vlen = vec_len(facts, ns)
    rep.require(vlen is not None, 'C11.e: VEC_LEN of parseStringInplace not bound')
    if vlen is None:
        return
    n = 0
    for f in facts.functions:
        if f.cls_qn == SCANNER and f.short == 'GetOnDemand' and (only in (None, 'GetOnDemand')):
            za = analyse_entry(facts, fam, f, rep, bind_getondemand, vlen)
            if za:
                report(fam, f, za, rep, facts)
                n += 1
        if f.cls_qn == 'sonic_json::Parser' and f.short == 'parseLazyImpl' and (only in (None, 'parseLazyImpl')):
            za = analyse_entry(facts, fam, f, rep, bind_parselazy, vlen)
            if za:
                report(fam, f, za, rep, facts)
                n += 1
    rep.require(n >= (2 if only is None else 1), 'C11: entry functions analysed: %d' % n)
    # the free GetOnDemand starts the scan at 0
    for f in facts.functions:
        if f.qn == 'sonic_json::GetOnDemand':
            ok = False
            for bid, i, s in f.stmts():
                s_ = strip(s)
                if s_.get('k') == 'decl':
                    for v in s_['vars']:
                        if v['name'] == 'pos' and cval(v.get('init')) == 0:
                            ok = True
            rep.check(ok, 'E3.call-pre', f.qn, 'scan starts at offset 0', f.loc, 'the cursor handed to SkipScanner::GetOnDemand must be 0 <= len', facts.config)
