"""C04 — Numbers parse to the exact integer or correctly rounded double: clauses
(a) every row of every power-of-ten table, (b) every subscript into those tables
in range on all paths, (c) fast-path guard constants inside their proven-safe
region, (d) the truncation flag is monotone, (e) the Eisel-Lemire path cannot
store an Inf/NaN exponent and the fallback result is screened for infinity
(DESIGN.md section 5/C04)."""
from ..core import get_facts, strip, strip_expect, cval, show, walk, locline, is_this_member, AnalysisBroken
from ..e5_tables import (arr, find_static, check_rows, pow10_m128_floor, double_bits)
from ..e3_interval import check_table_subscripts, intervals_for, table_value_ranges, INF

NS = 'sonic_json::internal::'
PARSER = 'sonic_json::Parser'


def tab(facts, rep, name):
    ss = find_static(facts, name=name)
    rep.require(len(ss) >= 1, 'C04: table %s not found' % name)
    return ss[0] if ss else None


def clause_a(facts, rep):
    s = tab(facts, rep, 'kPow10M128Tab')
    if s:
        v = s['value']
        rows = [arr(x) for x in v['arr']]
        rep.extra['kPow10M128Tab_initialised_rows'] = len(rows)
        want = []
        for e in range(-348, -348 + len(rows)):
            m = pow10_m128_floor(e)
            want.append([m & (2**64 - 1), m >> 64])
        check_rows(rep, 'E5.table', s['qn'], 'kPow10M128Tab', locline(s['loc']), rows, want, facts.config,
                   '{lo, hi} of floor(10^e * 2^(127 - floor(log2 10^e))), e = -348 + row',
                   show=lambda r: '{0x%016X, 0x%016X}' % (r[0], r[1]))
        rep.check(len(rows) >= 696, 'E5.table', s['qn'], 'kPow10M128Tab covers e = -348..347', locline(s['loc']),
                  '%d initialised rows' % len(rows), facts.config)
    s = tab(facts, rep, 'kPow10Tab')
    if s:
        got = [x[1] for x in arr(s['value'])]
        want = [double_bits(float(10 ** i)) for i in range(len(got))]
        rep.check(all(10 ** i == int(float(10 ** i)) for i in range(len(got))), 'E5.table', s['qn'], 'every kPow10Tab entry is an exactly representable power of ten',
                  locline(s['loc']), '%d entries' % len(got), facts.config)
        check_rows(rep, 'E5.table', s['qn'], 'kPow10Tab', locline(s['loc']), got, want, facts.config, 'the IEEE-754 bits of 10^i')
    s = tab(facts, rep, 'LSHIFT_TAB')
    if s:
        rows = arr(s['value'])
        got = [(r[0], bytes(x for x in r[1] if x != 0)) for r in rows]
        want = [(0, b'')] + [(len(str(2 ** k)), str(5 ** k).encode()) for k in range(1, len(rows))]
        check_rows(rep, 'E5.table', s['qn'], 'LSHIFT_TAB', locline(s['loc']), got, want, facts.config,
                   '{digits of 2^k, decimal spelling of 5^k}', show=repr)
        rep.check(all(len(r[1]) > len(w[1]) for r, w in zip(rows, want)), 'E5.table', s['qn'], 'every cutoff string is NUL terminated inside its array',
                  locline(s['loc']), '', facts.config)
    s = tab(facts, rep, 'kUint8PopCnt')
    if s:
        check_rows(rep, 'E5.table', s['qn'], 'kUint8PopCnt', locline(s['loc']), arr(s['value']), [i.bit_length() for i in range(256)],
                   facts.config, 'bit_length(i)')
    s = tab(facts, rep, 'kPowTab')
    if s:
        got = arr(s['value'])
        ok = all(1 <= x <= 60 for x in got) and all(2 ** x <= 10 ** (i + 1) for i, x in enumerate(got)) and got == sorted(got)
        rep.check(ok, 'E5.table', s['qn'], 'kPowTab[i] in [1, MAX_SHIFT], non-decreasing, 2^kPowTab[i] <= 10^(i+1)', locline(s['loc']), str(got), facts.config)
    # the local pow10[] in parseNumber
    n = 0
    seen = set()
    for f in facts.functions:
        if f.cls_qn != PARSER or f.short != 'parseNumber':
            continue
        for bid, i, s_ in f.stmts():
            s2 = strip(s_)
            if s2.get('k') == 'decl':
                for v in s2['vars']:
                    if v['name'] == 'pow10' and v.get('init') is not None and v['loc'] not in seen:
                        seen.add(v['loc'])
                        vals = [cval(a) for a in strip(v['init']).get('args', [])]
                        n += 1
                        rep.check(vals == [10 ** k for k in range(len(vals))] and len(vals) >= 18, 'E5.table', f.qn, 'local pow10[k] == 10^k (k < %d)' % len(vals),
                                  locline(v['loc']), str(vals[:4]) + '...', facts.config)
    rep.require(n >= 1, 'C04.a: local pow10 table of parseNumber not found')


def clause_b(facts, rep):
    s = tab(facts, rep, 'kPow10M128Tab')
    if s:
        init_rows = len(s['value']['arr'])
        check_table_subscripts(facts, rep, 'E3.table-index', s['qn'], init_rows, min_sites=4)
    s = tab(facts, rep, 'kPow10Tab')
    if s:
        check_table_subscripts(facts, rep, 'E3.table-index', s['qn'], len(s['value']['arr']), min_sites=4)
    s = tab(facts, rep, 'LSHIFT_TAB')
    if s:
        check_table_subscripts(facts, rep, 'E3.table-index', s['qn'], len(s['value']['arr']), min_sites=2)
    s = tab(facts, rep, 'kPowTab')
    if s:
        check_table_subscripts(facts, rep, 'E3.table-index', s['qn'], len(s['value']['arr']), min_sites=2)
    s = tab(facts, rep, 'kUint8PopCnt')
    if s:
        check_table_subscripts(facts, rep, 'E3.table-index', s['qn'], 256, min_sites=0)
    # local pow10[fract_len]
    tables = table_value_ranges(facts)
    n = 0
    seen = set()
    for f in facts.functions:
        if f.cls_qn != PARSER or f.short != 'parseNumber':
            continue
        iv = None
        for bid, i, s_, e in f.walk():
            if e.get('k') == 'sub':
                b = strip(e['base'])
                if b is not None and b.get('k') == 'ref' and b.get('name') == 'pow10' and b.get('dk') == 'local':
                    if locline(e['loc']) in seen:
                        continue
                    seen.add(locline(e['loc']))
                    if iv is None:
                        # simd_str2int(s, n&) only ever lowers n (contract: n := number of leading digits <= n)
                        iv = intervals_for(facts, f, tables)
                    st = iv.at(bid, i)
                    if st is None:
                        continue
                    r = iv.ev(e['idx'], dict(st))
                    n += 1
                    size = int(b['t'].split('[')[1].split(']')[0]) if '[' in b.get('t', '') else 18
                    rep.check(r[0] >= 0 and r[1] < size, 'E3.table-index', f.qn, show(e), locline(e['loc']),
                              'index range [%s, %s] must lie in [0, %d)' % (r[0], r[1], size), facts.config)
    rep.require(n >= 1, 'C04.b: pow10[fract_len] subscript not found')


def clause_c(facts, rep, raw=None):
    """guards of the exact fast paths (facts: normalised view for the range / dominance parts; raw: bodies as written for
    the parts that bind a named accumulator)"""
    n = 0
    seen = set()
    raw_by_name = {g.name: g for g in (raw or facts).functions}
    for f in facts.functions:
        if f.cls_qn != PARSER or f.short != 'parseNumber':
            continue
        if f.name.split('<')[0] in seen:
            continue
        seen.add(f.name.split('<')[0])
        rep.fn(f)
        tables = table_value_ranges(facts)
        iv = intervals_for(facts, f, tables)
        for bid, i, s, e in f.walk():
            if e.get('k') == 'call' and e.get('cname') == 'parseFloatingFast':
                st = iv.at(bid, i)
                if st is None:
                    continue
                ex = iv.ev(e['args'][1], dict(st))
                n += 1
                # Clinger: |exp10| <= 22 exact for one multiply/divide; exp10 in (22, 22+15] needs the product man*10^(exp10-22) < 2^53, which
                # parseFloatingFast re-checks (d <= 1e15); the mantissa must be < 2^53 to be an exact double
                rep.check(ex[0] >= -22 and ex[1] <= 22 + 15, 'E5.fast-guard', f.qn, 'exp10 range at %s' % show(e), locline(e['loc']),
                          'range %s must be inside [-22, 37]' % (ex,), facts.config)
                # mantissa guard: a dominating  (man >> k) == 0 with k <= 53
                ok = False
                M = man_shift_guard(f)
                stt = M.at(bid, i) if M else None
                rep.check(stt is not None and 'man53' in stt, 'E5.fast-guard', f.qn, 'mantissa below 2^53 at %s' % show(e), locline(e['loc']),
                          'the exact path needs an exactly representable mantissa: (man >> k) == 0 with k <= 53 must dominate', facts.config)
            if e.get('k') == 'call' and e.get('cname') == 'ParseFloatingNormalFast':
                st = iv.at(bid, i)
                if st is None:
                    continue
                ex = iv.ev(e['args'][1], dict(st))
                n += 1
                # ParseFloatingNormalFast (yyjson) builds a *normal* double from a <=19 digit mantissa: needs man*10^exp10 >= 2^-1022 (exp10 >= -307 suffices
                # for man >= 1) and < 2^1024 (exp10 <= 308 - 20 for man < 10^20)
                rep.check(ex[0] >= -307 and ex[1] <= 288, 'E5.fast-guard', f.qn, 'exp10 range at %s' % show(e), locline(e['loc']),
                          'range %s must be inside [-307, 288] so the result is a normal, finite double' % (ex,), facts.config)
        # integer / double decision constants
        consts = {}
        for bid, i, s, e in f.walk():
            if e.get('k') == 'bin' and e['op'] in ('>', '<', '==', '<=') and cval(e['r']) is not None and cval(e['r']) > 2 ** 31:
                consts.setdefault(cval(e['r']), locline(e['loc']))
        want = {2 ** 63: 'INT64_MIN magnitude', (2 ** 64 - 1) // 10: 'floor(UINT64_MAX/10)'}
        for c, why in want.items():
            n += 1
            rep.check(c in consts, 'E5.int-boundary', f.qn, 'comparison against %d (%s)' % (c, why), consts.get(c, f.loc),
                      'large constants compared: %s' % sorted(consts), facts.config)
        # last digit bound for 20-digit numbers: UINT64_MAX % 10 == 5 ; the code must compare against 5
        for bid, i, s, e in raw_by_name.get(f.name, f).walk():
            if e.get('k') == 'bin' and e['op'] == '<=' and strip(e['l']).get('k') == 'ref' and strip(e['l']).get('name') == 'num':
                n += 1
                rep.check(cval(e['r']) == (2 ** 64 - 1) % 10, 'E5.int-boundary', f.qn, 'last-digit bound %s' % show(e), locline(e['loc']),
                          'must be UINT64_MAX %% 10 == 5', facts.config)
    rep.require(n >= 5, 'C04.c: only %d guard obligations found' % n)
    # parseFloatingFast itself: evaluated (sv/minterp.py, IEEE binary64 arithmetic) for mantissas below 2^53 and every
    # exponent the caller admits; whenever it reports success the double must be the correctly rounded value of
    # man * 10^exp10 (exact rational arithmetic) - whatever thresholds / branch order / table accesses it uses
    from ..minterp import Interp, Unsupported, UndefinedBehaviour
    from fractions import Fraction
    for f in facts.functions:
        if f.cls_qn == PARSER and f.short == 'parseFloatingFast' and len(f.params) == 3:
            fr = raw_by_name.get(f.name, f)
            rep.fn(fr)
            mans = [1, 2, 3, 5, 7, 9, 10, 11, 99, 1000, 123456789, 2 ** 53 - 1, 2 ** 53 - 2, 2 ** 52 + 1, 2 ** 52, 10 ** 15, 10 ** 15 - 1, 10 ** 15 + 1, 999999999999999,
                    4503599627370497, 9007199254740881, 8 * 10 ** 15 + 1, 10 ** 14 + 3, 5 ** 22, 5 ** 21 + 2, 3 ** 33]
            x = 0x9E3779B97F4A7C15
            for _ in range(160):
                x = (x * 6364136223846793005 + 1442695040888963407) & ((1 << 64) - 1)
                mans.append((x >> 11) | 1)
                mans.append(((x >> 30) | 1) % (10 ** 9))
            bad = None
            cnt = acc = 0
            try:
                for man in mans:
                    if not 0 < man < 2 ** 53:
                        continue
                    for e10 in range(-22, 38):
                        it = Interp(fr, facts)
                        r, env, _, _ = it.run({fr.params[0]['id']: 0.0, fr.params[1]['id']: e10, fr.params[2]['id']: man}, {})
                        cnt += 1
                        if not r:
                            continue
                        acc += 1
                        got = env.get(fr.params[0]['id'])
                        want = float(man * 10 ** e10) if e10 >= 0 else float(Fraction(man, 10 ** -e10))
                        if got != want:
                            bad = 'man = %d, exp10 = %d: reports success with %r, the correctly rounded value is %r' % (man, e10, got, want)
                            break
                    if bad:
                        break
            except UndefinedBehaviour as ex:
                bad = 'man = %d, exp10 = %d: undefined behaviour: %s' % (man, e10, ex)
            except Unsupported as ex:
                raise AnalysisBroken('C04.c: parseFloatingFast cannot be evaluated: %s' % ex)
            rep.require(acc >= cnt // 3, 'C04.c: parseFloatingFast accepted only %d of %d evaluated inputs (the exact path is expected to take most of them)' % (acc, cnt))
            rep.check(bad is None, 'E5.fast-exact', f.qn, 'every accepted (mantissa < 2^53, exponent in [-22, 37]) gives the correctly rounded double: %d accepted of %d evaluated' % (acc, cnt),
                      f.loc, bad or '', facts.config)
    # Eisel-Lemire range guard constant and log2(10) approximation
    for f in facts.functions:
        if f.qn == NS + 'AtofEiselLemire64' or f.qn == NS + 'ParseFloatingNormalFast':
            rep.fn(f)
            for bid, i, s, e in f.walk():
                if e.get('k') == 'bin' and e['op'] == '>>' and cval(e['r']) == 16:
                    l = strip(e['l'])
                    mul = None
                    for x in walk(l):
                        if x.get('k') == 'bin' and x['op'] == '*':
                            for y in (x['l'], x['r']):
                                if cval(y) is not None and cval(y) > 1000:
                                    mul = cval(y)
                    if mul:
                        import math
                        from fractions import Fraction
                        bad = [e10 for e10 in range(-348, 348) if (mul * e10) >> 16 != floor_log2_10(e10)]
                        rep.check(not bad, 'E5.log-approx', f.qn, '(%d * e) >> 16 == floor(e * log2 10) for e in [-348, 347]' % mul, locline(e['loc']),
                                  'first mismatch %s' % (bad[:1],), facts.config)


def floor_log2_10(e):
    from ..e5_tables import floor_log2_pow10
    return floor_log2_pow10(e)


def man_shift_guard(f):
    from ..e2_dom import Must

    def gen_edge(b, cond, sense):
        c = strip_expect(cond)
        if c is None or c.get('k') != 'bin' or c['op'] not in ('==', '!='):
            return []
        l, r = strip(c['l']), c['r']
        if cval(r) == 0 and l.get('k') == 'bin' and l['op'] == '>>' and strip(l['l']).get('k') == 'ref' and strip(l['l']).get('name') == 'man':
            k = cval(l['r'])
            if k is not None and k <= 53 and ((c['op'] == '==') == sense):
                return ['man53']
        return []

    def kill_stmt(s):
        for e in walk(s):
            if e.get('k') == 'bin' and e['op'] in ('=', '+=', '*=') and strip(e['l']).get('k') == 'ref' and strip(e['l']).get('name') == 'man':
                return ['man53']
        return []
    return Must(f, gen_edge=gen_edge, kill_stmt=kill_stmt)


def clause_decimal_window(facts, rep):
    """the big-decimal fallback short-cuts on the position of the decimal point dp (value = 0.d1d2... x 10^dp with
    d1 != 0, so 10^(dp-1) <= value < 10^dp): 'dp > K' may only declare overflow if 10^K > DBL_MAX, i.e. K >= 309, and
    'dp < K' may only declare zero if 10^(K-1) <= 2^-1075 (half the smallest subnormal), i.e. K <= -323.  A tighter
    bound rejects finite values such as 1.7e308 written with many digits as infinity."""
    n = 0
    for f in facts.functions:
        if f.short != 'DecimalToF64':
            continue
        rep.fn(f)
        seen = set()
        for bid, i, s_, e in f.walk():
            if e.get('k') != 'bin' or e['op'] not in ('>', '<', '>=', '<='):
                continue
            l, r = strip(e['l']), strip(e['r'])
            if l is None or l.get('k') != 'member' or l.get('name') != 'dp' or cval(e['r']) is None:
                continue
            K = cval(e['r'])
            if abs(K) < 100 or locline(e['loc']) in seen:
                continue
            seen.add(locline(e['loc']))
            op = e['op']
            # smallest dp that satisfies (for > / >=) or largest (for < / <=)
            if op in ('>', '>='):
                first = K + 1 if op == '>' else K
                ok = first - 1 >= 309           # value >= 10^(first-1) must exceed DBL_MAX
                why = 'values from 10^%d upwards are declared infinite; DBL_MAX is about 1.8 x 10^308' % (first - 1)
            else:
                last = K - 1 if op == '<' else K
                ok = last <= -324               # value < 10^last must round to zero
                why = 'values below 10^%d are declared zero; half the smallest subnormal is about 2.5 x 10^-324' % last
            n += 1
            rep.check(ok, 'E5.decimal-window', f.qn, show(e), locline(e['loc']), why, facts.config)
    rep.require(n >= 2, 'C04: early-out bounds of DecimalToF64 found: %d (2 expected)' % n)


def clause_decimal_sticky(facts, rep):
    """the big-decimal fallback remembers dropped digits too: in the digit loop of SetDecimal every path on which the
    current character is a digit either stores it into the digit buffer, sets the truncation flag, or is taken only
    for '0'.  A non-zero digit skipped without the flag turns a just-above-halfway number of more than 800 digits into
    an exact tie (round-half-even then rounds it down)."""
    n = 0
    for f in facts.functions:
        if f.short != 'SetDecimal' or 'atof_native' not in f.loc:
            continue
        rep.fn(f)
        heads = [bid for bid, B in f.blocks.items() if B.get('term') and B['term'].get('cls') in ('ForStmt', 'WhileStmt') and B['term'].get('cond') is not None]
        for h in heads:
            start = f.blocks[h]['succs'][0]
            if start is None:
                continue
            paths = []

            def is_char(x):
                return any(y.get('k') == 'sub' for y in walk(x))

            def rec(b, trail, fx):
                if len(paths) > 400 or len(trail) > 40:
                    raise AnalysisBroken('C04: digit loop of SetDecimal too large')
                if b == h:
                    paths.append((trail, fx))
                    return
                B = f.blocks[b]
                fx = set(fx)
                for st in B['stmts']:
                    for y in walk(st):
                        if y.get('k') == 'bin' and y['op'].endswith('=') and y['op'] not in ('==', '!=', '<=', '>='):
                            l = strip(y['l'])
                            if l is not None and l.get('k') == 'sub' and any(z.get('k') == 'member' and z.get('name') == 'd' for z in walk(l)):
                                fx.add('store')
                            if l is not None and l.get('k') == 'member' and l.get('name') == 'trunc' and (cval(y['r']) == 1 or y['op'] == '|='):
                                fx.add('flag')
                    s_ = strip(st)
                    if isinstance(s_, dict) and s_.get('k') == 'ret':
                        return
                t = B.get('term')
                succs = B['succs']
                if t and t.get('cls') == 'BreakStmt':
                    return
                if t and t.get('cond') is not None and len(succs) == 2:
                    c = strip_expect(t['cond'])
                    neg = False
                    while c is not None and c.get('k') == 'un' and c['op'] == '!':
                        neg = not neg
                        c = strip_expect(c['e'])
                    for k, x in enumerate(succs):
                        if x is None or (x != h and x in trail):
                            continue
                        fy = set(fx)
                        sense = (k == 0) != neg
                        if c is not None and c.get('k') == 'bin' and cval(c['r']) is not None and is_char(c['l']):
                            cv_, op = cval(c['r']), c['op']
                            if cv_ == 48 and ((op == '==' and sense) or (op == '!=' and not sense)):
                                fy.add('zero')
                            if cv_ == 57 and ((op == '<=' and sense) or (op == '>' and not sense)):
                                fy.add('le9')
                            if cv_ == 46 and ((op == '==' and sense)):
                                fy.add('notdigit')
                        if c is not None and c.get('k') == 'bin' and cval(c['l']) == 48 and is_char(c['r']) and ((c['op'] == '<=' and sense) or (c['op'] == '>' and not sense)):
                            fy.add('ge0')
                        rec(x, trail + [b], fy)
                    return
                for x in succs:
                    if x is not None and (x == h or x not in trail):
                        rec(x, trail + [b], fx)
            rec(start, [h], set())
            dig = [(tr, fx) for tr, fx in paths if {'ge0', 'le9'} <= fx]
            if not dig or not any(('store' in fx or 'flag' in fx) for _, fx in paths):
                continue        # not the mantissa loop (the exponent digits are neither stored nor dropped)
            bad = [tr for tr, fx in dig if not ({'store', 'flag', 'zero'} & fx)]
            n += 1
            loc = locline(f.blocks[h]['term']['loc'])
            rep.check(not bad, 'E2.trunc-set', f.qn, 'digit loop at %s: every digit is stored, sets the truncation flag, or is a 0 (%d digit paths)' % (loc, len(dig)), loc,
                      'a path through blocks %s skips a digit without setting the truncation flag' % (bad[0] if bad else ''), facts.config)
    rep.require(n >= 1, 'C04: digit loop of SetDecimal not found')


def run(rep, tier):
    configs = ['K1'] if tier == 'quick' else ['K1', 'K3', 'K7']
    for cfg in configs:
        facts = get_facts(cfg)
        nfacts = get_facts(cfg, norm=True)     # the guard / range rules see through locals that name a condition or an index (sv/normalize.py)
        rep.unit(facts)
        clause_a(facts, rep)
        clause_b(nfacts, rep)
        clause_c(nfacts, rep, raw=facts)
        clause_d(facts, rep)
        clause_e(facts, rep)
        clause_f(facts, rep)
        clause_g(facts, rep)
        clause_h(facts, rep)
        clause_i(facts, rep)
        clause_j(facts, rep)
        clause_k(facts, rep, tier)
        clause_decimal_window(facts, rep)
        clause_decimal_sticky(facts, rep)
        # 'rejected with the infinity error': the code set by parseNumber reaches the caller unchanged (shared with C01)
        from . import c01 as _c01
        _c01.clause_first_error(facts, rep)
        # 'mantissas with hundreds of digits': the 800-digit Decimal of the slow path keeps its count and subscripts in range (shared with C02)
        from . import c02 as _c02
        _c02.clause_digit_capacity(facts, rep)
    # parseNumber itself, evaluated on a boundary-driven corpus of number texts against exact arithmetic (sv/numvalue.py)
    from .. import numvalue
    try:
        numvalue.clause(get_facts('K1'), rep, tier)
    except AnalysisBroken as ex:
        rep.broken.append(str(ex))
    # the shape rules on the number parser proper (not on the big-decimal fallback, which the evaluation takes by
    # contract) are decided together with the evaluation of parseNumber on the current source
    NUMFN = ('Parser::parseNumber', 'Parser::parseFloatingFast', 'Parser::parseFloatEiselLemire64', 'ParseFloatingNormalFast', 'AtofEiselLemire64', 'simd_str2int', 'str2int')
    for r_ in ('E5.fast-guard', 'E5.int-boundary', 'E2.trunc-set', 'E2.trunc-monotone', 'E2.nonzero-mantissa', 'E5.ambiguity-window', 'E3.exponent-field', 'E2.infinity-screen', 'E3.table-index'):
        rep.corroborate(r_, 'E5.number-value', only=lambda v: any(x in (v.get('function') or '') for x in NUMFN))
    for pre_ in ('C04.a:', 'C04.b:', 'C04.c:', 'C04.d:', 'C04.e:', 'C04.f:', 'C04.g:', 'C04.i:', 'C04.j:'):
        rep.corroborate_floor(pre_, 'E5.number-value')
    rep.trust('clang 14 front end and constant evaluator', 'Python big integers / fractions', 'Clinger exact fast-path conditions',
              'simd_str2int contract: the digit count it stores never exceeds the requested count')
    rep.assumptions += [
        'decides every row of the power-of-ten / shift tables, that every subscript into them is in range on all paths, and that the fast-path guards lie inside the region where the exact argument applies',
        'does NOT decide correct rounding, the Eisel-Lemire bail-out logic, the big-decimal algorithm or digit accumulation (numerical results are outside a sound static argument in reach)',
    ]


def clause_d(facts, rep):
    """the truncation flag of parseNumber ("digits were dropped that may be non-zero") is monotone: after its
    zero initialisation it is only ever set (constant 1) or OR-ed into. A store of a computed value can clear
    an earlier 1 and lets a truncated mantissa be rounded as if it were exact."""
    n = 0
    seen = set()
    for f in facts.functions:
        if f.cls_qn != PARSER or f.short != 'parseNumber' or f.name.split('<')[0] in seen:
            continue
        seen.add(f.name.split('<')[0])
        rep.fn(f)
        # bind the flag: the int local passed as the truncation argument to the slow-path conversion
        flag = None
        for bid, i, s, e in f.walk():
            if e.get('k') == 'call' and e.get('cname') == 'parseFloatEiselLemire64' and len(e.get('args', [])) >= 5:
                a = strip(e['args'][4])
                if a is not None and a.get('k') == 'ref':
                    flag = a['id']
        rep.require(flag is not None, 'C04.d: truncation flag of parseNumber not bound')
        if flag is None:
            continue
        for bid, i, s, e in f.walk():
            if e.get('k') == 'bin' and e['op'] in ('=', '&=', '^=', '-=', '+=', '|=') and strip(e['l']).get('id') == flag:
                n += 1
                ok = (e['op'] == '=' and cval(e['r']) == 1) or e['op'] == '|='
                rep.check(ok, 'E2.trunc-monotone', f.qn, show(e), locline(e['loc']),
                          'the truncation flag may only be set to 1 or OR-ed: a computed store can clear a flag set by an earlier dropped digit', facts.config)
    rep.require(n >= 3, 'C04.d: stores to the truncation flag found: %d' % n)


def clause_e(facts, rep):
    """A value that rounds to infinity is rejected, not stored.
    (1) AtofEiselLemire64 assembles the result as (X << 52) | mantissa: on every path to that store the biased
        exponent X must have been confined to [1, 0x7FE] (0 = subnormal and 0x7FF = Inf/NaN are not representable
        by this path and must be refused to the caller).  The guards are evaluated exactly over the wrap-around
        candidates of X, so the `(X - 1) >= 0x7FE` idiom and any equivalent spelling are accepted.
    (2) in parseFloatEiselLemire64 a success return that follows the AtofNative fallback sits on the "not
        infinity" edge of a test of the produced bits."""
    from ..e2_dom import Must
    from .c09 import eval_guard
    from ..core import AnalysisBroken
    M64 = 2 ** 64 - 1
    n1 = n2 = 0
    for f in facts.functions:
        if f.short != 'AtofEiselLemire64':
            continue
        rep.fn(f)
        sites = []
        for bid, i, s, e in f.walk():
            if e.get('k') == 'bin' and e['op'] == '<<' and cval(e['r']) == 52:
                x = strip(e['l'])
                if x is not None and x.get('k') == 'ref' and x.get('dk') == 'local':
                    sites.append((bid, i, e, x))
        rep.require(len(sites) >= 1, 'C04.e: exponent-field assembly (X << 52) not found in %s' % f.qn)
        for bid, i, e, x in sites:
            if x.get('t') not in ('uint64_t', 'unsigned long', 'unsigned long long'):
                raise AnalysisBroken('C04.e: exponent variable %s has type %s; the guard evaluator assumes an unsigned 64-bit value' % (x.get('name'), x.get('t')))
            xid = x['id']

            def cands(cond):
                cs = set()
                for y in walk(cond):
                    if y.get('cv') is not None:
                        try:
                            cs.add(int(y['cv']) & M64)
                        except ValueError:
                            pass
                vs = set(range(0, 0x1001)) | set(range(M64 - 0x1000, M64 + 1))
                for c in list(cs) + [2 ** 63, 2 ** 32, 2 ** 31, 2 ** 52, 2 ** 53, 0x7FF << 52]:
                    for d in range(-3, 4):
                        vs.add((c + d) & M64)
                        vs.add((-c + d) & M64)
                        for c2 in cs:
                            vs.add((c + c2 + d) & M64)
                            vs.add((c - c2 + d) & M64)
                return sorted(vs)

            def gen_edge(b, cond, sense):
                c = strip_expect(cond)
                if c is None:
                    return []
                ids = set(y.get('id') for y in walk(c) if y.get('k') == 'ref' and y.get('dk') in ('local', 'param'))
                if ids != {xid}:
                    return []
                try:
                    sat = [v for v in cands(c) if bool(eval_guard(c, {xid: v})) == sense]
                except KeyError:
                    return []
                out = []
                if all(v >= 1 for v in sat):
                    out.append('lo')
                if all(v <= 0x7FE for v in sat):
                    out.append('hi')
                return out

            def kill_stmt(st):
                for y in walk(st):
                    if y.get('k') == 'bin' and y['op'] in ('=', '+=', '-=', '|=', '&=', '<<=', '>>=', '*=', '^=') and strip(y['l']) is not None and strip(y['l']).get('id') == xid:
                        return ['lo', 'hi']
                    if y.get('k') == 'un' and y['op'] in ('++', '--') and strip(y['e']) is not None and strip(y['e']).get('id') == xid:
                        return ['lo', 'hi']
                return []
            Mst = Must(f, gen_edge=gen_edge, kill_stmt=kill_stmt)
            st = Mst.at(bid, i)
            if st is None:
                continue
            n1 += 1
            rep.check('lo' in st and 'hi' in st, 'E3.exponent-field', f.qn, show(e), locline(e['loc']),
                      'the biased exponent stored into the double must be confined to [1, 0x7FE] by the guards on every path '
                      '(0x7FF would store Inf/NaN as a successful parse); established: %s' % sorted(st), facts.config)
    for f in facts.functions:
        if f.cls_qn != PARSER or f.short != 'parseFloatEiselLemire64':
            continue
        rep.fn(f)
        errs = facts.enum_values()

        def gen_stmt(st):
            return ['native'] if any(y.get('k') == 'call' and y.get('cname') == 'AtofNative' for y in walk(st)) else []

        def gen_edge(b, cond, sense):
            c = strip_expect(cond)
            neg = False
            while c is not None and c.get('k') == 'un' and c['op'] == '!':
                neg = not neg
                c = strip_expect(c['e'])
            if c is None:
                return []
            if c.get('k') == 'bin' and c['op'] in ('==', '!='):
                for a, b_ in ((c['l'], c['r']), (c['r'], c['l'])):
                    a_ = strip(a)
                    if cval(b_) == 0xFFE0000000000000 and a_ is not None and a_.get('k') == 'bin' and a_['op'] == '<<' and cval(a_['r']) == 1:
                        is_inf_edge = (sense != neg) if c['op'] == '==' else (sense == neg)
                        return [] if is_inf_edge else ['finite']
            if c.get('k') == 'call' and c.get('cname') in ('isinf', '__builtin_isinf', 'isfinite', '__builtin_isfinite'):
                inf_when_true = 'isinf' in c['cname']
                is_inf_edge = (sense != neg) == inf_when_true
                return [] if is_inf_edge else ['finite']
            return []
        Mst = Must(f, gen_stmt=gen_stmt, gen_edge=gen_edge)
        for bid, i, st_ in f.stmts():
            s_ = strip(st_)
            if s_ is None or s_.get('k') != 'ret':
                continue
            stt = Mst.at(bid, i)
            if stt is None or 'native' not in stt:
                continue
            if cval(s_.get('e')) == errs.get('kErrorNone', 0):
                n2 += 1
                rep.check('finite' in stt, 'E2.infinity-screen', f.qn, show(s_), locline(s_['loc']),
                          'a success return after the AtofNative fallback must sit on the not-infinity edge of a test of the produced bits', facts.config)
    rep.require(n1 >= 1, 'C04.e: no exponent-field site analysed')
    rep.require(n2 >= 1, 'C04.e: no success return after AtofNative found')


def clause_f(facts, rep):
    """Integer kinds: the 20th digit is folded into the mantissa (`man = man*10 + num`, stored as an integer) exactly
    when the result fits uint64.  The branch conditions between the digit's declaration and that statement are
    evaluated for a grid of (man, num) around floor(UINT64_MAX/10); the statement must be reached iff
    man*10 + num <= 2^64-1.  (Reached too often = wrapped integer; too rarely = an integer stored as a double.)"""
    from ..narrowing import _eval as ev1
    U = 2 ** 64 - 1
    n = 0
    seen = set()
    for f in facts.functions:
        if f.cls_qn != PARSER or f.short != 'parseNumber' or f.name.split('<')[0] in seen:
            continue
        seen.add(f.name.split('<')[0])
        # the fold statement and its operands
        fold = None
        for bid, i, s in f.stmts():
            s_ = strip(s)
            if s_ is None or s_.get('k') != 'bin' or s_['op'] != '=':
                continue
            l = strip(s_['l'])
            r = strip(s_['r'])
            if l.get('k') == 'ref' and r is not None and r.get('k') == 'bin' and r['op'] == '+':
                a, b = strip(r['l']), strip(r['r'])
                if a is not None and a.get('k') == 'bin' and a['op'] == '*' and strip(a['l']).get('id') == l.get('id') and cval(a['r']) == 10 and b is not None and b.get('k') == 'ref' and b.get('dk') == 'local':
                    # the digit variable must be a single-digit local declared in this function from the text
                    fold = (bid, i, l['id'], b['id'], s_)
        if fold is None:
            continue
        fb, fi, man_id, num_id, fs = fold
        # where the digit variable is declared
        start = None
        for bid, i, s in f.stmts():
            s_ = strip(s)
            if s_ is not None and s_.get('k') == 'decl' and any(vd['id'] == num_id for vd in s_['vars']):
                start = (bid, i)
        rep.require(start is not None, 'C04.f: declaration of the 20th digit not found')
        if start is None:
            continue
        rep.fn(f)
        M = U // 10

        def reaches(man, num):
            bid, i = start
            i += 1
            steps = 0
            while steps < 64:
                steps += 1
                B = f.blocks[bid]
                for j in range(i, len(B['stmts'])):
                    s_ = strip(B['stmts'][j])
                    if s_ is None:
                        continue
                    if bid == fb and j == fi:
                        return True
                    if s_.get('k') in ('bin',) and s_['op'] in ('=', '+=', '-=', '*=', '|=') or s_.get('k') in ('ret',):
                        return False       # another effect first: this is not the fold path
                    if s_.get('k') == 'call' and s_.get('cname') not in ('__builtin_expect',):
                        return False
                t = B.get('term')
                succs = B['succs']
                if t and t.get('cond') is not None and len(succs) == 2 and t['cls'] != 'SwitchStmt':
                    try:
                        v = bool(ev1(t['cond'], {man_id: man, num_id: num}))
                    except KeyError as ex:
                        raise AnalysisBroken('C04.f: condition %s between the digit and the fold is not a function of (man, num): %s' % (show(t['cond']), ex))
                    nxt = succs[0] if v else succs[1]
                else:
                    nxt = [x for x in succs if x is not None]
                    nxt = nxt[0] if len(nxt) == 1 else None
                if nxt is None:
                    return False
                bid, i = nxt, 0
            raise AnalysisBroken('C04.f: fold path does not terminate')
        bad = []
        cnt = 0
        mans = sorted(set([0, 1, 7, 10 ** 18, 10 ** 19 - 1, 2 ** 63 // 10, 2 ** 63 // 10 + 1, 2 ** 63, 2 ** 63 + 1] + [M + d for d in range(-3, 4)]))
        for man in mans:
            for num in range(10):
                cnt += 1
                got = reaches(man, num)
                exp = man * 10 + num <= U
                if got != exp:
                    bad.append('man=%d digit=%d: %s but man*10+digit %s 2^64-1' % (man, num, 'folded into the integer' if got else 'sent to the floating-point path', '>' if not exp else '<='))
        n += 1
        rep.check(not bad, 'E5.int-boundary', f.qn, '20th digit folded iff man*10+digit <= UINT64_MAX (%d (man, digit) pairs)' % cnt, locline(fs['loc']),
                  '; '.join(bad[:3]), facts.config)
    rep.require(n >= 1, 'C04.f: 20-digit fold statement not found in parseNumber')


def clause_g(facts, rep):
    """The converters that normalise the mantissa by its leading-zero count (LeadingZeroes / __builtin_clz of a
    parameter - undefined for 0) are only called with a mantissa known to be non-zero: the requirement is derived
    from the callee bodies, propagated through wrappers that pass their own parameter on, and at every remaining
    call site the argument variable must be behind a test that implies != 0 (evaluated) with no write in between.
    ("0." followed by many zeros reaches the slow paths with man == 0.)"""
    from ..e2_dom import Must
    from ..narrowing import _eval as ev1
    need = {}       # function id -> set of parameter indices that must be non-zero
    for f in facts.functions:
        pid = {p['id']: k for k, p in enumerate(f.params)}
        written = set()
        for bid, i, st, e in f.walk():
            if e.get('k') == 'bin' and e['op'].endswith('=') and e['op'] not in ('==', '!=', '<=', '>=') and strip(e['l']) is not None and strip(e['l']).get('id') in pid:
                written.add(strip(e['l'])['id'])
        for bid, i, st, e in f.walk():
            if e.get('k') == 'call' and e.get('cname') in ('LeadingZeroes', '__builtin_clzll', '__builtin_clzl', '__builtin_clz') and e.get('args'):
                a = strip(e['args'][0])
                if a is not None and a.get('k') == 'ref' and a.get('id') in pid:
                    # a write before the use does not remove the requirement when it preserves zero-ness (x <<= n); keep it simple: direct parameter use
                    if a['id'] not in written or True:
                        need.setdefault(f.id, set()).add(pid[a['id']])
    rep.require(len(need) >= 2, 'C04.g: converters with a leading-zero count on a parameter found: %d' % len(need))
    n = 0
    changed = True
    sites = []
    while changed:
        changed = False
        sites = []
        for f in facts.functions:
            pid = {p['id']: k for k, p in enumerate(f.params)}
            for bid, i, st, e in f.walk():
                if e.get('k') != 'call' or e.get('cid') not in need:
                    continue
                args = e.get('args', [])
                for k in need[e['cid']]:
                    if k >= len(args):
                        continue
                    a = strip(args[k])
                    if a is None or a.get('k') != 'ref':
                        continue           # a computed argument (man + 1 ...) is not tracked
                    sites.append((f, bid, i, e, a))
    # decide the sites; a site whose variable is an unguarded parameter pushes the requirement to the callers
        for f, bid, i, e, a in sites:
            pid = {p['id']: k for k, p in enumerate(f.params)}
            vid = a['id']

            def gen_edge(b, cond, sense, vid=vid):
                c = strip_expect(cond)
                if c is None:
                    return []
                ids = set(y.get('id') for y in walk(c) if y.get('k') == 'ref' and y.get('dk') in ('local', 'param'))
                if ids != {vid}:
                    return []
                try:
                    sat = [v for v in (0, 1, 2, 3, 1 << 52, (1 << 52) + 1, (1 << 63), 2 ** 64 - 1) if bool(ev1(c, {vid: v})) == sense]
                except KeyError:
                    return []
                return ['nz'] if 0 not in sat else []

            def kill_stmt(st, vid=vid):
                for y in walk(st):
                    if y.get('k') == 'bin' and y['op'].endswith('=') and y['op'] not in ('==', '!=', '<=', '>=') and strip(y['l']) is not None and strip(y['l']).get('id') == vid:
                        return ['nz']
                    if y.get('k') == 'un' and y['op'] in ('++', '--') and strip(y['e']) is not None and strip(y['e']).get('id') == vid:
                        return ['nz']
                return []
            M = Must(f, gen_edge=gen_edge, kill_stmt=kill_stmt)
            st = M.at(bid, i)
            if st is None:
                continue
            if 'nz' not in st and vid in pid and f.id not in need.get('_done', set()):
                if pid[vid] not in need.get(f.id, set()):
                    need.setdefault(f.id, set()).add(pid[vid])
                    changed = True
    seen = set()
    for f, bid, i, e, a in sites:
        pid = {p['id']: k for k, p in enumerate(f.params)}
        vid = a['id']
        if vid in pid and pid[vid] in need.get(f.id, set()):
            continue        # the requirement was passed on to this function's callers
        key = (f.qn, show(e)[:60])
        if key in seen:
            continue
        seen.add(key)
        # re-evaluate (cheap) for the report

        def gen_edge(b, cond, sense, vid=vid):
            c = strip_expect(cond)
            if c is None:
                return []
            ids = set(y.get('id') for y in walk(c) if y.get('k') == 'ref' and y.get('dk') in ('local', 'param'))
            if ids != {vid}:
                return []
            try:
                sat = [v for v in (0, 1, 2, 3, 1 << 52, (1 << 52) + 1, (1 << 63), 2 ** 64 - 1) if bool(ev1(c, {vid: v})) == sense]
            except KeyError:
                return []
            return ['nz'] if 0 not in sat else []

        def kill_stmt(st, vid=vid):
            for y in walk(st):
                if y.get('k') == 'bin' and y['op'].endswith('=') and y['op'] not in ('==', '!=', '<=', '>=') and strip(y['l']) is not None and strip(y['l']).get('id') == vid:
                    return ['nz']
                if y.get('k') == 'un' and y['op'] in ('++', '--') and strip(y['e']) is not None and strip(y['e']).get('id') == vid:
                    return ['nz']
            return []
        M = Must(f, gen_edge=gen_edge, kill_stmt=kill_stmt)
        st = M.at(bid, i)
        if st is None:
            continue
        rep.fn(f)
        n += 1
        rep.check('nz' in st, 'E2.nonzero-mantissa', f.qn, '%s != 0 at %s' % (a.get('name'), show(e)[:70]), locline(e['loc']),
                  'the callee takes the leading-zero count of this argument (undefined for 0, and the result is not zero): a zero mantissa must have been returned as 0 before', facts.config)
    rep.require(n >= 2, 'C04.g: call sites of the normalising converters decided: %d' % n)


def clause_h(facts, rep):
    """SetDecimal (big-decimal fallback): the position of the decimal point counts every integer digit, also those
    that no longer fit into the digit buffer.  With the dot not yet seen (edges decided by evaluating the dot-flag
    tests with the flag = 0), every path through the digit arm - except the one skipping a leading zero - increments
    a variable that the decimal-point assignments read."""
    from ..e2_dom import Must
    from ..narrowing import _eval as ev1
    n = 0
    for f in facts.functions:
        if f.short != 'SetDecimal':
            continue
        rep.fn(f)
        # assignments  d->dp = <expr>  : variables/fields read there
        feeds = set()
        dp_assign = 0
        for bid, i, st, e in f.walk():
            if e.get('k') == 'bin' and e['op'] == '=' and strip(e['l']) is not None and strip(e['l']).get('k') == 'member' and strip(e['l']).get('name') == 'dp':
                dp_assign += 1
                for y in walk(e['r']):
                    if y.get('k') == 'ref' and y.get('dk') == 'local':
                        feeds.add(('v', y['id']))
                    if y.get('k') == 'member' and y.get('name') != 'dp':
                        feeds.add(('m', y['name']))
        rep.require(dp_assign >= 2 and feeds, 'C04.h: decimal-point assignments of SetDecimal not found')
        # the dot flag: local assigned 1 in the arm that also assigns dp
        flag = None
        for bid, B in f.blocks.items():
            names = []
            for st in B['stmts']:
                s_ = strip(st)
                if s_ is not None and s_.get('k') == 'bin' and s_['op'] == '=' and strip(s_['l']).get('k') == 'ref' and cval(s_['r']) == 1:
                    names.append(strip(s_['l'])['id'])
            if names and any(strip(st) is not None and strip(st).get('k') == 'bin' and strip(strip(st)['l']).get('name') == 'dp' for st in B['stmts']):
                flag = names[0]
        rep.require(flag is not None, 'C04.h: dot flag of SetDecimal not bound')
        if flag is None:
            continue
        prune = set()
        for bid, B in f.blocks.items():
            t = B.get('term')
            if t and t.get('cond') is not None and len(B['succs']) == 2:
                c = strip_expect(t['cond'])
                ids = set(y.get('id') for y in walk(c) if y.get('k') == 'ref' and y.get('dk') in ('local', 'param'))
                if ids == {flag}:
                    try:
                        v = bool(ev1(c, {flag: 0}))
                        dead = B['succs'][1] if v else B['succs'][0]
                        if dead is not None:
                            prune.add((bid, dead))
                    except KeyError:
                        pass

        def is_feed_inc(y):
            if y.get('k') == 'un' and y['op'] == '++':
                t_ = strip(y['e'])
                return t_ is not None and ((t_.get('k') == 'ref' and ('v', t_.get('id')) in feeds) or (t_.get('k') == 'member' and ('m', t_.get('name')) in feeds))
            if y.get('k') == 'bin' and y['op'] == '+=' and (cval(y['r']) or 0) >= 1:
                t_ = strip(y['l'])
                return t_ is not None and ((t_.get('k') == 'ref' and ('v', t_.get('id')) in feeds) or (t_.get('k') == 'member' and ('m', t_.get('name')) in feeds))
            return False

        def gen_stmt(st):
            out = []
            if any(is_feed_inc(y) for y in walk(st)):
                out.append('counted')
            # the leading-zero skip adjusts dp itself
            if any(y.get('k') == 'un' and y['op'] == '--' and strip(y['e']).get('k') == 'member' and strip(y['e']).get('name') == 'dp' for y in walk(st)):
                out.append('counted')
            return out
        heads = [bid for bid, B in f.blocks.items() if B.get('term') and B['term'].get('cls') in ('ForStmt', 'WhileStmt')]

        def kill_edge(b, cond, sense):
            return ['counted'] if b in heads and sense is True else []
        # digit arm: blocks dominated by the digit test; obligation at the loop increment (i++) reached from the digit arm
        def gen_edge(b, cond, sense):
            c = strip_expect(cond)
            if c is not None and sense is True and c.get('k') == 'bin' and c['op'] == '<=' and cval(c['r']) == 57:
                return ['digit']
            return []
        M = Must(f, gen_stmt=gen_stmt, gen_edge=gen_edge, kill_edge=kill_edge, prune=prune)
        # the first digit loop only (the exponent loop has its own digits)
        first_head = max(heads) if heads else None
        for bid, B in f.blocks.items():
            for i, st in enumerate(B['stmts']):
                s_ = strip(st)
                if s_ is not None and s_.get('k') == 'un' and s_['op'] == '++' and strip(s_['e']).get('k') == 'ref' and strip(s_['e']).get('name') == 'i' and B['succs'] == [first_head]:
                    # several predecessors merge into the increment block: inspect each predecessor's exit state
                    preds = [p for p, PB in f.blocks.items() if bid in [x for x in PB['succs'] if x is not None]]
                    for p in preds:
                        stp = M.IN.get(p)
                        if stp is None or (p, bid) in prune:
                            continue
                        stp = set(stp)
                        for x in f.blocks[p]['stmts']:
                            stp |= set(gen_stmt(x))
                        if 'digit' not in stp:
                            continue
                        n += 1
                        rep.check('counted' in stp, 'E2.decimal-point', f.qn, 'digit arm ending at block %d moves the decimal point' % p, locline(s_['loc']),
                                  'an integer digit that is not stored must still be counted for d->dp (the value is otherwise scaled down by a power of ten)', facts.config)
    rep.require(n >= 2, 'C04.h: digit paths of SetDecimal decided: %d' % n)


def clause_i(facts, rep):
    """Dropped digits are remembered.  In every digit loop of parseNumber that accumulates the mantissa or touches
    the truncation flag (loops over exponent digits do neither), each path through the body that consumes a digit
    without adding it to the mantissa sets the flag - unless the path is taken only for the digit '0'.  The converters
    round a truncated mantissa correctly only when they are told (they then bracket it with man and man + 1)."""
    n = 0
    seen = set()
    for f in facts.functions:
        if f.cls_qn != PARSER or f.short != 'parseNumber' or f.name.split('<')[0] in seen:
            continue
        seen.add(f.name.split('<')[0])
        man = flag = None
        for bid, i, s, e in f.walk():
            if e.get('k') == 'call' and e.get('cname') == 'parseFloatEiselLemire64' and len(e.get('args', [])) >= 5:
                a2, a4 = strip(e['args'][2]), strip(e['args'][4])
                if a2 is not None and a2.get('k') == 'ref':
                    man = a2['id']
                if a4 is not None and a4.get('k') == 'ref':
                    flag = a4['id']
        rep.require(man is not None and flag is not None, 'C04.i: mantissa / truncation flag of parseNumber not bound')
        if man is None or flag is None:
            continue
        rep.fn(f)
        heads = [bid for bid, B in f.blocks.items() if B.get('term') and B['term'].get('cls') == 'WhileStmt' and B['term'].get('cond') is not None
                 and any(x.get('k') == 'call' and x.get('cname') == 'is_digit' for x in walk(B['term']['cond']))]
        for h in heads:
            start = f.blocks[h]['succs'][0]
            paths = []

            def rec(b, trail, facts_):
                if len(paths) > 200 or len(trail) > 40:
                    raise AnalysisBroken('C04.i: digit loop body too large')
                if b == h:
                    paths.append((trail, facts_))
                    return
                B = f.blocks[b]
                fx = set(facts_)
                for st in B['stmts']:
                    for y in walk(st):
                        if y.get('k') == 'bin' and y['op'].endswith('=') and y['op'] not in ('==', '!=', '<=', '>=') and strip(y['l']) is not None:
                            if strip(y['l']).get('id') == man:
                                fx.add('man')
                            if strip(y['l']).get('id') == flag and (cval(y['r']) == 1 or y['op'] == '|='):
                                fx.add('flag')
                t = B.get('term')
                succs = B['succs']
                if t and t.get('cond') is not None and len(succs) == 2:
                    c = strip_expect(t['cond'])
                    neg = False
                    while c is not None and c.get('k') == 'un' and c['op'] == '!':
                        neg = not neg
                        c = strip_expect(c['e'])
                    zero_true = None
                    if c is not None and c.get('k') == 'bin' and c['op'] in ('==', '!=') and cval(c['r']) == 48 and any(x.get('k') == 'sub' for x in walk(c['l'])):
                        zero_true = (c['op'] == '==') != neg
                    for k, x in enumerate(succs):
                        if x is None or (x != h and x in trail):
                            continue
                        fy = set(fx)
                        if zero_true is not None and ((k == 0) == zero_true):
                            fy.add('zero')
                        rec(x, trail + [b], fy)
                    return
                for x in succs:
                    if x is not None and (x == h or x not in trail):
                        rec(x, trail + [b], fx)
            if start is None:
                continue
            rec(start, [h], set())
            if not any(('man' in fx or 'flag' in fx) for _, fx in paths):
                continue        # not a mantissa loop (exponent digits)
            bad = [tr for tr, fx in paths if not ({'man', 'flag', 'zero'} & fx)]
            n += 1
            loc = locline(f.blocks[h]['term']['loc'])
            rep.check(not bad, 'E2.trunc-set', f.qn, 'digit loop at %s: every body path adds the digit to the mantissa, sets the truncation flag, or handles only \'0\' (%d paths)' % (loc, len(paths)), loc,
                      'a path through blocks %s consumes a digit without accumulating it and without setting the truncation flag' % (bad[0] if bad else ''), facts.config)
    rep.require(n >= 3, 'C04.i: mantissa digit loops found: %d' % n)


def clause_j(facts, rep):
    """ParseFloatingNormalFast: the truncated 64x64 product may be trusted without the second (extended) multiply
    only when the bits below the rounding position are neither all zero nor all one - otherwise the discarded low
    product can carry into the rounding bit (exact ties and just-off-halfway values).  The mask is bound from
    `bits = hi & MASK`, it must cover exactly the 64-54-1 = 9 bits below the rounding bit, and the guard on `bits`
    is evaluated for every value 0..MASK: it may accept only 1..MASK-1."""
    from ..narrowing import _eval as ev1
    n = 0
    for f in facts.functions:
        if f.short != 'ParseFloatingNormalFast':
            continue
        rep.fn(f)
        bvar = mask = None
        for bid, i, st in f.stmts():
            s_ = strip(st)
            if s_ is not None and s_.get('k') == 'bin' and s_['op'] == '=' and strip(s_['l']).get('k') == 'ref':
                r = strip(s_['r'])
                if r is not None and r.get('k') == 'bin' and r['op'] == '&' and cval(r['r']) is not None and cval(r['r']) > 1 and strip(r['l']).get('k') == 'ref' and cval(r['l']) is None:
                    m = cval(r['r'])
                    if (m & (m + 1)) == 0 and m < (1 << 16):
                        bvar, mask = strip(s_['l'])['id'], m
        rep.require(bvar is not None, 'C04.j: low-bits variable of ParseFloatingNormalFast not bound')
        if bvar is None:
            continue
        for bid, B in f.blocks.items():
            t = B.get('term')
            if not (t and t.get('cond') is not None and len(B['succs']) == 2):
                continue
            c = strip_expect(t['cond'])
            ids = set(y.get('id') for y in walk(c) if y.get('k') == 'ref' and y.get('dk') in ('local', 'param') and y.get('cv') is None)
            if ids != {bvar}:
                continue
            try:
                acc = [v for v in range(0, mask + 1) if bool(ev1(c, {bvar: v}))]
            except KeyError as ex:
                raise AnalysisBroken('C04.j: guard on the low product bits not evaluable: %s' % ex)
            n += 1
            bad = [v for v in acc if v in (0, mask)]
            rep.check(mask == (1 << 9) - 1 and not bad, 'E5.ambiguity-window', f.qn, show(c), locline(t['loc']),
                      'mask 0x%x (must be 0x1ff); the single-multiply result is accepted for low bits %s - 0 and all-ones are the patterns where the discarded product can change the rounding' % (
                          mask, [hex(v) for v in bad]), facts.config)
    rep.require(n >= 1, 'C04.j: guard on the low product bits of ParseFloatingNormalFast not found')


def clause_k(facts, rep, tier='quick'):
    """simd_str2int(c, n): evaluated with the SSE interpreter (sv/minterp.py, Intel lane semantics) on a 16-byte
    window: it returns the value of the first min(n, run) digits and stores that count, where run is the length of
    the leading digit run.  The pipeline is linear in the digits (maddubs / madd / pack), so the digit-basis inputs
    (a single 1 or 9 at each position, all nines for the absence of overflow, a counting pattern) fix every
    coefficient for every (run, n); every terminator class is tried at every run length."""
    from ..minterp import Interp, Unsupported, UndefinedBehaviour
    fs = [f for f in facts.functions if f.short == 'simd_str2int']
    rep.require(len(fs) >= 1, 'C04.k: simd_str2int not found')
    terms = [0, ord('.'), ord('e'), ord('E'), ord(','), ord(' '), ord('/'), ord(':'), ord('x'), ord('-'), 0x80, 0xFF]
    for f in fs[:1]:
        rep.fn(f)
        base = 0x2000
        bad = None
        cnt = 0

        def run(buf, need):
            it = Interp(f, facts)
            it.memory = {base + i: b for i, b in enumerate(buf)}
            r = it.run({f.params[0]['id']: base, f.params[1]['id']: need}, {})
            return r[0], r[1][f.params[1]['id']]
        try:
            for L in range(0, 17):
                pats = ['1234567890123456'[:L], '9' * L]
                if L:
                    for p_ in range(L):
                        for d in ('1', '9'):
                            pats.append('0' * p_ + d + '0' * (L - p_ - 1))
                needs = sorted(set([1, 2, L, L + 1, 16, 17]) - {0}) if tier == 'quick' else list(range(1, 18))
                for k_, pat in enumerate(sorted(set(pats))):
                    tl = terms if k_ == 0 else [ord('.')]
                    for tch in tl:
                        buf = (pat.encode() + bytes([tch]) * (16 - L))[:16] if L < 16 else pat.encode()
                        if L < 16 and tch == 0:
                            buf = pat.encode() + bytes(16 - L)
                        for need in needs:
                            cnt += 1
                            try:
                                got = run(buf, need)
                            except UndefinedBehaviour as ex:
                                bad = 'digits %r terminator 0x%02x n=%d: undefined behaviour: %s' % (pat, tch, need, ex)
                                break
                            m = min(L, need)
                            want = (int(pat[:m]) if m else 0, m)
                            if got != want:
                                bad = 'digits %r terminator 0x%02x n=%d -> (value, count) = %s, expected %s' % (pat, tch, need, got, want)
                                break
                        if bad:
                            break
                    if bad:
                        break
                if bad:
                    break
        except Unsupported as ex:
            raise AnalysisBroken('C04.k: simd_str2int not evaluable: %s' % ex)
        rep.extra['simd_str2int_evaluations'] = cnt
        rep.check(bad is None, 'E5.simd-digits', f.qn, 'value and digit count of the first min(n, run) digits for every run length 0..16, digit basis and terminator class (%d evaluations)' % cnt, f.loc,
                  bad or '', facts.config)
