"""C01 — Parse accepts exactly RFC 8259 and reports failure coherently
(clauses a-e of DESIGN.md section 5/C01)."""
from ..core import (get_facts, strip, strip_expect, cval, show, walk, locline, is_this_member, AnalysisBroken)
from ..e2_dom import Must, guard_lower_bound, linear
from .. import e6_vpa
from . import c02

PARSER = 'sonic_json::Parser'


def bind_names(parse_fn):
    """bind the cursor/limit/buffer/error members of Parser by data flow in Parser::Parse"""
    pn = {p['name']: p['id'] for p in parse_fn.params}
    buf = ln = err = pos = None
    for bid, i, s in parse_fn.stmts():
        s_ = strip(s)
        if s_.get('k') == 'bin' and s_['op'] == '=' and is_this_member(s_['l']):
            refs = [e for e in walk(s_['r']) if e.get('k') == 'ref' and e.get('dk') == 'param']
            if refs:
                t = refs[0].get('t', '')
                if '*' in t:
                    buf = strip(s_['l'])['name']
                else:
                    ln = strip(s_['l'])['name']
    for bid, i, s in parse_fn.stmts():
        s_ = strip(s)
        if s_.get('k') == 'ret' and s_.get('e') is not None:
            r = strip(s_['e'])
            while r is not None and r.get('k') in ('ctor', 'initlist') and len(r.get('args', [])) == 1:
                r = strip(r['args'][0])   # copy/move construction of the result
            if r is not None and r.get('k') in ('ctor', 'initlist') and len(r.get('args', [])) == 2:
                a0 = [e for e in walk(r['args'][0]) if e.get('k') == 'member' and is_this_member(e)]
                a1 = [e for e in walk(r['args'][1]) if e.get('k') == 'member' and is_this_member(e)]
                if a0:
                    err = a0[0]['name']
                if a1:
                    # the cursor is the member that is not the limit
                    cands = [e['name'] for e in a1 if e['name'] != ln]
                    pos = cands[0] if cands else None
    return err, buf, pos, ln


def parse_entries(facts, handler_qn):
    out = []
    for f in facts.funcs(qn=PARSER + '::Parse'):
        if any(handler_qn.split('::')[-1] + '<' in p['t'] for p in f.params):
            out.append(f)
    return out


def clause_a(facts, rep, tier):
    sent = sentinel_bytes(facts)
    rep.require(sent is not None, 'C01.a: sentinel bytes not found')
    if sent is None:
        return
    entries = parse_entries(facts, 'sonic_json::SAXHandler')
    rep.require(len(entries) >= 1, 'C01.a: no Parser::Parse<SAXHandler> instantiation')
    roles = e6_vpa.Roles(facts, 'sonic_json::SAXHandler', None)
    total_states = total_trans = 0
    for entry in entries if tier == 'thorough' else entries[:1]:
        names = bind_names(entry)
        rep.require(all(names), 'C01.a: could not bind error/buffer/cursor/limit members in %s: %s' % (entry.name, names))
        if not all(names):
            continue
        # restrict roles to the family members instantiated for this handler type
        targ = [t for t in entry.d.get('targs', []) if 'SAXHandler<' in t][0]
        fam = {}
        for f in facts.functions:
            if f.cls_qn != PARSER:
                continue
            hts = [t for t in f.d.get('targs', []) if 'Handler<' in t]
            if hts and targ not in hts:
                continue
            fam[f.id] = f
        r2 = e6_vpa.Roles(facts, 'sonic_json::SAXHandler', None)
        r2.fam = fam
        kinds = sorted(set(r2.kind[i] for i in r2.kind if i in fam))
        rep.require(kinds == ['false', 'key', 'null', 'num', 'str', 'true'], 'C01.a: scalar sub-parsers bound: %s' % kinds)
        arr_mask = None
        for f in fam.values():
            for bid, i, s, e in f.walk():
                if e.get('k') == 'call' and e.get('cname') == 'push_back' and e.get('ccls', '').startswith('std::vector'):
                    c = cval(e['args'][0])
                    if c:
                        arr_mask = c
        rep.require(arr_mask is not None, 'C01.a: array mask not found')
        if arr_mask is None:
            continue
        for f in fam.values():
            rep.fn(f)
        viol, stats = e6_vpa.explore(facts, rep, entry, r2, sent[0], arr_mask, names,
                                     max_depth=3 if tier == 'quick' else 4, max_len=12 if tier == 'quick' else 16)
        total_states += stats['states']
        total_trans += stats['transitions']
        rep.extra.setdefault('product', []).append(dict(entry=entry.name, states=stats['states'], transitions=stats['transitions'],
                                                        samples=stats['samples']))
        seen = set()
        for tr, msg in viol:
            key = msg.split(':')[0]
            txt = ' '.join(e6_vpa.sym_str(s) for s in tr)
            lang = 'events' in msg or 'event' in msg
            rule = 'E6.events' if lang else 'E6.language'
            if (rule, msg) in seen:
                continue
            seen.add((rule, msg))
            rep.fail(rule, entry.qn, msg, entry.loc, 'shortest separating lexeme sequence: %s' % txt, facts.config)
        if not viol:
            rep.ok('E6.language', '%s: language of the extracted skeleton == RFC 8259 reference (%d states, %d transitions)' % (
                entry.qn, stats['states'], stats['transitions']), entry.loc)
            rep.ok('E6.events', '%s: SAX transduction of the extracted skeleton == canonical transduction' % entry.qn, entry.loc)
    rep.extra['states'] = total_states
    rep.extra['transitions'] = total_trans
    rep.require(total_states >= 100, 'C01.a: product exploration visited only %d states' % total_states)
    check_has_trailing(facts, rep)


def check_has_trailing(facts, rep):
    """hasTrailingChars returns true only on a non-space byte below len_, false only at len_"""
    fs = facts.funcs(qn=PARSER + '::hasTrailingChars')
    rep.require(len(fs) == 1, 'C01.a: hasTrailingChars not found')
    for f in fs:
        rep.fn(f)

        def sym(e):
            if e.get('k') == 'member' and is_this_member(e):
                return e['name']
            return None

        def gen_edge(b, cond, sense):
            out = []
            m = guard_lower_bound(cond, sense, sym, 'len_', 'pos_')
            if m is not None and m >= 1:
                out.append('below')
            m2 = guard_lower_bound(cond, sense, sym, 'pos_', 'len_')
            if m2 is not None and m2 >= 0:
                out.append('atend')
            c = strip_expect(cond)
            neg = False
            while c is not None and c.get('k') == 'un' and c['op'] == '!':
                neg = not neg
                c = strip_expect(c['e'])
            if c is not None and c.get('k') == 'call' and c.get('cname') == 'IsSpace':
                out.append('space' if (sense != neg) else 'nonspace')
            return out

        def kill_stmt(s):
            for e in walk(s):
                if (e.get('k') == 'un' and e['op'] in ('++', '--') and is_this_member(e['e'], 'pos_')) or \
                   (e.get('k') == 'bin' and e['op'] in ('=', '+=', '-=') and is_this_member(e['l'], 'pos_')):
                    return ['below', 'atend', 'space', 'nonspace']
            return []
        M = Must(f, gen_edge=gen_edge, kill_stmt=kill_stmt)
        n = 0
        for bid, i, s in f.stmts():
            s_ = strip(s)
            if s_.get('k') == 'ret':
                st = M.at(bid, i) or frozenset()
                c = cval(s_['e'])
                n += 1
                if c:
                    rep.check('below' in st and 'nonspace' in st, 'E2.trailing', f.qn, show(s_), locline(s_['loc']),
                              'true only for a non-space byte at an index below the limit', facts.config)
                else:
                    rep.check(c == 0 and 'atend' in st, 'E2.trailing', f.qn, show(s_), locline(s_['loc']),
                              'false only when the cursor reached the limit', facts.config)
            for e in walk(s_):
                if e.get('k') == 'un' and e['op'] == '++' and is_this_member(e['e'], 'pos_'):
                    st = M.at(bid, i) or frozenset()
                    rep.check('space' in st and 'below' in st, 'E2.trailing', f.qn, show(e), locline(e['loc']),
                              'the cursor may step only over white space below the limit', facts.config)
        rep.require(n >= 2, 'C01.a: hasTrailingChars has fewer than two returns')


def sentinel_bytes(facts):
    for f in facts.functions:
        if f.short != 'allocateStringBuffer':
            continue

        def sym(e):
            if e.get('k') == 'ref' and e.get('dk') == 'param':
                return e['name']
            return None
        stores = {}
        for bid, i, s in f.stmts():
            s_ = strip(s)
            if s_.get('k') == 'bin' and s_['op'] == '=':
                l = strip(s_['l'])
                if l.get('k') == 'sub':
                    ix = linear(l['idx'], sym)
                    if ix is not None and ix.get('len') == 1:
                        stores[ix.get(1, 0)] = cval(s_['r'])
        if sorted(stores) == [0, 1, 2]:
            return [stores[0], stores[1], stores[2]]
    return None


LITS = {'kNullBin': b'null', 'kTrueBin': b'true', 'kFalseBin': b'alse'}


def clause_c(facts, rep):
    """literal constants and cursor advances"""
    n = 0
    seen = set()
    for s in facts.statics:
        if s['name'] in LITS:
            key = (s['name'], locline(s['loc']))
            if key in seen:
                continue
            seen.add(key)
            want = int.from_bytes(LITS[s['name']], 'little')
            n += 1
            rep.check(str(s.get('value')) == str(want), 'E5.literal', s['func'].split('<')[0] or s['qn'], '%s == 0x%x' % (s['name'], want),
                      locline(s['loc']), 'little-endian bytes of %r' % LITS[s['name']].decode(), facts.config)
    rep.require(n >= 6, 'C01.c: literal constants: found %d of 6 (parser.h and skip_common.h copies)' % n)
    # cursor advance after a match equals literal length relative to the compared offset
    for f in facts.functions:
        if f.cls_qn != PARSER or f.short not in ('parseNull', 'parseTrue', 'parseFalse'):
            continue
        rep.fn(f)
        off = adv = None
        for bid, i, s, e in f.walk():
            if e.get('k') == 'call' and e.get('cname') == 'EqBytes4':
                lf = linear(e['args'][0], lambda x: x['name'] if (x.get('k') == 'member' and is_this_member(x)) else None)
                if lf is not None:
                    off = lf.get(1, 0)
            if e.get('k') == 'bin' and e['op'] == '+=' and is_this_member(e['l'], 'pos_'):
                adv = cval(e['r'])
        if off is None or adv is None:
            rep.require(False, 'C01.c: %s: compare offset / advance not recognised' % f.name)
            continue
        # pos_ is one past the first byte; compared bytes start at pos_+off, 4 bytes; literal starts at pos_-1
        total = {'parseNull': 4, 'parseTrue': 4, 'parseFalse': 5}[f.short]
        rep.check(off + 4 == total - 1 and adv == total - 1, 'E5.literal', f.qn, 'compare at pos_%+d, advance %d' % (off, adv), f.loc,
                  'the 4 compared bytes must end at the literal end and the cursor must land just past it', facts.config)


def clause_e(facts, rep):
    """failure coherence in GenericDocument: root assigned only on the no-error edge; Parse destroys the old DOM first"""
    n = 0
    for f in facts.functions:
        if f.short == 'parseImpl' and f.cls_qn == 'sonic_json::GenericDocument':
            rep.fn(f)

            def gen_edge(b, cond, sense):
                c = strip_expect(cond)
                neg = False
                while c is not None and c.get('k') == 'un' and c['op'] == '!':
                    neg = not neg
                    c = strip_expect(c['e'])
                if c is not None and c.get('k') == 'call' and c.get('cname') == 'HasParseError':
                    return ['noerr'] if (sense == neg) else []
                return []

            def kill_stmt(s):
                for e in walk(s):
                    if e.get('k') in ('bin', 'call') and (e.get('op') == '=' or e.get('opcall') == '=') :
                        l = e.get('l') or (e.get('args') or [None])[0]
                        if l is not None and is_this_member(l, 'parse_result_'):
                            return ['noerr']
                return []
            M = Must(f, gen_edge=gen_edge, kill_stmt=kill_stmt)
            found = 0
            for bid, i, s, e in f.walk():
                # NodeType::operator=(std::move(sax.st_[0]))  : assignment into the document root
                if e.get('k') == 'call' and e.get('cname') == 'operator=' and 'DNode' in e.get('ccls', '') :
                    o = strip(e.get('obj')) if e.get('obj') is not None else None
                    if o is not None and o.get('k') == 'this' or (e.get('args') and strip(e['args'][0]) is not None and strip(e['args'][0]).get('k') in ('this',)):
                        found += 1
                        st = M.at(bid, i)
                        if st is None:
                            continue
                        rep.check('noerr' in st, 'E2.root-assign', f.qn, show(e), locline(e['loc']),
                                  'the parsed root may be installed only after the parse result was seen to be error-free', facts.config)
            rep.require(found >= 1, 'C01.e: root assignment not found in %s' % f.name)
            n += found
        if f.short == 'Parse' and f.cls_qn == 'sonic_json::GenericDocument' and len(f.params) == 2:
            rep.fn(f)
            order = []
            for bid, i, s, e in f.walk():
                if e.get('k') == 'call' and e.get('cname') in ('destroyDom', 'parseImpl'):
                    order.append(e['cname'])
            rep.check(order[:2] == ['destroyDom', 'parseImpl'], 'E2.destroy-first', f.qn, ' -> '.join(order), f.loc,
                      'the previous DOM must be destroyed (root set to null) before parsing', facts.config)
        if f.short == 'destroyDom' and f.cls_qn == 'sonic_json::GenericDocument':
            rep.fn(f)
            # every path to exit sets the root type to kNull
            def gen_stmt(s):
                for e in walk(s):
                    if e.get('k') == 'call' and e.get('cname') == 'setType' and e.get('args') and cval(e['args'][0]) == 0:
                        return ['null']
                return []
            M = Must(f, gen_stmt=gen_stmt)
            for bid, i, s in f.stmts():
                if strip(s).get('k') == 'ret':
                    st = M.at(bid, i)
                    if st is None:
                        continue   # unreachable in this instantiation
                    rep.check('null' in st, 'E2.destroy-null', f.qn, 'return', locline(strip(s)['loc']), 'root must be null on every exit of destroyDom', facts.config)
            ex = M.IN.get(f.exit)
            rep.check(ex is not None and 'null' in ex, 'E2.destroy-null', f.qn, 'exit', f.loc, 'root must be null on every exit of destroyDom', facts.config)
    rep.require(n >= 2, 'C01.e: fewer than two document root assignments analysed')
    # reported offset: Parser::Parse must not hand out the raw cursor (it runs past len_ into the sentinel)
    for f in facts.funcs(qn=PARSER + '::Parse'):
        err, buf, pos, ln = bind_names(f)
        if not (pos and ln):
            rep.require(False, 'C01.e: cursor/limit not bound in %s' % f.name)
            continue
        for bid, i, s in f.stmts():
            s_ = strip(s)
            if s_.get('k') != 'ret' or s_.get('e') is None:
                continue
            r = strip(s_['e'])
            while r is not None and r.get('k') in ('ctor', 'initlist') and len(r.get('args', [])) == 1:
                r = strip(r['args'][0])
            if r is None or len(r.get('args', [])) != 2:
                continue
            off = strip(r['args'][1])
            verdict = offset_bounded(off, pos, ln)
            if verdict is None:
                rep.require(False, 'C01.e: offset expression %s in %s not recognised' % (show(off), f.name))
            else:
                rep.check(verdict, 'E3.offset', f.qn, 'offset = %s' % show(off), locline(s_['loc']),
                          'the cursor runs into the sentinel on unterminated tokens; the reported offset must be bounded by the limit', facts.config)


def offset_bounded(e, pos, ln):
    """True: provably <= limit; False: raw cursor; None: unrecognised"""
    e = strip(e)
    if e is None:
        return None
    if is_this_member(e, ln):
        return True
    if is_this_member(e, pos):
        return False
    if e.get('k') == 'cond':
        a, b = strip(e['a']), strip(e['b'])
        c = strip_expect(e['c'])
        if c.get('k') == 'bin' and c['op'] in ('<', '<=', '>', '>='):
            l, r = strip(c['l']), strip(c['r'])
            op = c['op']
            if is_this_member(l, ln) and is_this_member(r, pos):
                l, r = r, l
                op = {'<': '>', '<=': '>=', '>': '<', '>=': '<='}[op]
            if is_this_member(l, pos) and is_this_member(r, ln):
                if op in ('<', '<='):
                    return is_this_member(a, pos) and is_this_member(b, ln)
                return is_this_member(a, ln) and is_this_member(b, pos)
        return None
    if e.get('k') == 'call' and e.get('cname') == 'min' and len(e.get('args', [])) == 2:
        names = set()
        for a in e['args']:
            a = strip(a)
            if is_this_member(a):
                names.add(a['name'])
        if names == {pos, ln}:
            return True
        return None
    return None


LEVEL = 'model_checking'
EXPLANATION = ('the model is not hand-written: it is re-extracted from the clang CFG of the current source on every run, '
               'so traces_validated_against_impl is 0 by construction; obligations/discharged count the additional dataflow and constant rules')


def run(rep, tier):
    from . import c01_number
    configs = ['K1'] if tier == 'quick' else ['K1', 'K3', 'K4', 'K7']
    for cfg in configs:
        facts = get_facts(cfg)
        rep.unit(facts)
        clause_a(facts, rep, tier)
        c01_number.check(facts, rep)
        clause_c(facts, rep)
        sent = sentinel_bytes(facts)
        w = c02.widest_load(facts)
        vl = c02.widest_load(facts, ('quote.inc.h',))
        c02.clause_d(facts, rep, w, vl)
        clause_e(facts, rep)
        from .. import ws_table
        ws_table.check(facts, rep)
        # 'a number whose magnitude overflows double is rejected': shared with C04 clause (e)
        from . import c04
        c04.clause_e(facts, rep)
        # white-space skipping of the padded parse: cached bitmap mask (shared with C11)
        from . import c11 as _c11
        _c11.clause_shift(facts, rep, {'K1': ('::avx2::',), 'K3': ('::sse::',), 'K4': ('::avx2::', '::sse::'), 'K7': ('::avx2::',)}[cfg])
    # 'raw control bytes below 0x20 ... are rejected': block screening, predicates and mask classes (shared with C05)
    from . import c05 as _c05
    for cfg5, nss5 in ((('K1', ('::avx2::',)), ('K3', ('::sse::',))) if tier == 'quick' else (('K1', ('::avx2::',)), ('K3', ('::sse::',)), ('K4', ('::avx2::', '::sse::')))):
        f5 = get_facts(cfg5)
        rep.unit(f5)
        _c05.clause_e(f5, rep, nss5)
        _c05.clause_f(f5, rep, nss5)
        _c05.clause_g(f5, rep, nss5)
        # white-space / structural masks: width and composition of the SIMD bitmasks (shared with C15)
        from . import c15 as _c15
        _c15.clause_f(f5, rep)
        _c15.clause_g(f5, rep)
    if tier == 'quick':
        # arch-specific source of the SSE configuration (white-space tables, padding vs. load widths): cheap, every run
        facts3 = get_facts('K3')
        rep.unit(facts3)
        w = c02.widest_load(facts3)
        vl = c02.widest_load(facts3, ('quote.inc.h',))
        c02.clause_d(facts3, rep, w, vl)
        from .. import ws_table
        ws_table.check(facts3, rep)
    rep.extra['traces_validated_against_impl'] = 0
    rep.trust('clang 14 parser/template instantiation/CFG builder/constant evaluator',
              'hand-written RFC 8259 reference transducer in sv/e6_vpa.py (ref_step)',
              'contract of scalar sub-parsers: consume one well-formed lexeme of their kind or set the error field')
    rep.assumptions += [
        'decides the lexeme-level grammar, the number sub-grammar obligations, literal/sentinel constants and failure-coherence clauses of DESIGN.md C01; string scanning, numeric values and SIMD white-space skipping are not decided here',
        'nesting explored exactly up to the stated depth bound; element counts saturate at 2',
    ]
