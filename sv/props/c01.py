"""C01 — Parse accepts exactly RFC 8259 and reports failure coherently
(clauses a-e of DESIGN.md section 5/C01)."""
from ..core import (get_facts, strip, strip_expect, cval, show, walk, locline, is_this_member, AnalysisBroken)
from ..e2_dom import Must, guard_lower_bound, linear
from .. import e6_vpa
from . import c02

PARSER = 'sonic_json::Parser'


def bind_names(parse_fn):
    """bind the cursor/limit/buffer/error members of Parser by data flow in Parser::Parse"""
    pn = {p['name']: p['id'] for p in parse_fn.params}
    buf = ln = err = pos = None
    for bid, i, s in parse_fn.stmts():
        s_ = strip(s)
        if s_.get('k') == 'bin' and s_['op'] == '=' and is_this_member(s_['l']):
            refs = [e for e in walk(s_['r']) if e.get('k') == 'ref' and e.get('dk') == 'param']
            if refs:
                t = refs[0].get('t', '')
                if '*' in t:
                    buf = strip(s_['l'])['name']
                else:
                    ln = strip(s_['l'])['name']
    for bid, i, s in parse_fn.stmts():
        s_ = strip(s)
        if s_.get('k') == 'ret' and s_.get('e') is not None:
            r = strip(s_['e'])
            while r is not None and r.get('k') in ('ctor', 'initlist') and len(r.get('args', [])) == 1:
                r = strip(r['args'][0])   # copy/move construction of the result
            if r is not None and r.get('k') in ('ctor', 'initlist') and len(r.get('args', [])) == 2:
                a0 = [e for e in walk(r['args'][0]) if e.get('k') == 'member' and is_this_member(e)]
                a1 = [e for e in walk(r['args'][1]) if e.get('k') == 'member' and is_this_member(e)]
                if not [e for e in a1 if e['name'] != ln]:
                    # the offset may be computed by a helper of the parser (a clamp of the cursor): look into what it returns
                    for c_ in walk(r['args'][1]):
                        if c_.get('k') == 'call' and c_.get('cid') is not None and getattr(parse_fn, 'facts', None) is not None:
                            g_ = parse_fn.facts.by_id.get(c_['cid'])
                            if g_ is not None:
                                a1 += [e for _b, _i, _s, e in g_.walk() if e.get('k') == 'member' and is_this_member(e)]
                if a0:
                    err = a0[0]['name']
                if a1:
                    # the cursor is the member that is not the limit
                    cands = [e['name'] for e in a1 if e['name'] != ln]
                    pos = cands[0] if cands else None
    return err, buf, pos, ln


def parse_entries(facts, handler_qn):
    out = []
    for f in facts.funcs(qn=PARSER + '::Parse'):
        if any(handler_qn.split('::')[-1] + '<' in p['t'] for p in f.params):
            out.append(f)
    return out


def clause_a(facts, rep, tier):
    sent = sentinel_bytes(facts)
    rep.require(sent is not None, 'C01.a: sentinel bytes not found')
    if sent is None:
        return
    entries = parse_entries(facts, 'sonic_json::SAXHandler')
    rep.require(len(entries) >= 1, 'C01.a: no Parser::Parse<SAXHandler> instantiation')
    roles = e6_vpa.Roles(facts, 'sonic_json::SAXHandler', None)
    total_states = total_trans = 0
    for entry in entries if tier == 'thorough' else entries[:1]:
        names = bind_names(entry)
        rep.require(all(names), 'C01.a: could not bind error/buffer/cursor/limit members in %s: %s' % (entry.name, names))
        if not all(names):
            continue
        # restrict roles to the family members instantiated for this handler type
        targ = [t for t in entry.d.get('targs', []) if 'SAXHandler<' in t][0]
        fam = {}
        for f in facts.functions:
            if f.cls_qn != PARSER:
                continue
            hts = [t for t in f.d.get('targs', []) if 'Handler<' in t]
            if hts and targ not in hts:
                continue
            fam[f.id] = f
        r2 = e6_vpa.Roles(facts, 'sonic_json::SAXHandler', None)
        r2.fam = fam
        kinds = sorted(set(r2.kind[i] for i in r2.kind if i in fam))
        rep.require(kinds == ['false', 'key', 'null', 'num', 'str', 'true'], 'C01.a: scalar sub-parsers bound: %s' % kinds)
        arr_mask = None
        for f in fam.values():
            for bid, i, s, e in f.walk():
                if e.get('k') == 'call' and e.get('cname') == 'push_back' and e.get('ccls', '').startswith('std::vector'):
                    c = cval(e['args'][0])
                    if c:
                        arr_mask = c
        rep.require(arr_mask is not None, 'C01.a: array mask not found')
        if arr_mask is None:
            continue
        for f in fam.values():
            rep.fn(f)
        viol, stats = e6_vpa.explore(facts, rep, entry, r2, sent[0], arr_mask, names,
                                     max_depth=3 if tier == 'quick' else 4, max_len=12 if tier == 'quick' else 16)
        total_states += stats['states']
        total_trans += stats['transitions']
        rep.extra.setdefault('product', []).append(dict(entry=entry.name, states=stats['states'], transitions=stats['transitions'],
                                                        samples=stats['samples']))
        seen = set()
        for tr, msg in viol:
            key = msg.split(':')[0]
            txt = ' '.join(e6_vpa.sym_str(s) for s in tr)
            lang = 'events' in msg or 'event' in msg
            rule = 'E6.events' if lang else 'E6.language'
            if (rule, msg) in seen:
                continue
            seen.add((rule, msg))
            rep.fail(rule, entry.qn, msg, entry.loc, 'shortest separating lexeme sequence: %s' % txt, facts.config)
        if not viol:
            rep.ok('E6.language', '%s: language of the extracted skeleton == RFC 8259 reference (%d states, %d transitions)' % (
                entry.qn, stats['states'], stats['transitions']), entry.loc)
            rep.ok('E6.events', '%s: SAX transduction of the extracted skeleton == canonical transduction' % entry.qn, entry.loc)
    rep.extra['states'] = total_states
    rep.extra['transitions'] = total_trans
    rep.require(total_states >= 100, 'C01.a: product exploration visited only %d states' % total_states)
    check_has_trailing(facts, rep)


def check_has_trailing(facts, rep):
    """hasTrailingChars returns true only on a non-space byte below len_, false only at len_"""
    fs = facts.funcs(qn=PARSER + '::hasTrailingChars')
    rep.require(len(fs) == 1, 'C01.a: hasTrailingChars not found')
    for f in fs:
        rep.fn(f)

        def sym(e):
            if e.get('k') == 'member' and is_this_member(e):
                return e['name']
            return None

        def gen_edge(b, cond, sense):
            out = []
            m = guard_lower_bound(cond, sense, sym, 'len_', 'pos_')
            if m is not None and m >= 1:
                out.append('below')
            m2 = guard_lower_bound(cond, sense, sym, 'pos_', 'len_')
            if m2 is not None and m2 >= 0:
                out.append('atend')
            c = strip_expect(cond)
            neg = False
            while c is not None and c.get('k') == 'un' and c['op'] == '!':
                neg = not neg
                c = strip_expect(c['e'])
            if c is not None and c.get('k') == 'call' and c.get('cname') == 'IsSpace':
                out.append('space' if (sense != neg) else 'nonspace')
            return out

        def kill_stmt(s):
            for e in walk(s):
                if (e.get('k') == 'un' and e['op'] in ('++', '--') and is_this_member(e['e'], 'pos_')) or \
                   (e.get('k') == 'bin' and e['op'] in ('=', '+=', '-=') and is_this_member(e['l'], 'pos_')):
                    return ['below', 'atend', 'space', 'nonspace']
            return []
        M = Must(f, gen_edge=gen_edge, kill_stmt=kill_stmt)
        n = 0
        for bid, i, s in f.stmts():
            s_ = strip(s)
            if s_.get('k') == 'ret':
                st = M.at(bid, i) or frozenset()
                c = cval(s_['e'])
                n += 1
                if c:
                    rep.check('below' in st and 'nonspace' in st, 'E2.trailing', f.qn, show(s_), locline(s_['loc']),
                              'true only for a non-space byte at an index below the limit', facts.config)
                else:
                    rep.check(c == 0 and 'atend' in st, 'E2.trailing', f.qn, show(s_), locline(s_['loc']),
                              'false only when the cursor reached the limit', facts.config)
            for e in walk(s_):
                if e.get('k') == 'un' and e['op'] == '++' and is_this_member(e['e'], 'pos_'):
                    st = M.at(bid, i) or frozenset()
                    rep.check('space' in st and 'below' in st, 'E2.trailing', f.qn, show(e), locline(e['loc']),
                              'the cursor may step only over white space below the limit', facts.config)
        rep.require(n >= 2, 'C01.a: hasTrailingChars has fewer than two returns')


def sentinel_bytes(facts):
    """the three bytes allocateStringBuffer leaves behind the text, read off by evaluating it (sv/minterp.py) for a
    5-byte text - independent of how the stores are spelt"""
    from ..minterp import Interp, Unsupported, UndefinedBehaviour
    for f in facts.functions:
        if f.short != 'allocateStringBuffer' or len(f.params) != 2:
            continue
        TEXT, BASE, L = 0x2000, 0x100000, 5
        try:
            def hook(e, args, env, members):
                if (e.get('cname') or '') == 'Malloc' and len(args) == 1 and isinstance(args[0], int):
                    for j_ in range(args[0]):
                        it.memory[BASE + j_] = 0xCD
                    it.writable.append((BASE, BASE + args[0]))
                    return BASE
                return None
            it = Interp(f, facts, call_hook=hook, max_steps=20000)
            it.memory = {TEXT + i_: 0x41 + i_ for i_ in range(L)}
            it.writable = []
            it.written = set()
            it.run({f.params[0]['id']: TEXT, f.params[1]['id']: L}, {'alloc_': 'ALLOC', 'str_': 0, 'schema_str_': 0})
            if all((BASE + L + k_) in it.written for k_ in range(3)):
                return [it.memory[BASE + L + k_] for k_ in range(3)]
        except (Unsupported, UndefinedBehaviour):
            return None
    return None


LITS = {'kNullBin': b'null', 'kTrueBin': b'true', 'kFalseBin': b'alse'}


def clause_c(facts, rep):
    """literal constants and cursor advances"""
    n = 0
    seen = set()
    for s in facts.statics:
        if s['name'] in LITS:
            key = (s['name'], locline(s['loc']))
            if key in seen:
                continue
            seen.add(key)
            want = int.from_bytes(LITS[s['name']], 'little')
            n += 1
            rep.check(str(s.get('value')) == str(want), 'E5.literal', s['func'].split('<')[0] or s['qn'], '%s == 0x%x' % (s['name'], want),
                      locline(s['loc']), 'little-endian bytes of %r' % LITS[s['name']].decode(), facts.config)
    rep.require(n >= 6, 'C01.c: literal constants: found %d of 6 (parser.h and skip_common.h copies)' % n)
    # cursor advance after a match equals literal length relative to the compared offset
    for f in facts.functions:
        if f.cls_qn != PARSER or f.short not in ('parseNull', 'parseTrue', 'parseFalse'):
            continue
        rep.fn(f)
        off = adv = None
        for bid, i, s, e in f.walk():
            if e.get('k') == 'call' and e.get('cname') == 'EqBytes4':
                lf = linear(e['args'][0], lambda x: x['name'] if (x.get('k') == 'member' and is_this_member(x)) else None)
                if lf is not None:
                    off = lf.get(1, 0)
            if e.get('k') == 'bin' and e['op'] == '+=' and is_this_member(e['l'], 'pos_'):
                adv = cval(e['r'])
        if off is None or adv is None:
            rep.require(False, 'C01.c: %s: compare offset / advance not recognised' % f.name)
            continue
        # pos_ is one past the first byte; compared bytes start at pos_+off, 4 bytes; literal starts at pos_-1
        total = {'parseNull': 4, 'parseTrue': 4, 'parseFalse': 5}[f.short]
        rep.check(off + 4 == total - 1 and adv == total - 1, 'E5.literal', f.qn, 'compare at pos_%+d, advance %d' % (off, adv), f.loc,
                  'the 4 compared bytes must end at the literal end and the cursor must land just past it', facts.config)


def clause_e(facts, rep):
    """failure coherence in GenericDocument: root assigned only on the no-error edge; Parse destroys the old DOM first"""
    n = 0
    for f in facts.functions:
        if f.short == 'parseImpl' and f.cls_qn == 'sonic_json::GenericDocument':
            rep.fn(f)

            def gen_edge(b, cond, sense):
                c = strip_expect(cond)
                neg = False
                while c is not None and c.get('k') == 'un' and c['op'] == '!':
                    neg = not neg
                    c = strip_expect(c['e'])
                if c is not None and c.get('k') == 'call' and c.get('cname') == 'HasParseError':
                    return ['noerr'] if (sense == neg) else []
                return []

            def kill_stmt(s):
                for e in walk(s):
                    if e.get('k') in ('bin', 'call') and (e.get('op') == '=' or e.get('opcall') == '=') :
                        l = e.get('l') or (e.get('args') or [None])[0]
                        if l is not None and is_this_member(l, 'parse_result_'):
                            return ['noerr']
                return []
            M = Must(f, gen_edge=gen_edge, kill_stmt=kill_stmt)
            found = 0
            for bid, i, s, e in f.walk():
                # NodeType::operator=(std::move(sax.st_[0]))  : assignment into the document root
                if e.get('k') == 'call' and e.get('cname') == 'operator=' and 'DNode' in e.get('ccls', '') :
                    o = strip(e.get('obj')) if e.get('obj') is not None else None
                    if o is not None and o.get('k') == 'this' or (e.get('args') and strip(e['args'][0]) is not None and strip(e['args'][0]).get('k') in ('this',)):
                        found += 1
                        st = M.at(bid, i)
                        if st is None:
                            continue
                        rep.check('noerr' in st, 'E2.root-assign', f.qn, show(e), locline(e['loc']),
                                  'the parsed root may be installed only after the parse result was seen to be error-free', facts.config)
            rep.require(found >= 1, 'C01.e: root assignment not found in %s' % f.name)
            n += found
        if f.short == 'Parse' and f.cls_qn == 'sonic_json::GenericDocument' and len(f.params) == 2:
            rep.fn(f)
            order = []
            for bid, i, s, e in f.walk():
                if e.get('k') == 'call' and e.get('cname') in ('destroyDom', 'parseImpl'):
                    order.append(e['cname'])
            rep.check(order[:2] == ['destroyDom', 'parseImpl'], 'E2.destroy-first', f.qn, ' -> '.join(order), f.loc,
                      'the previous DOM must be destroyed (root set to null) before parsing', facts.config)
        if f.short == 'destroyDom' and f.cls_qn == 'sonic_json::GenericDocument':
            rep.fn(f)
            # every path to exit sets the root type to kNull
            def gen_stmt(s):
                for e in walk(s):
                    if e.get('k') == 'call' and e.get('cname') == 'setType' and e.get('args') and cval(e['args'][0]) == 0:
                        return ['null']
                return []
            M = Must(f, gen_stmt=gen_stmt)
            for bid, i, s in f.stmts():
                if strip(s).get('k') == 'ret':
                    st = M.at(bid, i)
                    if st is None:
                        continue   # unreachable in this instantiation
                    rep.check('null' in st, 'E2.destroy-null', f.qn, 'return', locline(strip(s)['loc']), 'root must be null on every exit of destroyDom', facts.config)
            ex = M.IN.get(f.exit)
            rep.check(ex is not None and 'null' in ex, 'E2.destroy-null', f.qn, 'exit', f.loc, 'root must be null on every exit of destroyDom', facts.config)
    rep.require(n >= 2, 'C01.e: fewer than two document root assignments analysed')
    # reported offset: Parser::Parse must not hand out the raw cursor (it runs past len_ into the sentinel)
    for f in facts.funcs(qn=PARSER + '::Parse'):
        err, buf, pos, ln = bind_names(f)
        if not (pos and ln):
            rep.require(False, 'C01.e: cursor/limit not bound in %s' % f.name)
            continue
        for bid, i, s in f.stmts():
            s_ = strip(s)
            if s_.get('k') != 'ret' or s_.get('e') is None:
                continue
            r = strip(s_['e'])
            while r is not None and r.get('k') in ('ctor', 'initlist') and len(r.get('args', [])) == 1:
                r = strip(r['args'][0])
            if r is None or len(r.get('args', [])) != 2:
                continue
            off = strip(r['args'][1])
            verdict = offset_bounded(off, pos, ln)
            if verdict is None:
                # any other spelling (a clamp helper, std::min through a local, ...): the expression is evaluated
                # (sv/minterp.py) for cursor / limit pairs - it must never exceed the limit and must be the cursor when
                # the cursor is inside the text
                from ..minterp import Interp, Unsupported, UndefinedBehaviour
                try:
                    vals = []
                    for p_, l_ in ((0, 0), (3, 5), (5, 5), (6, 5), (70, 5), (1, 0)):
                        it_ = Interp(f, facts, call_hook=lambda e_, a_, env_, m_: (min(a_) if (e_.get('cname') == 'min' and len(a_) == 2 and all(isinstance(x, int) for x in a_)) else None))
                        vals.append((p_, l_, it_.ev(off, {}, {pos: p_, ln: l_, 'err_': 1})))
                    verdict = all(isinstance(v, int) and v <= l_ and (v == p_ if p_ <= l_ else True) for p_, l_, v in vals)
                except (Unsupported, UndefinedBehaviour, KeyError, TypeError):
                    verdict = None
            if verdict is None:
                rep.require(False, 'C01.e: offset expression %s in %s not recognised' % (show(off), f.name))
            else:
                rep.check(verdict, 'E3.offset', f.qn, 'offset = %s' % show(off), locline(s_['loc']),
                          'the cursor runs into the sentinel on unterminated tokens; the reported offset must be bounded by the limit', facts.config)


def offset_bounded(e, pos, ln):
    """True: provably <= limit; False: raw cursor; None: unrecognised"""
    e = strip(e)
    if e is None:
        return None
    if is_this_member(e, ln):
        return True
    if is_this_member(e, pos):
        return False
    if e.get('k') == 'cond':
        a, b = strip(e['a']), strip(e['b'])
        c = strip_expect(e['c'])
        if c.get('k') == 'bin' and c['op'] in ('<', '<=', '>', '>='):
            l, r = strip(c['l']), strip(c['r'])
            op = c['op']
            if is_this_member(l, ln) and is_this_member(r, pos):
                l, r = r, l
                op = {'<': '>', '<=': '>=', '>': '<', '>=': '<='}[op]
            if is_this_member(l, pos) and is_this_member(r, ln):
                if op in ('<', '<='):
                    return is_this_member(a, pos) and is_this_member(b, ln)
                return is_this_member(a, ln) and is_this_member(b, pos)
        return None
    if e.get('k') == 'call' and e.get('cname') == 'min' and len(e.get('args', [])) == 2:
        names = set()
        for a in e['args']:
            a = strip(a)
            if is_this_member(a):
                names.add(a['name'])
        if names == {pos, ln}:
            return True
        return None
    return None


LEVEL = 'model_checking'
EXPLANATION = ('the model is not hand-written: it is re-extracted from the clang CFG of the current source on every run, '
               'so traces_validated_against_impl is 0 by construction; obligations/discharged count the additional dataflow and constant rules')


def _err_nonzero_sense(cond):
    """for a branch condition that tests the error field against 'none': the
    sense (True/False) of the edge on which the field is known non-zero"""
    e = strip_expect(cond)
    neg = False
    while e is not None and e.get('k') == 'un' and e['op'] == '!':
        neg = not neg
        e = strip_expect(e['e'])
    if e is None:
        return None
    if is_this_member(e, 'err_'):
        return not neg
    if e.get('k') == 'bin' and e['op'] in ('!=', '=='):
        l, r = e['l'], e['r']
        for a, b in ((l, r), (r, l)):
            if is_this_member(a, 'err_') and cval(b) == 0:
                return (e['op'] == '!=') != neg
    return None


def clause_first_error(facts, rep):
    """'the code ... naming the fault class' / anchors: err_ is the first error seen.
    On every path on which the error field is already known non-zero (the edge of a
    test of the field) no further store to the field is reachable: the class set by
    the sub-parser (infinity, unescaped, escape format, unicode) is what is reported."""
    guards = 0
    for f in facts.functions:
        if f.cls_qn != PARSER:
            continue
        for b in f.d.get('blocks', []):
            t = b.get('term')
            if not t or t.get('cond') is None or len(b['succs']) != 2:
                continue
            sense = _err_nonzero_sense(t['cond'])
            if sense is None:
                continue
            guards += 1
            rep.fn(f)
            start = b['succs'][0] if sense else b['succs'][1]
            seen, work, bad = set(), [start], None
            while work and bad is None:
                x = work.pop()
                if x is None or x in seen:
                    continue
                seen.add(x)
                blk = f.blocks[x]
                for st in blk['stmts']:
                    for e in walk(st):
                        if e.get('k') == 'bin' and e['op'] == '=' and is_this_member(e['l'], 'err_'):
                            bad = (st, e)
                            break
                    if bad:
                        break
                work.extend(blk['succs'])
            line = locline((t['cond'] or {}).get('loc', f.d['loc']))
            rep.check(bad is None, 'E1.first-error', f.qn, 'error already set at line %s' % line,
                      line,
                      'a store to the error field is reachable after the field was found non-zero: %s' % (show(bad[1]) if bad else ''),
                      facts.config)
    rep.require(guards >= 8, 'C01.first-error: %d tests of the error field in Parser (>= 8 expected)' % guards)


def clause_error_sticky(facts, rep):
    """the error field is sticky across the whole Parser family: between the reset at the public entry and the
    result, every store to the field -- including the redundant 'no error' store that ends a successful number --
    happens where the field is known to be zero (Must token Z: reset, zero-edge of a test of the field, return from
    a callee that leaves it zero) or before any sub-parser ran (FRESH). A sub-parser that reports a fault only
    through the field must therefore be followed by a test of the field before the next sub-parser can clear it:
    otherwise an invalid text is accepted with code none."""
    fam = {f.id: f for f in facts.functions if f.cls_qn == PARSER}
    rep.require(len(fam) >= 12, 'C01.sticky: Parser family has %d functions (>= 12 expected)' % len(fam))

    setters = {}
    for f in fam.values():
        body = [x for _, _, x in f.stmts()]
        if len(body) == 1:
            b0 = strip(body[0])
            if b0.get('k') == 'bin' and b0['op'] == '=' and is_this_member(b0['l'], 'err_'):
                r = strip(b0['r'])
                if r.get('k') == 'ref' and r.get('dk') == 'param':
                    for idx, p_ in enumerate(f.params):
                        if p_['id'] == r['id']:
                            setters[f.id] = idx

    class _St(dict):
        pass

    def stores(s):
        """stores to the error field in statement s, direct or through the one-line setter: nodes with key 'r'"""
        for e in walk(s):
            if e.get('k') == 'bin' and e['op'] == '=' and is_this_member(e['l'], 'err_'):
                yield e
            elif e.get('k') == 'call' and e.get('cid') in setters and len(e.get('args', [])) > setters[e['cid']]:
                yield _St(k='setter', r=e['args'][setters[e['cid']]], loc=e['loc'], call=e)

    def ext_writer(e):
        if e.get('k') != 'call' or e.get('cid') in fam:
            return False
        cal = facts.by_id.get(e.get('cid'))
        for n, a in enumerate(e.get('args', [])):
            if a.get('k') == 'member' and is_this_member(a, 'err_'):
                t = cal.params[n]['t'] if cal is not None and n < len(cal.params) else '&'
                if '&' in t and 'const' not in t:
                    return True
        return False

    callees = {}
    for f in fam.values():
        cs = set()
        for bid, i, s, e in f.walk():
            if e.get('k') == 'call' and e.get('cid') in fam:
                cs.add(e['cid'])
        callees[f.id] = cs
    order, state = [], {}

    def visit(x):
        if state.get(x) == 2:
            return
        if state.get(x) == 1:
            raise AnalysisBroken('C01.sticky: recursion in the Parser family at %s' % fam[x].name)
        state[x] = 1
        for y in callees[x]:
            visit(y)
        state[x] = 2
        order.append(x)
    for x in fam:
        visit(x)
    called = set().union(*callees.values()) if callees else set()
    writer, needs, exitz = {}, {}, {}
    nstores = ncalls = 0
    for fid in order:
        f = fam[fid]
        if fid in setters:
            writer[fid], needs[fid], exitz[fid] = False, False, (False, True)
            continue
        w = False
        for bid, i, s, e in f.walk():
            if e.get('k') == 'call' and (ext_writer(e) or writer.get(e.get('cid'))):
                w = True
        for bid, i, s in f.stmts():
            for e in stores(s):
                if cval(e['r']) != 0:
                    w = True
        writer[fid] = w

        def kill_stmt(s):
            for e in walk(s):
                if e.get('k') == 'call':
                    if ext_writer(e):
                        return ('Z', 'FRESH')
                    c = e.get('cid')
                    if c in fam and writer[c] and not exitz[c][1]:
                        return ('Z', 'FRESH')
                    if c in fam and writer[c]:
                        return ('FRESH',)
            for e in stores(s):
                if cval(e['r']) != 0:
                    return ('Z', 'FRESH')
            return ()

        def gen_stmt(s):
            out = set()
            for e in walk(s):
                if e.get('k') == 'call' and e.get('cid') in fam and exitz[e['cid']][0]:
                    out.add('Z')
            for e in stores(s):
                if cval(e['r']) == 0:
                    out.add('Z')
            return out

        def gen_edge(b, cond, sense):
            ns = _err_nonzero_sense(cond)
            if ns is not None and sense in (True, False) and sense != ns:
                return ('Z',)
            return ()
        entry_fn = fid not in called
        res = {}
        for ent in (frozenset(), frozenset(['Z'])):
            ent2 = ent | (frozenset(['FRESH']) if entry_fn else frozenset())
            m = Must(f, gen_stmt=gen_stmt, kill_stmt=kill_stmt, gen_edge=gen_edge, entry=ent2)
            bad = []
            for bid, i, s in f.stmts():
                st = m.at(bid, i)
                if st is None:
                    continue
                # obligations inside this statement: stores, and calls of callees that need Z at entry
                # only a store that can clear the field is an obligation here (constant 0 or a computed value);
                # replacing one fault class by another on a guarded path is the business of E1.first-error
                obs = [('store', e) for e in stores(s) if cval(e['r']) in (0, None)]
                obs += [('call', e) for e in walk(s) if e.get('k') == 'call' and needs.get(e.get('cid'))]
                for kind, e in obs:
                    if not (st & {'Z', 'FRESH'}):
                        bad.append((kind, e))
            ex = m.IN.get(f.exit)
            res[bool(ent)] = (bad, ex is None or 'Z' in ex)
        exitz[fid] = (res[False][1], res[True][1])
        hard = res[True][0]
        soft = [b for b in res[False][0]]
        needs[fid] = bool(soft) and not entry_fn
        rep.fn(f)
        for bid, i, s in f.stmts():
            nstores += len(list(stores(s)))
        hard_ids = set(id(e) for _, e in hard)
        for kind, e in (soft if entry_fn else hard):
            pass
        viol = soft if entry_fn else hard
        for kind, e in viol:
            rep.check(False, 'E1.error-sticky', f.qn, '%s %s' % (kind, show(e.get('call', e))), locline(e['loc']),
                      'the error field is not known to be zero here (a fault reported by an earlier sub-parser can be overwritten or cleared): test the field first',
                      facts.config)
        if not viol:
            n = sum(1 for bid, i, s in f.stmts() for _ in stores(s)) + sum(1 for bid, i, s, e in f.walk() if e.get('k') == 'call' and needs.get(e.get('cid')))
            if n:
                ncalls += n
                rep.check(True, 'E1.error-sticky', f.qn, '%d stores / calls of clearing sub-parsers' % n, f.loc, '', facts.config)
    rep.require(nstores >= 10 and sum(1 for v in needs.values() if v) >= 3,
                'C01.sticky: %d stores to the error field, %d functions that need it zero at entry' % (nstores, sum(1 for v in needs.values() if v)))


def run(rep, tier):
    from . import c01_number
    configs = ['K1'] if tier == 'quick' else ['K1', 'K3', 'K4', 'K7']
    for cfg in configs:
        facts = get_facts(cfg)
        rep.unit(facts)
        clause_a(facts, rep, tier)
        try:
            c01_number.check(facts, rep)
        except AnalysisBroken as ex:
            rep.broken.append(str(ex))        # the remaining clauses (and the evaluation of parseNumber) still run
        clause_c(facts, rep)
        sent = sentinel_bytes(facts)
        w = c02.widest_load(facts)
        vl = c02.widest_load(facts, ('quote.inc.h',))
        c02.clause_d(facts, rep, w, vl)
        clause_e(facts, rep)
        clause_first_error(facts, rep)
        clause_error_sticky(facts, rep)
        c02.clause_setup_bound(facts, rep)     # 'succeeds for every valid text': the node stack holds every node of a valid text (shared with C02)
        from .. import ws_table
        ws_table.check(facts, rep)
        # 'a number whose magnitude overflows double is rejected': shared with C04 clause (e)
        from . import c04
        c04.clause_e(facts, rep)
        # white-space skipping of the padded parse: cached bitmap mask (shared with C11)
        from . import c11 as _c11
        _c11.clause_shift(facts, rep, {'K1': ('::avx2::',), 'K3': ('::sse::',), 'K4': ('::avx2::', '::sse::'), 'K7': ('::avx2::',)}[cfg])
    # 'raw control bytes below 0x20 ... are rejected': block screening, predicates and mask classes (shared with C05)
    from . import c05 as _c05
    for cfg5, nss5 in ((('K1', ('::avx2::',)), ('K3', ('::sse::',))) if tier == 'quick' else (('K1', ('::avx2::',)), ('K3', ('::sse::',)), ('K4', ('::avx2::', '::sse::')))):
        f5 = get_facts(cfg5)
        rep.unit(f5)
        if cfg5 == 'K1':
            # 'malformed escapes are rejected': escape table, hex decoding (evaluated), surrogate rules (shared with C05)
            ok5 = _c05.clause_a(f5, rep)
            _c05.clause_b(f5, rep, ok5)
            _c05.clause_b2(f5, rep)
            _c05.clause_c(f5, rep, tier)
        _c05.clause_e(f5, rep, nss5)
        _c05.clause_f(f5, rep, nss5)
        _c05.clause_g(f5, rep, nss5)
        # white-space / structural masks: width and composition of the SIMD bitmasks (shared with C15)
        from . import c15 as _c15
        _c15.clause_f(f5, rep)
        _c15.clause_g(f5, rep)
    if tier == 'quick':
        # arch-specific source of the SSE configuration (white-space tables, padding vs. load widths): cheap, every run
        facts3 = get_facts('K3')
        rep.unit(facts3)
        w = c02.widest_load(facts3)
        vl = c02.widest_load(facts3, ('quote.inc.h',))
        c02.clause_d(facts3, rep, w, vl)
        from .. import ws_table
        ws_table.check(facts3, rep)
    rep.extra['traces_validated_against_impl'] = 0
    # the number sub-grammar: parseNumber evaluated on valid number texts (must be accepted whole, with their value) and
    # on texts where a digit is required and missing (must be rejected) - sv/numvalue.py, shared with C04; the typestate
    # rules on parseNumber's CFG (E6.number, E2.digit-run) are decided together with it
    from .. import numvalue
    try:
        numvalue.clause(get_facts('K1'), rep, tier)
    except AnalysisBroken as ex:
        rep.broken.append(str(ex))
    from .. import scaneval
    try:
        scaneval.clause(get_facts('K1'), rep, tier)      # white-space skipping with the cached bitmap, byte by byte (shared with C11)
    except AnalysisBroken as ex:
        rep.broken.append(str(ex))
    # (the shift rule itself is not paired: the defect it exists for needs a white-space run that starts exactly two bytes
    # before the end of the cached block - only its instance floor is)
    rep.corroborate_floor('C11: cached-bitmap', 'E5.skip-extent')
    for r_ in ('E6.number', 'E2.digit-run'):
        rep.corroborate(r_, 'E5.number-value')
    rep.corroborate_floor('C01.b:', 'E5.number-value')
    rep.trust('clang 14 parser/template instantiation/CFG builder/constant evaluator',
              'hand-written RFC 8259 reference transducer in sv/e6_vpa.py (ref_step)',
              'contract of scalar sub-parsers: consume one well-formed lexeme of their kind or set the error field')
    rep.assumptions += [
        'decides the lexeme-level grammar, the number sub-grammar obligations, literal/sentinel constants and failure-coherence clauses of DESIGN.md C01; string scanning, numeric values and SIMD white-space skipping are not decided here',
        'nesting explored exactly up to the stated depth bound; element counts saturate at 2',
    ]
