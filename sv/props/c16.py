"""C16 — The pool allocator hands out aligned, disjoint, stable blocks: clauses
(a) alignment data flow (SONIC_ALIGN, header sizes, AlignBuffer evaluated on its
whole finite domain), (b) every bump of chunkHead->size stays inside the chunk,
ChunkSize(n) >= n, (c) Realloc guards, (d) zero-size Malloc returns null before
touching state, (e) refcount pairing (DESIGN.md section 5/C16)."""
from ..core import get_facts, strip, strip_expect, cval, show, walk, locline, is_this_member, AnalysisBroken
from ..e2_dom import Must

POOL = 'sonic_json::MemoryPoolAllocator'


def is_size_field(e):
    """shared_->chunkHead->size"""
    e = strip(e)
    return e is not None and e.get('k') == 'member' and e.get('name') == 'size' and any(x.get('k') == 'member' and x.get('name') == 'chunkHead' for x in walk(e))


def is_cap_field(e):
    e = strip(e)
    return e is not None and e.get('k') == 'member' and e.get('name') == 'capacity' and any(x.get('k') == 'member' and x.get('name') == 'chunkHead' for x in walk(e))


def aligned_expr(e, aligned_vars):
    """is the value of e a multiple of 8 by construction?  (x + 7) & ~7 ; aligned var ; difference/sum of aligned"""
    e0 = e
    c = cval(e)
    if c is not None:
        return c % 8 == 0
    e = strip(e)
    if e is None:
        return False
    k = e.get('k')
    if k == 'ref':
        return e.get('id') in aligned_vars
    if k == 'bin' and e['op'] == '&':
        m = cval(e['r'])
        if m is not None and (m & 7) == 0:
            return True
        m = cval(e['l'])
        return m is not None and (m & 7) == 0
    if k == 'bin' and e['op'] in ('+', '-'):
        return aligned_expr(e['l'], aligned_vars) and aligned_expr(e['r'], aligned_vars)
    if k == 'cast' or k == 'call' and e.get('cname') == '__builtin_expect':
        return aligned_expr(e.get('e') or e['args'][0], aligned_vars)
    return False


def chunk_size_rule(facts, rep):
    # ChunkSize(n) >= n: the policy functions are evaluated (sv/minterp.py) for every policy state / request pair on a
    # grid that contains all break points of their constants (state and request around 1 KiB, the 64 KiB cap, powers
    # of two +-1); whatever the spelling (ternary, std::max, early returns), the chunk must cover the request
    from ..minterp import Interp, Unsupported, UndefinedBehaviour
    m = 0
    for f in facts.functions:
        if f.short == 'ChunkSize' and 'ChunkPolicy' in (f.cls_qn or ''):
            rep.fn(f)
            fields = [x['name'] for c in facts.classes if c['qn'] == f.cls_qn for x in c['fields']]
            pts = sorted(set([1, 7, 8, 9, 1000, 1023, 1024, 1025, 4096, 65535, 65536, 65537, 100000, 131072, 131073, 1 << 20, (1 << 20) + 1, 1 << 31, (1 << 32) + 5]))
            bad = None
            cnt = 0
            try:
                for st0 in pts:
                    for need in pts:
                        cnt += 1
                        try:
                            got, _, mem, _ = Interp(f, facts).run({f.params[0]['id']: need}, {k: st0 for k in fields})
                        except UndefinedBehaviour as ex:
                            bad = 'policy state %d, request %d: undefined behaviour: %s' % (st0, need, ex)
                            break
                        if got is None or got < need:
                            bad = 'policy state %s=%d, request %d -> chunk of %s bytes' % ('/'.join(fields), st0, need, got)
                            break
                    if bad:
                        break
            except Unsupported as ex:
                raise AnalysisBroken('C16.b: %s cannot be evaluated: %s' % (f.qn, ex))
            m += 2
            rep.check(bad is None, 'E2.chunk-size', f.qn, 'ChunkSize(n) >= n for %d (policy state, request) pairs' % cnt, f.loc,
                      (bad or '') + ' - the new chunk must cover the request that caused it', facts.config)
    return m


def clause_ab(facts, rep, pol):
    n = 0
    for f in facts.functions:
        if f.cls_qn != POOL or f.short not in ('Malloc', 'Realloc') or pol not in f.name:
            continue
        rep.fn(f)
        # aligned locals: must-analysis "variable currently holds a multiple of 8"
        var_ids = set()
        for bid, i, s, e in f.walk():
            if e.get('k') == 'ref' and e.get('dk') in ('local', 'param'):
                var_ids.add(e['id'])
        state_aligned = {}

        def gen_stmt(s):
            out = []
            s_ = strip(s)
            for e in walk(s_):
                if e.get('k') == 'bin' and e['op'] == '=' and strip(e['l']).get('k') == 'ref':
                    pass
            return out
        # simple forward pass per block order is not enough with branches: use Must with tokens ('al', var)
        def mk_gen(f):
            def gen(s):
                out = []
                s_ = strip(s)
                es = [s_] if s_.get('k') != 'decl' else []
                if s_.get('k') == 'decl':
                    for v in s_['vars']:
                        if v.get('init') is not None and aligned_expr(v['init'], cur_al[0]):
                            out.append(('al', v['id']))
                for e in walk(s_):
                    if e.get('k') == 'bin' and e['op'] == '=' and strip(e['l']).get('k') == 'ref' and aligned_expr(e['r'], cur_al[0]):
                        out.append(('al', strip(e['l'])['id']))
                return out
            return gen

        def kill(s):
            out = []
            for e in walk(strip(s)):
                if e.get('k') == 'bin' and e['op'] in ('=', '+=', '-=') and strip(e['l']).get('k') == 'ref':
                    out.append(('al', strip(e['l'])['id']))
            return out
        # iterate: tokens depend on tokens (increment = newSize - originalSize): two rounds suffice here
        cur_al = [set()]
        M = None
        for _ in range(3):
            M = Must(f, gen_stmt=mk_gen(f), kill_stmt=lambda s: [t for t in kill(s) if t not in mk_gen(f)(s)])
            allv = set()
            for st in M.before.values():
                pass
            # variables aligned at every point where they are used as an increment
            cur = set()
            for (b, i), st in M.before.items():
                for t in st:
                    cur.add(t[1])
            if cur == cur_al[0]:
                break
            cur_al[0] = cur

        def fits_edge(b, cond, sense):
            """token ('fits', x): chunk.size + x <= chunk.capacity holds"""
            c = strip_expect(cond)
            neg = False
            while c is not None and c.get('k') == 'un' and c['op'] == '!':
                neg = not neg
                c = strip_expect(c['e'])
            out = []
            if c is not None and c.get('k') == 'bin' and c['op'] in ('>', '<=', '<', '>='):
                l, r = strip(c['l']), strip(c['r'])
                if l.get('k') == 'bin' and l['op'] == '+' and is_size_field(l['l']) and is_cap_field(r):
                    holds = (c['op'] == '<=' and (sense != neg)) or (c['op'] == '>' and (sense == neg))
                    if holds:
                        out.append(('fits', show(strip(l['r'])), frozenset(x_.get('id') for x_ in walk(l['r']) if x_.get('k') == 'ref')))
                elif l.get('k') == 'bin' and l['op'] == '+' and is_size_field(l['r']) and is_cap_field(r):
                    holds = (c['op'] == '<=' and (sense != neg)) or (c['op'] == '>' and (sense == neg))
                    if holds:
                        out.append(('fits', show(strip(l['l'])), frozenset(x_.get('id') for x_ in walk(l['l']) if x_.get('k') == 'ref')))
            # successful AddChunk(ChunkSize(x)) : fresh head chunk of capacity >= x and size 0
            if c is not None and c.get('k') == 'call' and c.get('cname') == 'AddChunk' and (sense != neg):
                a = strip_expect(c['args'][0])
                if a.get('k') == 'call' and a.get('cname') == 'ChunkSize':
                    out.append(('fits', show(strip(a['args'][0])), frozenset(x_.get('id') for x_ in walk(a['args'][0]) if x_.get('k') == 'ref')))
            return out

        def kill2(s):
            out = []
            for e in walk(strip(s)):
                if e.get('k') == 'bin' and e['op'] in ('=', '+=', '-=') and strip(e['l']).get('k') == 'ref':
                    out.append(strip(e['l'])['id'])
            return out
        fits_tokens = set()

        def fits_edge_rec(b, cond, sense):
            r_ = fits_edge(b, cond, sense)
            fits_tokens.update(r_)
            return r_
        Must(f, gen_edge=fits_edge_rec)       # collects the tokens
        M2 = Must(f, gen_edge=fits_edge, kill_stmt=lambda s: [t for t in fits_tokens if t[2] & set(kill2(s))])
        for bid, i, s, e in f.walk():
            if e.get('k') == 'bin' and e['op'] in ('+=', '=') and is_size_field(e['l']):
                st = M2.at(bid, i)
                sa = M.at(bid, i)
                if st is None:
                    continue
                inc = strip(e['r'])
                n += 1
                ok_fit = any(t_[0] == 'fits' and t_[1] == show(inc) for t_ in st)
                rep.check(e['op'] == '+=' and ok_fit, 'E2.bump-in-chunk', f.qn, show(e), locline(e['loc']),
                          'the bump must be dominated by size + x <= capacity or by a successful AddChunk(ChunkSize(x))', facts.config)
                ok_al = sa is not None and aligned_expr(inc, set(t_[1] for t_ in sa if t_[0] == 'al'))
                rep.check(ok_al, 'E2.bump-aligned', f.qn, 'increment %s is a multiple of 8' % show(inc), locline(e['loc']),
                          'every amount added to the chunk size must come from SONIC_ALIGN (or a difference of such)', facts.config)
    rep.require(n >= 2, 'C16.b: bump sites found: %d (%s)' % (n, pol))
    # AddChunk: the new head has size 0 and the requested capacity
    for f in facts.functions:
        if f.cls_qn == POOL and f.short == 'AddChunk' and pol in f.name:
            rep.fn(f)
            stores = {}
            for bid, i, s, e in f.walk():
                if e.get('k') == 'bin' and e['op'] == '=' and strip(e['l']).get('k') == 'member' and strip(strip(e['l']).get('base')).get('name') == 'chunk':
                    stores[strip(e['l'])['name']] = e['r']
            ok = cval(stores.get('size')) == 0 and strip(stores.get('capacity') or {}).get('dk') == 'param'
            rep.check(ok, 'E2.bump-in-chunk', f.qn, 'new chunk: size = 0, capacity = requested', f.loc, str({k: show(v) for k, v in stores.items()}), facts.config)
            # allocation covers header + capacity
            okm = False
            for bid, i, s, e in f.walk():
                if e.get('k') == 'call' and e.get('cname') == 'Malloc':
                    a = strip(e['args'][0])
                    okm = a.get('k') == 'bin' and a['op'] == '+' and any(x.get('k') == 'ref' and x.get('dk') == 'param' for x in walk(a)) and \
                        any((cval(x) or 0) >= 24 for x in (a['l'], a['r']))
            rep.check(okm, 'E2.bump-in-chunk', f.qn, 'chunk allocation = header + capacity', f.loc, '', facts.config)
    m = chunk_size_rule(facts, rep)
    rep.require(m >= 2, 'C16.b: ChunkSize returns found: %d' % m)


def eval_align_buffer(f, ubuf, size):
    """interpret AlignBuffer(buf, size&) : returns (ret pointer, new size) - by the general CFG interpreter when it can
    (any spelling: named locals, early returns), by the original mini-evaluator (which knows std::align) otherwise"""
    try:
        from ..minterp import Interp, Unsupported as _U, UndefinedBehaviour as _UB
        try:
            r_ = Interp(f, getattr(f, 'facts', None), max_steps=400).run({f.params[0]['id']: ubuf, f.params[1]['id']: size}, {})
            if isinstance(r_[0], int) and isinstance(r_[1].get(f.params[1]['id']), int):
                return r_[0], r_[1][f.params[1]['id']]
        except (_U, _UB):
            pass
    except ImportError:
        pass
    env = {f.params[0]['id']: ubuf, f.params[1]['id']: size}
    M = 2 ** 64 - 1

    def ev(e):
        c = cval(e)
        e_ = strip(e)
        if c is not None and e_.get('k') != 'ref':
            return c
        k = e_.get('k')
        if k == 'ref':
            if e_['id'] in env:
                return env[e_['id']]
            if c is not None:
                return c
            raise KeyError(e_.get('name'))
        if k == 'call' and e_.get('cname') == '__builtin_expect':
            return ev(e_['args'][0])
        if k == 'call' and e_.get('cname') == 'align' and len(e_.get('args', [])) == 4:
            # std::align(alignment, size, ptr&, space&): contract of the standard library
            al, sz = ev(e_['args'][0]), ev(e_['args'][1])
            pr, sr = strip(e_['args'][2]), strip(e_['args'][3])
            if pr is None or sr is None or pr.get('k') != 'ref' or sr.get('k') != 'ref':
                raise KeyError('std::align operands')
            ptr, space = env[pr['id']], env[sr['id']]
            adj = (-ptr) % al
            if space < adj + sz:
                return 0
            env[pr['id']] = ptr + adj
            env[sr['id']] = space - adj
            return ptr + adj
        if k == 'un':
            v = ev(e_['e'])
            return {'~': ~v & M, '!': int(not v), '-': (-v) & M}[e_['op']]
        if k == 'bin':
            op = e_['op']
            if op in ('=', '-=', '+='):
                r = ev(e_['r'])
                tid = strip(e_['l'])['id']
                if op == '=':
                    env[tid] = r
                elif op == '-=':
                    env[tid] = (env[tid] - r) & M
                else:
                    env[tid] = (env[tid] + r) & M
                return env[tid]
            l, r = ev(e_['l']), ev(e_['r'])
            return {'&': l & r, '+': (l + r) & M, '-': (l - r) & M, '>=': int(l >= r), '!=': int(l != r), '==': int(l == r), '|': l | r,
                    '>': int(l > r), '<': int(l < r), '<=': int(l <= r), '*': (l * r) & M}[op]
        raise KeyError(show(e_))
    b = f.entry
    for _ in range(60):
        B = f.blocks[b]
        for s in B['stmts']:
            s_ = strip(s)
            if s_.get('k') == 'ret':
                return ev(s_['e']), env[f.params[1]['id']]
            if s_.get('k') == 'decl':
                for v in s_['vars']:
                    if v.get('init') is not None:
                        env[v['id']] = ev(v['init'])
            elif s_.get('k') in ('bin', 'un', 'call', 'cast'):
                try:
                    ev(s_)
                except KeyError:
                    if s_.get('k') == 'bin' and s_['op'] in ('=', '-=', '+='):
                        raise
        t = B.get('term')
        succs = B['succs']
        if t and t.get('cond') is not None and len(succs) == 2:
            b = succs[0] if ev(t['cond']) else succs[1]
        else:
            b = [x for x in succs if x is not None][0]
    raise KeyError('no return')


def clause_a(facts, rep, pol):
    n = 0
    for f in facts.functions:
        if f.cls_qn == POOL and f.short == 'AlignBuffer' and pol in f.name:
            rep.fn(f)
            bad = []
            try:
                for off in range(16):
                    for size in (64, 72, 259, 1024):
                        ubuf = 0x7f0000001000 + off
                        ret, nsz = eval_align_buffer(f, ubuf, size)
                        skipped = ret - ubuf
                        if ret % 8 != 0 or not (0 <= skipped < 8) or nsz != size - skipped:
                            bad.append((off, size, hex(ret), nsz))
            except KeyError as ex:
                raise AnalysisBroken('C16.a: AlignBuffer not evaluable: %s' % ex)
            n += 1
            rep.check(not bad, 'E5.align-buffer', f.qn, 'for every misalignment 0..15: result 8-aligned, advanced by < 8, size reduced by exactly the bytes skipped', f.loc,
                      'first counter-example (offset, size, result, new size): %s' % (bad[:1],), facts.config)
            # the reduced size must reach the caller (the constructor computes the first chunk's capacity from it)
            pt = (f.params[1].get('t') or '')
            byref = '&' in pt and 'const' not in pt
            rep.check(byref, 'E5.align-buffer', f.qn, 'the size parameter is a mutable reference (%s)' % pt, f.loc,
                      'the bytes skipped for alignment must be deducted from the size the constructor uses for the chunk capacity; a by-value size overstates the capacity by up to 7 bytes', facts.config)
            # and the constructor derives the capacity from that same variable after the call
            for g in facts.functions:
                if g.cls_qn == POOL and g.d.get('ctor') and pol in g.name:
                    calls = [(bid, i, e) for bid, i, st, e in g.walk() if e.get('k') == 'call' and e.get('cid') == f.id]
                    for bid, i, e in calls:
                        a = strip(e['args'][1]) if len(e.get('args', [])) > 1 else None
                        ok = a is not None and a.get('k') == 'ref' and a.get('dk') in ('param', 'local')
                        used = ok and any(y.get('k') == 'bin' and y['op'] == '=' and strip(y['l']) is not None and strip(y['l']).get('k') == 'member' and strip(y['l']).get('name') == 'capacity'
                                          and any(z.get('k') == 'ref' and z.get('id') == a['id'] for z in walk(y['r'])) for _, _, _, y in g.walk())
                        if ok and not used:
                            # ... or through a helper that stores the argument derived from it into the capacity field
                            for _, _, _, y in g.walk():
                                if y.get('k') != 'call' or y.get('cid') in (None, f.id):
                                    continue
                                h = facts.by_id.get(y['cid'])
                                if h is None:
                                    continue
                                for ai, arg in enumerate(y.get('args') or []):
                                    if ai < len(h.params) and any(z.get('k') == 'ref' and z.get('id') == a['id'] for z in walk(arg)):
                                        pid_ = h.params[ai]['id']
                                        if any(w.get('k') == 'bin' and w['op'] == '=' and strip(w['l']) is not None and strip(w['l']).get('k') == 'member' and strip(w['l']).get('name') == 'capacity'
                                               and any(z.get('k') == 'ref' and z.get('id') == pid_ for z in walk(w['r'])) for _, _, _, w in h.walk()):
                                            used = True
                        rep.check(ok and used, 'E5.align-buffer', g.qn, 'chunk capacity is computed from the size variable handed to AlignBuffer', locline(e['loc']), '', facts.config)
    rep.require(n >= 1, 'C16.a: AlignBuffer not found')
    # header sizes aligned
    for s in facts.statics:
        if s['name'] in ('SIZEOF_SHARED_DATA', 'SIZEOF_CHUNK_HEADER') and pol.replace('Policy', '') in s['qn'] or (s['name'] in ('SIZEOF_SHARED_DATA', 'SIZEOF_CHUNK_HEADER') and 'value' in s):
            try:
                v = int(s['value'])
            except (TypeError, ValueError, KeyError):
                continue
            rep.check(v % 8 == 0 and v > 0, 'E5.align-buffer', s['qn'], '%s = %d is a multiple of 8' % (s['name'], v), locline(s['loc']), '', facts.config)


def clause_cd(facts, rep, pol):
    for f in facts.functions:
        if f.cls_qn != POOL or pol not in f.name:
            continue
        if f.short == 'Malloc':
            rep.fn(f)
            # (d) zero-size request returns null before any state is touched
            def gen_edge(b, cond, sense):
                c = strip_expect(cond)
                neg = False
                while c is not None and c.get('k') == 'un' and c['op'] == '!':
                    neg = not neg
                    c = strip_expect(c['e'])
                if c is not None and c.get('k') == 'ref' and c.get('name') == 'size' and (sense != neg):
                    return ['nonzero']
                return []
            M = Must(f, gen_edge=gen_edge)
            k = 0
            for bid, i, s, e in f.walk():
                if (e.get('k') == 'bin' and e['op'] in ('+=', '=') and is_size_field(e['l'])) or (e.get('k') == 'call' and e.get('cname') == 'AddChunk'):
                    st = M.at(bid, i)
                    if st is None:
                        continue
                    k += 1
                    rep.check('nonzero' in st, 'E2.zero-size', f.qn, show(e)[:60], locline(e['loc']), 'a zero-size request must return before the pool is touched', facts.config)
            rets0 = [cval(strip(s).get('e')) for _, _, s in f.stmts() if strip(s).get('k') == 'ret']
            rep.check(0 in rets0, 'E2.zero-size', f.qn, 'a null return exists', f.loc, '', facts.config)
        if f.short == 'Realloc':
            rep.fn(f)
            names = {p['name']: p['id'] for p in f.params}

            def gen_edge(b, cond, sense):
                c = strip_expect(cond)
                out = []
                if c is not None and c.get('k') == 'bin':
                    l, r = strip(c['l']), strip(c['r'])
                    # originalSize >= newSize  false  => growing
                    if c['op'] == '>=' and l.get('name') == 'originalSize' and r.get('name') == 'newSize' and not sense:
                        out.append('grow')
                    if c['op'] == '<' and l.get('name') == 'originalSize' and r.get('name') == 'newSize' and sense:
                        out.append('grow')
                    # originalPtr == GetChunkBuffer + size - originalSize   (last block)
                    if c['op'] == '==' and sense and l.get('name') == 'originalPtr' and any(is_size_field(x) for x in walk(c['r']) if x.get('k') == 'member') and \
                            any(x.get('k') == 'ref' and x.get('name') == 'originalSize' for x in walk(c['r'])):
                        out.append('last')
                    if c['op'] == '==' and l.get('name') == 'originalPtr' and cval(c['r']) == 0 and not sense:
                        out.append('nonnull')
                    if c['op'] == '==' and l.get('name') == 'newSize' and cval(c['r']) == 0 and not sense:
                        out.append('newnz')
                if c is not None and c.get('k') == 'ref' and c.get('name') == 'originalSize' and sense:
                    out.append('orignz')
                return out
            M = Must(f, gen_edge=gen_edge)
            k = 0
            for bid, i, s, e in f.walk():
                st = M.at(bid, i)
                if st is None:
                    continue
                if e.get('k') == 'bin' and e['op'] == '+=' and is_size_field(e['l']):
                    k += 1
                    rep.check('last' in st and 'grow' in st, 'E2.realloc', f.qn, 'in-place extension %s' % show(e), locline(e['loc']),
                              'only the most recent block may be extended in place, and only when growing', facts.config)
                if e.get('k') == 'call' and e.get('cname') == 'memcpy':
                    k += 1
                    ln = strip(e['args'][2])
                    rep.check('grow' in st and ln.get('name') == 'originalSize', 'E2.realloc', f.qn, show(e)[:70], locline(e['loc']),
                              'the copy moves the old contents (originalSize bytes) into a block that is at least newSize > originalSize', facts.config)
            rep.require(k >= 2, 'C16.c: Realloc obligations found: %d' % k)


def clause_e(facts, rep, pol):
    """refcount pairing"""
    k = 0
    for f in facts.functions:
        if f.cls_qn != POOL or pol not in f.name:
            continue
        txt = [show(s) for _, _, s in f.stmts()]
        is_copy = f.d.get('ctor') and len(f.params) == 1 and 'const' in f.params[0]['t'] and '&&' not in f.params[0]['t']
        is_move = f.d.get('ctor') and len(f.params) == 1 and '&&' in f.params[0]['t']
        if is_copy:
            rep.fn(f)
            k += 1
            rep.check(any('++' in t and 'refcount' in t for t in txt), 'E8.refcount', f.qn, 'copy constructor increments the shared count', f.loc, str(txt)[:120], facts.config)
        if is_move:
            rep.fn(f)
            k += 1
            rep.check(any('shared_ = 0' in t for t in txt) and not any('refcount' in t and ('++' in t or '--' in t) for t in txt), 'E8.refcount', f.qn,
                      'move constructor transfers the pool and nulls the source without touching the count', f.loc, str(txt)[:120], facts.config)
        if f.d.get('dtor'):
            rep.fn(f)
            k += 1
            has_dec = any('--' in t and 'refcount' in t for t in txt)
            has_clear = any(e.get('cname') == 'Clear' for _, _, _, e in f.calls())
            has_null = any(b.get('term') and 'shared_' in show(b['term'].get('cond')) for b in f.blocks.values())
            rep.check(has_dec and has_clear and has_null, 'E8.refcount', f.qn, 'destructor: moved-from check, decrement when shared, release when last', f.loc, str(txt)[:160], facts.config)
        if f.short == 'operator=' and len(f.params) == 1 and '&&' not in f.params[0]['t']:
            rep.fn(f)
            k += 1
            # increment of rhs happens before the self destruction
            order = []
            for bid, i, s in f.stmts():
                t = show(s)
                if '++' in t and 'refcount' in t:
                    order.append('inc')
                if '~MemoryPoolAllocator' in t:
                    order.append('dtor')
            rep.check(order[:2] == ['inc', 'dtor'], 'E8.refcount', f.qn, 'copy assignment increments the source before releasing itself', f.loc, str(order), facts.config)
    rep.require(k >= 4, 'C16.e: refcount sites found: %d (%s)' % (k, pol))


def round_up_rule(facts, rep, files=('sonic/allocator.h',), min_sites=3):
    """a request is rounded up to the alignment as (x + a) & m: for that to be the least multiple of a+1 not below x
    for EVERY x of x's type, a+1 is a power of two and m is ~a at the FULL width of x (a mask built at 32 bits and
    zero-extended clears bits 32..63 of a 64-bit size: a 4 GiB request then reserves a few bytes)."""
    from ..minterp import width
    n = 0
    seen = set()
    for f in facts.functions:
        if not any(f.file.endswith(x) for x in files):
            continue
        for bid, i, s_, e in f.walk():
            if e.get('k') != 'bin' or e['op'] != '&':
                continue
            for x, m in ((e['l'], e['r']), (e['r'], e['l'])):
                mv = cval(m)
                xs = strip(x)
                if mv is None or xs is None or xs.get('k') != 'bin' or xs['op'] != '+':
                    continue
                av = cval(xs['r']) if cval(xs['r']) is not None else cval(xs['l'])
                if av is None or av <= 0:
                    continue
                key = (f.qn, show(e), locline(e['loc']))
                if key in seen:
                    continue
                seen.add(key)
                rep.fn(f)
                w, _sg = width(e.get('t'))
                full = (1 << w) - 1
                n += 1
                rep.check((av & (av + 1)) == 0 and (mv & full) == (full & ~av), 'E5.round-up', f.qn, show(e), locline(e['loc']),
                          'addend %d, mask 0x%x at %d bits; the mask must be ~%d over all %d bits (0x%x)' % (av, mv & full, w, av, w, full & ~av), facts.config)
    rep.require(n >= min_sites, 'round-up: %d (x + a) & m expressions found in %s (>= %d expected)' % (n, files, min_sites))
    return n


def clause_chunk_chain(facts, rep):
    """'Size/Capacity account for what was handed out ... since the last Clear': Clear(), Size() and Capacity() of the
    pool are interpreted (sv/minterp.py) over chunk chains of 1..4 chunks with distinct sizes and capacities.  After
    Clear() the chain consists of exactly the first (user / stub) chunk, its size is 0, every other chunk was handed to
    the base allocator's Free exactly once and is not touched afterwards; Size() / Capacity() are the sums over the
    chain."""
    from ..minterp import Interp, Unsupported, UndefinedBehaviour

    class Chunk(dict):
        freed = False

        def __setitem__(self, k, v):
            if self.freed:
                raise UndefinedBehaviour('store to field %s of a chunk that was already freed' % k)
            dict.__setitem__(self, k, v)

        def __getitem__(self, k):
            if self.freed:
                raise UndefinedBehaviour('read of field %s of a chunk that was already freed' % k)
            return dict.__getitem__(self, k)
    fns = {}
    for f in facts.functions:
        if f.cls_qn == POOL and f.short in ('Clear', 'Size', 'Capacity') and not f.params and f.short not in fns:
            fns[f.short] = f
    rep.require(len(fns) == 3, 'C16: Clear / Size / Capacity of the pool found: %s' % sorted(fns))
    if len(fns) != 3:
        return

    def chain(k):
        cs = [Chunk(capacity=1000 + 100 * j, size=10 + j, next=0) for j in range(k)]
        for j in range(k - 1):
            dict.__setitem__(cs[j], 'next', cs[j + 1])
        return cs
    bad = None
    runs = 0
    try:
        for k in range(1, 5):
            cs = chain(k)
            freed = []

            def hook(e, args, env, members):
                if e.get('cname') == 'Free' and len(args) == 1:
                    if not isinstance(args[0], Chunk) or args[0].freed:
                        raise UndefinedBehaviour('Free(%r) of something that is not a live chunk' % (args[0],))
                    args[0].freed = True
                    freed.append(args[0])
                    return 0
                return None
            for name in ('Size', 'Capacity'):
                mem = {'shared_': {'chunkHead': cs[0], 'refcount': 1, 'ownBuffer': 0}}
                r = Interp(fns[name], facts, call_hook=hook).run({}, mem)[0]
                runs += 1
                want = sum(dict.__getitem__(c, 'size' if name == 'Size' else 'capacity') for c in cs)
                if r != want:
                    bad = '%s() over a chain of %d chunks = %s, the chunks sum to %s' % (name, k, r, want)
            mem = {'shared_': {'chunkHead': cs[0], 'refcount': 1, 'ownBuffer': 0}}
            r = Interp(fns['Clear'], facts, call_hook=hook).run({}, mem)
            runs += 1
            head = r[2]['shared_']['chunkHead']
            if head is not cs[-1]:
                bad = bad or 'Clear() on %d chunks leaves the head on chunk #%s, not on the first (user / stub) chunk' % (k, [i for i, c in enumerate(cs) if c is head])
            elif dict.__getitem__(head, 'size') != 0 or dict.__getitem__(head, 'next') != 0:
                bad = bad or 'Clear() on %d chunks: the surviving chunk has size %s, next %s (0 / null expected)' % (k, dict.__getitem__(head, 'size'), dict.__getitem__(head, 'next'))
            elif len(freed) != k - 1 or any(c is cs[-1] for c in freed):
                bad = bad or 'Clear() on %d chunks freed %d chunks (%d expected, never the first)' % (k, len(freed), k - 1)
            if bad:
                break
    except UndefinedBehaviour as ex:
        bad = 'chain of %d chunks: %s' % (k, ex)
    except Unsupported as ex:
        raise AnalysisBroken('C16: Clear / Size / Capacity cannot be interpreted: %s' % ex)
    rep.fn(fns['Clear'])
    rep.check(bad is None, 'E5.chunk-chain', fns['Clear'].qn, 'Clear / Size / Capacity over chunk chains of 1..4 chunks (%d evaluations)' % runs, fns['Clear'].loc, bad or '', facts.config)


def clause_pool_model(facts, rep, tier):
    """the pool against its specification by bounded exploration: Malloc / Realloc / AddChunk / GetChunkBuffer /
    ChunkSize / Clear / Size / Capacity are interpreted from their CFGs (sv/minterp.py) on a model in which a chunk is
    a record (capacity, size, next) at an address and the base allocator hands out fresh address ranges, over every
    sequence of <= 2 (thorough: 3) operations from a heap pool and a pool on a 40-byte user buffer, with a 64-byte
    chunk policy so that every boundary is near.  After each operation: a returned block is 8-aligned, lies inside the
    buffer of a live chunk, overlaps no other block handed out since the last Clear; Realloc keeps the address when the
    block is the most recent one and the growth fits (also exactly), otherwise copies the old bytes into the new block;
    Malloc(0) / Realloc(.., 0) return null; Size() is the sum of the chunk sizes and covers the live blocks,
    Capacity() the sum of the capacities; Clear leaves Size() == 0 and the first chunk."""
    from ..minterp import Interp, Unsupported, UndefinedBehaviour
    import itertools

    class Chunk(dict):
        def __init__(self, addr, region, **kw):
            dict.__init__(self, **kw)
            self.addr, self.region, self.freed = addr, region, False

        def __bool__(self):
            return True

        def cast_to(self, t):
            t = t or ''
            if 'ChunkHeader' in t or 'void' in t:
                return self
            if '*' in t:
                return self.addr
            return self

    class Raw:
        def __init__(self, addr, n):
            self.addr, self.n = addr, n

        def cast_to(self, t):
            if 'ChunkHeader' in (t or ''):
                return Chunk(self.addr, self.n)
            if '*' in (t or ''):
                return self if 'void' in t else self.addr
            return self
    fns = {}
    pol = {}
    for f in facts.functions:
        if f.cls_qn == POOL and f.short in ('Malloc', 'Realloc', 'AddChunk', 'Clear', 'Size', 'Capacity') and f.short not in fns:
            fns[f.short] = f        # the allocator interface (+ AddChunk); private helpers are interpreted under whatever name they have
        if f.short == 'ChunkSize' and (f.cls_qn or '').endswith('ChunkPolicy'):
            pol[f.cls_qn.split('::')[-1]] = f
    rep.require(len(fns) == 6 and pol, 'C16: pool functions found: %s, policies %s' % (sorted(fns), sorted(pol)))
    if len(fns) != 6 or not pol:
        return
    for f in fns.values():
        rep.fn(f)
    HDR = 24
    ALIGN = lambda n: (n + 7) & ~7

    class World:
        def __init__(self, user_buffer, policy):
            self.next_addr = 0x10000
            self.copies = []
            self.freed = []
            if user_buffer:
                c0 = Chunk(0x8000, HDR + user_buffer, capacity=user_buffer, size=0, next=0)
            else:
                c0 = Chunk(0x8000, HDR, capacity=0, size=0, next=0)
            self.first = c0
            self.mem = {'shared_': {'chunkHead': c0, 'ownBaseAllocator': 0, 'refcount': 1, 'ownBuffer': int(not user_buffer)},
                        'cp_': {'min_chunk_size_': 64}, 'baseAllocator_': 'BASE'}
            self.policy = policy
            self.live = []          # (addr, aligned size)

        def hook(self, e, args, env, members):
            nm = e.get('cname') or ''
            if nm == 'ChunkSize':
                st = members['cp_']
                r = Interp(self.policy, facts).run({self.policy.params[0]['id']: args[0]}, st)
                st.clear()
                st.update(r[2])
                return r[0]
            if nm == 'Malloc' and e.get('obj') is not None and len(args) == 1 and 'baseAllocator_' in show(e['obj']):
                a = self.next_addr
                self.next_addr += (args[0] + 0xfff) & ~0xfff
                return Raw(a, args[0])
            if nm == 'Free' and len(args) == 1:
                c = args[0]
                if not isinstance(c, Chunk) or c.freed:
                    raise UndefinedBehaviour('Free of something that is not a live chunk')
                c.freed = True
                self.freed.append(c)
                return 0
            if nm in ('memcpy', '__builtin_memcpy') and len(args) == 3:
                self.copies.append(tuple(args))
                return args[0]
            return None

        def call(self, name, *args):
            f = fns[name]
            it = Interp(f, facts, call_hook=self.hook, max_steps=20000)
            r = it.run({p_['id']: a for p_, a in zip(f.params, args)}, self.mem)
            self.mem = r[2]
            return r[0]

        def chunks(self):
            c = self.mem['shared_']['chunkHead']
            out = []
            while c != 0:
                out.append(c)
                c = dict.__getitem__(c, 'next')
                if len(out) > 50:
                    raise UndefinedBehaviour('the chunk list is cyclic')
            return out

    def inside(w, addr, n):
        for c in w.chunks():
            lo = c.addr + HDR
            if lo <= addr and addr + n <= lo + dict.__getitem__(c, 'capacity') and not c.freed:
                return True
        return False

    def check_block(w, p, n, what):
        if not isinstance(p, int) or p == 0:
            return '%s returned %r' % (what, p)
        if p % 8:
            return '%s returned the unaligned address 0x%x' % (what, p)
        if not inside(w, p, ALIGN(n)):
            return '%s: the block [0x%x, +%d) does not lie inside the buffer of a live chunk' % (what, p, ALIGN(n))
        for (q, m) in w.live:
            if q != p and not (p + ALIGN(n) <= q or q + m <= p):
                return '%s: the block [0x%x, +%d) overlaps the block [0x%x, +%d) handed out earlier' % (what, p, ALIGN(n), q, m)
        return None

    def accounting(w):
        cs = w.chunks()
        sz, cap = w.call('Size'), w.call('Capacity')
        if sz != sum(dict.__getitem__(c, 'size') for c in cs) or cap != sum(dict.__getitem__(c, 'capacity') for c in cs):
            return 'Size() / Capacity() = %s / %s, the chunks sum to %s / %s' % (sz, cap, sum(dict.__getitem__(c, 'size') for c in cs), sum(dict.__getitem__(c, 'capacity') for c in cs))
        if sz < sum(m for _, m in w.live):
            return 'Size() = %d does not cover the %d bytes of the live blocks' % (sz, sum(m for _, m in w.live))
        for c in cs:
            if dict.__getitem__(c, 'size') > dict.__getitem__(c, 'capacity'):
                return 'a chunk has size %d > capacity %d' % (dict.__getitem__(c, 'size'), dict.__getitem__(c, 'capacity'))
        return None

    def run_seq(user, policy, ops):
        w = World(user, policy)
        for op in ops:
            if op[0] == 'malloc':
                n = op[1]
                p = w.call('Malloc', n)
                if n == 0:
                    if p != 0:
                        return 'Malloc(0) returned 0x%x' % p
                    continue
                r = check_block(w, p, n, 'Malloc(%d)' % n)
                if r:
                    return r
                w.live.append((p, ALIGN(n)))
            elif op[0] == 'realloc':
                if not w.live:
                    continue
                idx = -1 if op[1] == 'last' else 0
                p0, m0 = w.live[idx]
                head = w.mem['shared_']['chunkHead']
                is_last = p0 + m0 == head.addr + HDR + dict.__getitem__(head, 'size')
                room = dict.__getitem__(head, 'capacity') - dict.__getitem__(head, 'size')
                new = {'same': m0, 'shrink': max(m0 - 8, 0), 'grow8': m0 + 8, 'grow3': m0 + 3, 'fit': m0 + room, 'fit+8': m0 + room + 8, 'big': m0 + 200, 'zero': 0}[op[2]]
                w.copies = []
                p = w.call('Realloc', p0, m0, new)
                if new == 0:
                    if p != 0:
                        return 'Realloc(.., %d, 0) returned 0x%x' % (m0, p)
                    continue
                if ALIGN(new) <= m0:
                    if p != p0:
                        return 'Realloc to a size that is not larger moved the block'
                    continue
                if is_last and ALIGN(new) - m0 <= room:
                    if p != p0:
                        return 'Realloc(%d -> %d) of the most recent block with %d bytes of room left did not grow in place' % (m0, new, room)
                    w.live[idx] = (p0, ALIGN(new))
                else:
                    r = check_block(w, p, new, 'Realloc(%d -> %d)' % (m0, new))
                    if r:
                        return r
                    if p == p0:
                        return 'Realloc(%d -> %d) kept the address although the block cannot grow there' % (m0, new)
                    if m0 and (p, p0, m0) not in w.copies:
                        return 'Realloc(%d -> %d) moved the block without copying its %d bytes (copies: %s)' % (m0, new, m0, w.copies)
                    w.live.append((p, ALIGN(new)))     # the old block stays allocated (never freed), the new one is live too
            elif op[0] == 'clear':
                w.call('Clear')
                w.live = []
                if w.call('Size') != 0:
                    return 'Size() after Clear() is %d' % w.call('Size')
                if w.mem['shared_']['chunkHead'] is not w.first:
                    return 'Clear() does not leave the first (user / stub) chunk as the head'
            r = accounting(w)
            if r:
                return 'after %s: %s' % (op, r)
            for (q, m) in w.live:
                if not inside(w, q, m):
                    return 'after %s: the block [0x%x, +%d) handed out earlier is no longer inside a live chunk' % (op, q, m)
        return None
    sizes = [0, 1, 8, 9, 24, 40, 41, 64, 65, 200, 70000]
    alphabet = [('malloc', n) for n in sizes] + [('realloc', w_, k) for w_ in ('last', 'first') for k in ('same', 'shrink', 'grow8', 'grow3', 'fit', 'fit+8', 'big', 'zero')] + [('clear',)]
    depth = 3 if tier == 'thorough' else 2
    bad = None
    nseq = 0
    try:
        for pname, pf in sorted(pol.items()):
            for user in (0, 40, 44):
                for d in range(1, depth + 1):
                    for ops in itertools.product(alphabet, repeat=d):
                        if ops[0][0] != 'malloc':
                            continue
                        nseq += 1
                        try:
                            r = run_seq(user, pf, ops)
                        except UndefinedBehaviour as ux:
                            r = 'undefined behaviour: %s' % ux
                        if r:
                            bad = '%s, %s, operations %s: %s' % (pname, ('user buffer of %d bytes' % user) if user else 'heap pool', list(ops), r)
                            break
                    if bad:
                        break
                if bad:
                    break
            if bad:
                break
        # three operations, the first two being allocations of boundary sizes
        if bad is None and depth < 3:
            firsts = [('malloc', n) for n in (1, 24, 40, 64, 65)] + [('realloc', 'last', 'grow3')]
            for pname, pf in sorted(pol.items()):
                for user in (0, 40, 44):
                    for a_, b_ in itertools.product(firsts, repeat=2):
                        if a_[0] != 'malloc':
                            continue
                        for c_ in alphabet:
                            nseq += 1
                            try:
                                r = run_seq(user, pf, (a_, b_, c_))
                            except UndefinedBehaviour as ux:
                                r = 'undefined behaviour: %s' % ux
                            if r:
                                bad = '%s, %s, operations %s: %s' % (pname, ('user buffer of %d bytes' % user) if user else 'heap pool', [a_, b_, c_], r)
                                break
                        if bad:
                            break
                    if bad:
                        break
                if bad:
                    break
        # a few longer histories: fill a chunk exactly, spill, clear, reuse
        if bad is None:
            for pname, pf in sorted(pol.items()):
                for user in (0, 40, 44):
                    for ops in ([('malloc', 40), ('malloc', 24), ('realloc', 'last', 'fit'), ('malloc', 8), ('clear',), ('malloc', 40), ('realloc', 'last', 'grow8')],
                                [('malloc', 8), ('malloc', 200), ('malloc', 8), ('realloc', 'first', 'big'), ('clear',), ('malloc', 64), ('malloc', 1)],
                                [('malloc', 64), ('realloc', 'last', 'fit+8'), ('realloc', 'last', 'fit'), ('malloc', 65), ('realloc', 'first', 'grow8'), ('clear',), ('malloc', 9)]):
                        nseq += 1
                        try:
                            r = run_seq(user, pf, ops)
                        except UndefinedBehaviour as ux:
                            r = 'undefined behaviour: %s' % ux
                        if r and bad is None:
                            bad = '%s, %s, operations %s: %s' % (pname, ('user buffer of %d bytes' % user) if user else 'heap pool', list(ops), r)
    except Unsupported as ex:
        raise AnalysisBroken('C16: the pool model cannot interpret the allocator: %s' % ex)
    rep.extra['pool_sequences_explored'] = nseq
    rep.check(bad is None, 'E6.pool', POOL, 'aligned, disjoint, stable blocks and exact accounting on %d operation sequences (policies %s)' % (nseq, sorted(pol)),
              fns['Malloc'].loc, bad or '', facts.config)


def run(rep, tier):
    configs = [('K1', 'SimpleChunkPolicy')] if tier == 'quick' else [('K1', 'SimpleChunkPolicy'), ('K6', 'AdaptiveChunkPolicy'), ('K5', 'SimpleChunkPolicy')]
    for cfg, pol in configs:
        facts = get_facts(cfg, norm=True)      # structural rules see through locals that merely name an expression (sv/normalize.py)
        rep.unit(facts)
        # the driver instantiates MemoryPoolAllocator<> (default policy of the configuration)
        pol_in_names = pol if any(pol in f.name for f in facts.functions if f.cls_qn == POOL) else ''
        clause_a(facts, rep, pol_in_names)
        clause_ab(facts, rep, pol_in_names)
        clause_cd(facts, rep, pol_in_names)
        clause_e(facts, rep, pol_in_names)
        round_up_rule(facts, rep)
        clause_chunk_chain(get_facts(cfg), rep)      # evaluated: on the bodies as written
    try:
        clause_pool_model(get_facts('K1'), rep, tier)
    except AnalysisBroken as ex:
        rep.broken.append(str(ex))
    # the shape rules on the pool are decided together with the exploration that interprets the same functions
    for r_ in ('E2.bump-in-chunk', 'E2.bump-aligned', 'E2.realloc', 'E2.zero-size'):
        rep.corroborate(r_, 'E6.pool')
    for pre_ in ('C16.a:', 'C16.b:', 'C16.c:', 'C16.d:', 'C16:'):
        rep.corroborate_floor(pre_, 'E6.pool')
    rep.trust('clang 14 front end')
    rep.assumptions += [
        'decides alignment data flow, bump-inside-chunk dominance, ChunkSize >= n, Realloc guards, zero-size early return and refcount pairing',
        'does NOT decide disjointness and stability over arbitrary histories nor Size()/Capacity() accounting (model-based behaviour)',
    ]
