"""C10 — On-demand lookup equals full parse plus pointer lookup. Only the
structural clauses are decided: a path step into a value of the wrong kind and a
negative index yield an error; errors travel negated; the wrapper clears the slice
on error and builds it only from a non-negative start; ParseOnDemand parses the
target only on success (DESIGN.md section 5/C10)."""
from ..core import get_facts, strip, strip_expect, cval, show, walk, locline, AnalysisBroken
from ..e2_dom import Must
from ..e3_interval import Intervals, table_value_ranges
from . import c11

SCANNER = 'sonic_json::internal::SkipScanner'


def char_edge(cond, sense, var_name):
    """(char value) if the edge implies  var == char"""
    c = strip_expect(cond)
    while c is not None and c.get('k') == 'un' and c['op'] == '!':
        sense = not sense
        c = strip_expect(c['e'])
    if c is None or c.get('k') != 'bin' or c['op'] not in ('==', '!='):
        return None
    l, r = strip(c['l']), c['r']
    if l.get('k') == 'ref' and l.get('name') == var_name and cval(r) is not None:
        if (c['op'] == '==') == sense:
            return cval(r)
    return None


def clause_kind(facts, rep):
    n = 0
    seen = set()
    for f in facts.functions:
        if f.cls_qn != SCANNER or f.short != 'GetOnDemand':
            continue
        rep.fn(f)

        def gen_edge(b, cond, sense):
            ch = char_edge(cond, sense, 'c')
            out = [('c', ch)] if ch is not None else []
            c = strip_expect(cond)
            if c is not None and c.get('k') == 'call' and c.get('cname') == 'IsStr' and sense:
                out.append('keystep')       # a key step of the path starts here
            return out

        def kill_stmt(s):
            out = []
            for e in walk(s):
                if e.get('k') == 'bin' and e['op'] == '=' and strip(e['l']).get('k') == 'ref' and strip(e['l']).get('name') == 'c':
                    out += [('c', 123), ('c', 91)]
                if e.get('k') == 'call' and e.get('cname') == 'GetNextToken':
                    out.append('keystep')
            return out
        M = Must(f, gen_edge=gen_edge, kill_stmt=kill_stmt)
        for bid, i, s, e in f.walk():
            if e.get('k') != 'call':
                continue
            key = (e.get('cname'), locline(e['loc']))
            # stepping into an array element
            if e.get('cname') == 'GetArrayElem':
                st = M.at(bid, i)
                if st is None or key in seen:
                    continue
                seen.add(key)
                n += 1
                rep.check(('c', 91) in st, 'E2.kind-guard', f.qn, show(e)[:70], locline(e['loc']),
                          "an index step is taken only into a value that starts with '['; any other kind must reach the mismatch error", facts.config)
            # the first key scan of an object step
            if e.get('cname') == 'GetNextToken':
                st = M.at(bid, i)
                if st is None or key in seen or 'keystep' not in st:
                    continue
                seen.add(key)
                n += 1
                rep.check(('c', 123) in st, 'E2.kind-guard', f.qn, show(e)[:70], locline(e['loc']),
                          "a key step is taken only into a value that starts with '{'", facts.config)
        # the mismatch exit returns the negated mismatch code
        errs = facts.enum_values()
        rets = [cval(strip(s).get('e')) for _, _, s in f.stmts() if strip(s).get('k') == 'ret' and strip(s).get('e') is not None]
        rep.check(-errs.get('kParseErrorMismatchType', 10**9) in rets, 'E1.kind-error', f.qn, 'return -kParseErrorMismatchType exists', f.loc,
                  'returns: %s' % sorted(set(r for r in rets if r is not None)), facts.config)
    rep.require(n >= 2, 'C10: kind guards found: %d' % n)


def clause_negative_index(facts, rep):
    n = 0
    for f in facts.functions:
        if f.cls_qn != SCANNER or f.short != 'GetArrayElem':
            continue
        idx = [p for p in f.params if p['name'] == 'index']
        rep.require(len(idx) == 1, 'C10: index parameter of GetArrayElem not bound')
        if not idx:
            continue
        rep.fn(f)
        iv = Intervals(f, tables=table_value_ranges(facts), param_ranges={idx[0]['id']: (-2**31, -1)}, facts=facts)
        for bid, i, s in f.stmts():
            s_ = strip(s)
            if s_.get('k') == 'ret':
                st = iv.at(bid, i)
                if st is None:
                    continue
                r = iv.ev(s_['e'], dict(st))
                n += 1
                rep.check(r[0] > 0 or r[1] < 0, 'E3.negative-index', f.qn, show(s_)[:70], locline(s_['loc']),
                          'for every index < 0 the returned code lies in %s and must exclude kErrorNone (0)' % (r,), facts.config)
    rep.require(n >= 1, 'C10: no reachable return of GetArrayElem for a negative index')
    # the index reaches GetArrayElem unchanged (GetNum() is passed on, no abs/cast to unsigned)
    for f in facts.functions:
        if f.cls_qn == SCANNER and f.short == 'GetOnDemand':
            for bid, i, s, e in f.walk():
                if e.get('k') == 'call' and e.get('cname') == 'GetArrayElem':
                    a = strip_expect(e['args'][3])
                    ok = a.get('k') == 'call' and a.get('cname') == 'GetNum'
                    rep.check(ok, 'E3.negative-index', f.qn, 'index argument %s' % show(e['args'][3])[:50], locline(e['loc']),
                              'the signed path index must be handed to GetArrayElem as is', facts.config)
            break


def clause_wrapper(facts, rep):
    """the public GetOnDemand(json, path, target): evaluated (sv/minterp.py) for every outcome of the scanner - a negative
    result (each error code) must leave `target` empty and return exactly that error class; a non-negative start s with
    end position p must leave target == [s, p) of the text and return no error.  Whatever the branch order and locals."""
    from ..minterp import Interp, Unsupported, UndefinedBehaviour
    n = 0
    errs = facts.enum_values()
    for f in facts.functions:
        if f.qn != 'sonic_json::GetOnDemand' or len(f.params) != 3:
            continue
        rep.fn(f)
        bad = None
        cnt = 0
        BASE = 0x5000
        try:
            for start, pos in [(-c, p_) for c in sorted(set(v for k_, v in errs.items() if k_.startswith('kParseError') and 0 < v < 64))[:12] for p_ in (0, 7)] + \
                    [(0, 1), (0, 5), (3, 9), (17, 18), (40, 41)]:
                state = {'target': ('sv', 'STALE', 0x9000, 5)}

                def hook(e, args, env, members, start=start, pos=pos):
                    nm = e.get('cname') or ''
                    if e.get('k') == 'ctor':
                        cd = e.get('cdiag') or ''
                        if 'basic_string_view' in cd or 'StringView' in cd:
                            if len(args) == 2:
                                return ('sv', None, args[0], args[1])
                            if len(args) == 1 and isinstance(args[0], bytes):
                                return ('sv', args[0].decode('latin-1'), 0x7000, len(args[0]))
                            if len(args) == 1:
                                return args[0]
                            if not args:
                                return ('sv', '', 0, 0)
                        if 'ParseResult' in cd:
                            return ('PR',) + tuple(args)
                        if 'SkipScanner' in cd:
                            return ('SCAN',)
                        return None
                    if nm == 'operator=' and len(args) == 2 and isinstance(args[1], tuple) and args[1] and args[1][0] == 'sv':
                        state['target'] = args[1]
                        return args[1]
                    if nm == 'data':
                        return BASE
                    if nm in ('size', 'length'):
                        return 64
                    if nm == 'GetOnDemand' and len(args) == 3:
                        # the position is handed over by reference: bind it in the caller's frame
                        a1 = strip(e['args'][1])
                        if a1 is not None and a1.get('k') == 'ref':
                            env[a1['id']] = pos
                        return start
                    return None
                it = Interp(f, facts, call_hook=hook)
                env = {f.params[0]['id']: ('sv', 'JSON', BASE, 64), f.params[1]['id']: 'PATH', f.params[2]['id']: state['target']}
                r = it.run(env, {})[0]
                cnt += 1
                tgt = state['target']
                if not (isinstance(r, tuple) and r and r[0] == 'PR' and len(r) == 3):
                    raise Unsupported('result of the wrapper is %r' % (r,))
                if start < 0:
                    if tgt[3] != 0 or r[1] != -start:
                        bad = 'scanner result %d (error), position %d: target is left as %s (length %d) and the returned error is %s; expected an empty slice and error %d' % (
                            start, pos, 'the stale value' if tgt[1] == 'STALE' else 'a slice', tgt[3], r[1], -start)
                        break
                else:
                    if (tgt[2], tgt[3]) != (BASE + start, pos - start) or r[1] != 0 or r[2] != pos:
                        bad = 'scanner result start %d, position %d: target = (text + %s, %s), result (%s, %s); expected (text + %d, %d), (0, %d)' % (
                            start, pos, tgt[2] - BASE if isinstance(tgt[2], int) else tgt[2], tgt[3], r[1], r[2], start, pos - start, pos)
                        break
        except UndefinedBehaviour as ex:
            bad = 'undefined behaviour: %s' % ex
        except Unsupported as ex:
            raise AnalysisBroken('C10: the GetOnDemand wrapper cannot be evaluated: %s' % ex)
        n += 1
        rep.check(bad is None, 'E2.slice', f.qn, 'target slice / error for every scanner outcome (%d evaluated)' % cnt, f.loc, bad or '', facts.config)
    rep.require(n >= 1, 'C10: wrapper obligations found: %d' % n)
    m = 0
    for f in facts.functions:
        if f.short == 'parseOnDemandImpl' and f.cls_qn == 'sonic_json::GenericDocument':
            rep.fn(f)

            def gen_edge(b, cond, sense):
                c = strip_expect(cond)
                neg = False
                while c is not None and c.get('k') == 'un' and c['op'] == '!':
                    neg = not neg
                    c = strip_expect(c['e'])
                if c is not None and c.get('k') == 'call' and c.get('cname') == 'HasParseError':
                    return ['ok'] if (sense == neg) else []
                return []
            M = Must(f, gen_edge=gen_edge)
            for bid, i, s, e in f.walk():
                if e.get('k') == 'call' and e.get('cname') == 'parseImpl':
                    st = M.at(bid, i)
                    if st is None:
                        continue
                    m += 1
                    rep.check('ok' in st, 'E2.parse-on-success', f.qn, show(e)[:60], locline(e['loc']),
                              'the target is parsed only when the lookup succeeded', facts.config)
    rep.require(m >= 2, 'C10: parseOnDemandImpl instances: %d' % m)


def clause_array_end(facts, rep):
    """GetArrayElem counts a value as an element only after excluding that it is the closing bracket: on every path
    from reading the element's first byte `c` to the separator scan that consumes the element, `c != ']'` is
    established (an `if (c == ']')` exit or a switch arm for ']' that leaves).  Otherwise an index beyond the end of
    an (e.g. empty) nested array walks on into the enclosing container instead of failing."""
    n = 0
    for f in facts.functions:
        if f.cls_qn != SCANNER or f.short != 'GetArrayElem':
            continue
        rep.fn(f)
        cvar = None
        for bid, i, s in f.stmts():
            s_ = strip(s)
            if s_ is not None and s_.get('k') == 'decl':
                for vd in s_['vars']:
                    if vd.get('init') is not None and any(x.get('k') == 'call' and x.get('cname') in ('SkipSpaceSafe', 'skip_space_safe') for x in walk(vd['init'])):
                        cvar = vd['id']
        rep.require(cvar is not None, 'C10: element start byte of GetArrayElem not bound')
        if cvar is None:
            continue

        def kill_stmt(s):
            s_ = strip(s)
            if s_ is not None and s_.get('k') == 'decl' and any(vd['id'] == cvar for vd in s_['vars']):
                return ['nonclose']
            return []

        def gen_edge(b, cond, sense):
            c = strip_expect(cond)
            if isinstance(sense, tuple) and sense[0] == 'case':
                if c is None or not any(x.get('k') == 'ref' and x.get('id') == cvar for x in walk(c)):
                    return []
                B = f.blocks[b]
                def num(v):
                    try:
                        return int(v)
                    except (TypeError, ValueError):
                        return None
                cases = [num(f.blocks[x].get('case')) for x in B['succs'] if x is not None]
                if sense[1] is not None:
                    return ['nonclose'] if num(sense[1]) not in (93, None) else []
                return ['nonclose'] if 93 in cases else []      # default arm excludes ']' only if ']' has its own arm
            neg = False
            while c is not None and c.get('k') == 'un' and c['op'] == '!':
                neg = not neg
                c = strip_expect(c['e'])
            if c is not None and c.get('k') == 'bin' and c['op'] in ('==', '!=') and cval(c['r']) == 93:
                l = strip(c['l'])
                if l is not None and l.get('k') == 'ref' and l.get('id') == cvar:
                    is_close_when_true = (c['op'] == '==')
                    if (sense != neg) != is_close_when_true:
                        return ['nonclose']
            return []
        M = Must(f, gen_edge=gen_edge, kill_stmt=kill_stmt)
        for bid, B in f.blocks.items():
            items = list(enumerate(B['stmts']))
            t = B.get('term')
            if t and t.get('cond') is not None:
                items.append(('cond', t['cond']))
            for i, s in items:
                for e in walk(s):
                    if e.get('k') == 'call' and e.get('cname') == 'GetNextToken':
                        st = M.at(bid, i)
                        if st is None:
                            continue
                        n += 1
                        rep.check('nonclose' in st, 'E2.array-end', f.qn, show(e)[:70], locline(e['loc']),
                                  "a value is consumed as an array element only after its first byte was found not to be ']' "
                                  '(an index past the end of a nested array must fail, not continue in the enclosing container)', facts.config)
    rep.require(n >= 1, 'C10: element-consuming separator scan of GetArrayElem not found')


def clause_key_decode(facts, rep):
    """An escaped object key (SkipString reported escapes) is decoded before it is compared, unless its raw length
    rules a match out.  Decoding never lengthens a key and shrinks it at most 6:1 (\\uXXXX -> 1 byte), so skipping the
    decode is sound only when raw length < wanted length or raw length > 6 * wanted length.  The guards between
    SkipString and the decode are evaluated over a grid of (raw length, wanted length)."""
    from ..narrowing import _eval as ev1
    n = 0
    for f in facts.functions:
        if f.cls_qn != SCANNER or f.short != 'GetOnDemand':
            continue
        # bind: skips := SkipString(...), sn := raw length, decode call
        skips = sn = None
        start = None
        dec = None
        for bid, i, s in f.stmts():
            s_ = strip(s)
            if s_ is None:
                continue
            if s_.get('k') == 'bin' and s_['op'] == '=' and strip(s_['l']).get('k') == 'ref':
                r = strip(s_['r'])
                if r is not None and r.get('k') == 'call' and r.get('cname') == 'SkipString':
                    skips = strip(s_['l'])['id']
                    start = (bid, i)
            for e in walk(s_):
                if e.get('k') == 'call' and e.get('cname') == 'parseStringInplace':
                    dec = (bid, i)
        if skips is None or dec is None:
            continue
        # the raw-length variable: assigned right after SkipString from pointer arithmetic, later compared with key.size()
        for bid, i, s in f.stmts():
            s_ = strip(s)
            if s_ is not None and s_.get('k') == 'bin' and s_['op'] == '=' and strip(s_['l']).get('k') == 'ref' and strip(s_['l']).get('t') == 'long' and (bid, i) > start and bid == start[0]:
                sn = strip(s_['l'])['id']
                break
        rep.require(sn is not None, 'C10: raw key length variable of GetOnDemand not bound')
        if sn is None:
            continue
        rep.fn(f)

        def ev(cond, env):
            # key.size() -> env['K']
            def sub(x):
                if isinstance(x, dict):
                    if x.get('k') == 'call' and x.get('cname') in ('size', 'length') and not x.get('args'):
                        return {'k': 'lit', 'cv': str(env['K']), 't': 'unsigned long', 'loc': x.get('loc', '')}
                    return {k: (sub(v) if isinstance(v, (dict, list)) else v) for k, v in x.items()}
                if isinstance(x, list):
                    return [sub(y) for y in x]
                return x
            return ev1(sub(cond), env)

        def reaches(raw, want):
            bid, i = start
            i += 1
            env = {skips: 2, sn: raw, 'K': want}
            for _ in range(40):
                B = f.blocks[bid]
                for j in range(i, len(B['stmts'])):
                    if (bid, j) == dec or any(e.get('k') == 'call' and e.get('cname') == 'parseStringInplace' for e in walk(B['stmts'][j])):
                        return True
                    s_ = strip(B['stmts'][j])
                    if s_ is not None and s_.get('k') == 'bin' and s_['op'] == '=' and strip(s_['l']).get('id') in (skips, sn) and (bid, j) != start:
                        if strip(s_['l']).get('id') == sn and env.get('sn_set'):
                            return False
                        env['sn_set'] = True
                    if s_ is not None and s_.get('k') == 'call' and s_.get('cname') in ('SkipSpaceSafe',):
                        return False
                    if any(e.get('k') == 'call' and e.get('cname') in ('SkipSpaceSafe', 'memcmp') for e in walk(B['stmts'][j])):
                        return False        # already at the comparison: the decode was skipped
                t = B.get('term')
                succs = B['succs']
                if t and t.get('cond') is not None and len(succs) == 2 and t['cls'] != 'SwitchStmt':
                    if any(e.get('k') == 'call' and e.get('cname') in ('SkipSpaceSafe', 'memcmp') for e in walk(t['cond'])):
                        return False
                    try:
                        v = bool(ev(t['cond'], env))
                    except KeyError as ex:
                        raise AnalysisBroken('C10: guard %s between SkipString and the key decode is not a function of (escape flag, raw length, wanted length): %s' % (show(t['cond']), ex))
                    nxt = succs[0] if v else succs[1]
                else:
                    nn = [x for x in succs if x is not None]
                    nxt = nn[0] if len(nn) == 1 else None
                if nxt is None:
                    return False
                bid, i = nxt, 0
            raise AnalysisBroken('C10: no decision reached between SkipString and the key decode')
        bad = []
        cnt = 0
        for raw in list(range(0, 80)) + [200, 1000]:
            for want in list(range(0, 40)) + [100]:
                cnt += 1
                if not reaches(raw, want) and not (raw < want or raw > 6 * want):
                    bad.append((raw, want))
        n += 1
        rep.check(not bad, 'E2.key-decode', f.qn, 'escaped keys are decoded before comparison for every (raw, wanted) length pair that can match (%d pairs)' % cnt, f.loc,
                  'decode skipped for (raw length, wanted length) = %s although a %d-byte escaped key can decode to %d bytes' % (bad[:3], bad[0][0] if bad else 0, bad[0][1] if bad else 0), facts.config)
    rep.require(n >= 1, 'C10: key decode site of GetOnDemand not found')


def clause_escape_carry(facts, rep, nss):
    """SkipString: when the last full vector ended inside an escape (prev_escaped != 0), the escaped byte - whatever
    it is - is stepped over exactly once before the scalar tail starts scanning.  All paths of the hand-over between
    the vector loop and the scalar loop are enumerated under prev_escaped != 0; a branch on the *content* of the input
    is explored both ways (the escaped byte may be any byte), a pure bounds test may skip the step."""
    n = 0
    for f in facts.functions:
        if f.short != 'SkipString' or not any(ns in f.qn for ns in nss):
            continue
        heads = [bid for bid, B in f.blocks.items() if B.get('term') and B['term'].get('cls') in ('WhileStmt', 'ForStmt') and B['term'].get('cond') is not None]
        # order by distance from the entry
        dist = {f.entry: 0}
        work = [f.entry]
        while work:
            b = work.pop(0)
            for x in f.blocks[b]['succs']:
                if x is not None and x not in dist:
                    dist[x] = dist[b] + 1
                    work.append(x)
        heads = sorted([h for h in heads if h in dist], key=lambda h: dist[h])
        rep.require(len(heads) >= 2, 'C10: vector and scalar loops of SkipString not found')
        if len(heads) < 2:
            continue
        vec, tail = heads[0], heads[1]
        rep.fn(f)
        pe = None
        posid = [p_['id'] for p_ in f.params if p_.get('name') == 'pos']
        for bid, i, s in f.stmts():
            s_ = strip(s)
            if s_ is not None and s_.get('k') == 'decl':
                for vd in s_['vars']:
                    if vd.get('name') == 'prev_escaped':
                        pe = vd['id']
        # the carried escape state: the variable passed by reference to GetEscaped in the vector loop
        for bid, i, s, e in f.walk():
            if e.get('k') == 'call' and e.get('cname') == 'GetEscaped' and e.get('args'):
                a = strip(e['args'][0])
                if a is not None and a.get('k') == 'ref':
                    pe = a['id']
        rep.require(pe is not None and posid, 'C10: escape carry / cursor of SkipString not bound')
        if pe is None or not posid:
            continue
        posid = posid[0]
        start = f.blocks[vec]['succs'][1]
        results = []

        def steps_in(B):
            k = 0
            for st in B['stmts']:
                for y in walk(st):
                    if y.get('k') == 'un' and y['op'] == '++' and strip(y['e']).get('id') == posid:
                        k += 1
                    if y.get('k') == 'bin' and y['op'] == '+=' and strip(y['l']).get('id') == posid:
                        k += cval(y['r']) if cval(y['r']) is not None else 99
            return k

        def rec(b, steps, bounds_skipped, depth, trail):
            if depth > 12:
                raise AnalysisBroken('C10: hand-over of SkipString does not reach the scalar loop')
            if b == tail:
                results.append((steps, bounds_skipped, trail))
                return
            B = f.blocks[b]
            steps += steps_in(B)
            t = B.get('term')
            succs = B['succs']
            if t and t.get('cond') is not None and len(succs) == 2:
                c = strip_expect(t['cond'])
                ids = set(y.get('id') for y in walk(c) if y.get('k') == 'ref')
                derefs = any(y.get('k') in ('sub',) or (y.get('k') == 'un' and y['op'] == '*') for y in walk(c))
                if ids == {pe} and not derefs:
                    # prev_escaped != 0 is the world we explore
                    from ..narrowing import _eval as ev1
                    v = bool(ev1(c, {pe: 1}))
                    rec(succs[0] if v else succs[1], steps, bounds_skipped, depth + 1, trail + [show(c)])
                elif derefs:
                    rec(succs[0], steps, bounds_skipped, depth + 1, trail + [show(c) + ' true'])
                    rec(succs[1], steps, bounds_skipped, depth + 1, trail + ['not ' + show(c)])
                else:
                    # a test without input content: bounds.  Not stepping is acceptable on its failing side only
                    rec(succs[0], steps, bounds_skipped, depth + 1, trail + [show(c) + ' true'])
                    rec(succs[1], steps, True, depth + 1, trail + ['not ' + show(c)])
                return
            for x in succs:
                if x is not None:
                    rec(x, steps, bounds_skipped, depth + 1, trail)
        if start is not None:
            rec(start, 0, False, 0, [])
        rep.require(len(results) >= 1, 'C10: no hand-over path found in SkipString')
        bad = [(st, tr) for st, sk, tr in results if not sk and st != 1]
        n += 1
        rep.check(not bad, 'E2.escape-carry', f.qn, 'the escaped byte carried out of the vector loop is stepped over exactly once on all %d hand-over paths' % len(results), f.loc,
                  'path [%s] advances the cursor by %s' % ('; '.join(bad[0][1]), bad[0][0]) if bad else '', facts.config)
    rep.require(n >= 1, 'C10: SkipString not found')


def clause_escape_flag(facts, rep, nss):
    """SkipString reports whether the literal contains an escape (its callers decode a key only then).  The flag is
    the variable that selects the "escaped" return value.  Decided: (1) it is monotone - after its initialisation it
    is only ever set, never cleared or recomputed from a single block; (2) whenever an iteration of the vector loop
    has to resolve escapes (the conditional arm that calls GetEscaped / masks the quote bits) the flag is set in that
    same arm, so a backslash seen in an earlier block is never forgotten; (3) the scalar tail sets it before it steps
    over a backslash pair."""
    n = 0
    for f in facts.functions:
        if f.short != 'SkipString' or not any(ns in f.qn for ns in nss):
            continue
        rep.fn(f)
        # the flag: condition of the conditional operator / branch that selects between two distinct constant returns
        flag = None
        for bid, B in f.blocks.items():
            t = B.get('term')
            if t and t.get('cls') == 'ConditionalOperator' and t.get('cond') is not None:
                c = strip_expect(t['cond'])
                if c is not None and c.get('k') == 'ref' and c.get('dk') == 'local':
                    flag = c['id']
        rep.require(flag is not None, 'C10: has-escape flag of SkipString not bound')
        if flag is None:
            continue

        def flag_store(s_):
            out = []
            for y in walk(s_):
                if y.get('k') == 'bin' and y['op'] in ('=', '|=', '&=', '^=') and strip(y['l']) is not None and strip(y['l']).get('id') == flag:
                    out.append(y)
            return out
        # (1) monotone
        for bid, i, st in f.stmts():
            s_ = strip(st)
            if s_ is None:
                continue
            for y in flag_store(s_):
                n += 1
                ok = (y['op'] == '=' and cval(y['r']) == 1) or (y['op'] == '|=' and cval(y['r']) == 1)
                rep.check(ok, 'E2.escape-flag', f.qn, show(y), locline(y['loc']),
                          'the has-escape flag may only be set to true: a value computed from the current block forgets escapes seen in earlier blocks', facts.config)
        # (2) + (3): must-analysis, token killed at the loop heads
        heads = set(bid for bid, B in f.blocks.items() if B.get('term') and B['term'].get('cls') in ('WhileStmt', 'ForStmt'))

        def gen_stmt(st):
            s_ = strip(st)
            return ['set'] if s_ is not None and any(cval(y['r']) == 1 for y in flag_store(s_)) else []

        def kill_edge(b, cond, sense):
            return ['set'] if b in heads and sense is True else []
        M = Must(f, gen_stmt=gen_stmt, kill_edge=kill_edge)
        cursor = [p_['id'] for p_ in f.params if p_.get('name') == 'pos']
        for bid, B in f.blocks.items():
            for i, st in enumerate(B['stmts']):
                s_ = strip(st)
                if s_ is None:
                    continue
                resolves = any(y.get('k') == 'call' and y.get('cname') == 'GetEscaped' for y in walk(s_))
                pair_skip = s_.get('k') == 'bin' and s_['op'] == '+=' and cursor and strip(s_['l']).get('id') == cursor[0] and cval(s_['r']) == 2
                if not (resolves or pair_skip):
                    continue
                # the flag must be set in the same straight-line arm: before this statement since the loop head,
                # or later in the same block
                stt = M.at(bid, i)
                if stt is None:
                    continue
                later = any(gen_stmt(x) for x in B['stmts'][i:])
                n += 1
                rep.check('set' in stt or later, 'E2.escape-flag', f.qn, ('escape resolution ' if resolves else 'backslash pair skipped ') + show(s_)[:60], locline(s_['loc']),
                          'an iteration that meets an escape must record it in the has-escape flag (the caller decodes the key only when the flag is reported)', facts.config)
    rep.require(n >= 4, 'C10: has-escape obligations of SkipString found: %d' % n)


def clause_escaped_bits(facts, rep, tier='quick'):
    """GetEscaped<B>(prev, backslash): the bit trick that tells which bytes of a block are escaped, evaluated
    (sv/minterp.py) against the sequential definition -- a byte is escaped iff the byte before it is a backslash that
    is not itself escaped, the carry says whether the block ends in such a backslash -- over every backslash mask of
    10 bits (thorough: 16; exhaustive for B = 16) at the low and at the high end of the block, with both carries."""
    from ..minterp import Interp, Unsupported, UndefinedBehaviour
    import re as _re
    n = 0
    seen = set()
    for f in facts.functions:
        if f.short != 'GetEscaped' or len(f.params) != 2:
            continue
        m = _re.search(r'GetEscaped<(\d+)', f.name)
        if not m or m.group(1) in seen:
            continue
        B = int(m.group(1))
        seen.add(m.group(1))
        rep.fn(f)
        bits = 10 if tier == 'quick' else 16
        bits = min(bits, B)
        pid, bid_ = f.params[0]['id'], f.params[1]['id']
        bad = None
        cnt = 0
        try:
            for shift in sorted(set([0, B - bits])):
                for mask in range(1 << bits):
                    bs = mask << shift
                    for prev in (0, 1):
                        esc, mark = prev, 0
                        for i in range(B):
                            if esc:
                                mark |= 1 << i
                                esc = 0
                            elif (bs >> i) & 1:
                                esc = 1
                        r = Interp(f, facts).run({pid: prev, bid_: bs}, {})
                        cnt += 1
                        got, carry = r[0] & ((1 << B) - 1), r[1][pid]
                        if (got != mark or carry != esc) and bad is None:
                            bad = 'backslash mask 0x%x, carry-in %d: escaped bits 0x%x carry-out %d, sequential scan gives 0x%x / %d' % (bs, prev, got, carry, mark, esc)
                    if bad:
                        break
                if bad:
                    break
        except UndefinedBehaviour as ex:
            bad = 'undefined behaviour: %s' % ex
        except Unsupported as ex:
            raise AnalysisBroken('C10: GetEscaped<%d> cannot be evaluated: %s' % (B, ex))
        n += 1
        rep.check(bad is None, 'E5.escaped-bits', f.qn, 'GetEscaped<%d> equals the sequential escape scan (%d evaluations)' % (B, cnt), f.loc, bad or '', facts.config)
    return n


def clause_container_carry(facts, rep, nss):
    """SkipContainer: whatever finishes the scan behind the last full 64-byte block continues from the state the block
    loop carries - 'inside a string' and 'after a backslash' (the variables the loop hands by reference to the string
    classifier).  On every path from the loop's exit to a 'closed' result that looks at input bytes, each carried
    variable is read.  A tail that starts from 'not in a string' mis-reads a container whose string straddles the last
    block boundary."""
    n = 0
    for f in facts.functions:
        if f.short != 'SkipContainer' or not any(ns in f.qn for ns in nss):
            continue
        heads = [bid for bid, B in f.blocks.items() if B.get('term') and B['term'].get('cls') in ('WhileStmt', 'ForStmt') and B['term'].get('cond') is not None]
        dist = {f.entry: 0}
        work = [f.entry]
        while work:
            b = work.pop(0)
            for x in f.blocks[b]['succs']:
                if x is not None and x not in dist:
                    dist[x] = dist[b] + 1
                    work.append(x)
        heads = sorted([h for h in heads if h in dist], key=lambda h: dist[h])
        rep.require(len(heads) >= 1, 'C10: block loop of SkipContainer not found')
        if not heads:
            continue
        head = heads[0]
        rep.fn(f)
        body_entry, exit_ = f.blocks[head]['succs'][0], f.blocks[head]['succs'][1]
        # loop body: reachable from the body entry without passing the head
        body = set()
        work = [body_entry]
        while work:
            x = work.pop()
            if x is None or x in body or x == head:
                continue
            body.add(x)
            work.extend(f.blocks[x]['succs'])
        carried = {}
        for b in body:
            for st in f.blocks[b]['stmts']:
                for e in walk(st):
                    if e.get('k') == 'call':
                        g = facts.by_id.get(e.get('cid'))
                        if g is None:
                            continue
                        for a, p_ in zip(e.get('args', []), g.params):
                            a_ = strip(a)
                            if a_ is not None and a_.get('k') == 'ref' and a_.get('dk') == 'local' and '&' in p_['t'] and not p_['t'].strip().startswith('const'):
                                carried[a_['id']] = a_.get('name')
        rep.require(len(carried) >= 2, 'C10: state carried by the block loop of SkipContainer not bound (%s)' % sorted(carried.values()))
        if len(carried) < 2:
            continue
        ptr_ids = set(p_['id'] for p_ in f.params if '*' in p_['t'])
        for bid, i, s_ in f.stmts():
            st = strip(s_)
            if isinstance(st, dict) and st.get('k') == 'decl':
                for vd in st['vars']:
                    if '*' in (vd.get('t') or '') or '[' in (vd.get('t') or ''):
                        ptr_ids.add(vd['id'])

        def effects(st):
            reads_data, read_c = False, set()
            for e in walk(st):
                if e.get('k') == 'ref' and e.get('id') in carried:
                    read_c.add(e['id'])
                if e.get('k') in ('sub',) or (e.get('k') == 'un' and e.get('op') == '*'):
                    if any(x.get('k') == 'ref' and x.get('id') in ptr_ids for x in walk(e)):
                        reads_data = True
                if e.get('k') in ('call', 'ctor') and any(strip(a) is not None and any(x.get('k') == 'ref' and x.get('id') in ptr_ids for x in walk(a)) for a in e.get('args', [])):
                    reads_data = True
            return reads_data, read_c
        bad = None
        seen = set()
        work = [(exit_, False, frozenset())]
        paths = 0
        while work and bad is None:
            b, rd, rc = work.pop()
            if b is None or (b, rd, rc) in seen:
                continue
            seen.add((b, rd, rc))
            B = f.blocks[b]
            for st in B['stmts']:
                d, c = effects(st)
                rd = rd or d
                rc = rc | c
                s_ = strip(st)
                if isinstance(s_, dict) and s_.get('k') == 'ret' and s_.get('e') is not None and cval(s_['e']) != 0:
                    paths += 1
                    if rd and len(rc) < len(carried):
                        bad = 'a "closed" result at %s is reached after reading input without consulting %s' % (
                            locline(s_['loc']), ', '.join(sorted(v for k, v in carried.items() if k not in rc)))
            t = B.get('term')
            if t and t.get('cond') is not None:
                d, c = effects(t['cond'])
                rd = rd or d
                rc = rc | c
            for x in B['succs']:
                work.append((x, rd, rc))
        n += 1
        rep.check(bad is None and paths >= 1, 'E2.container-carry', f.qn, 'the tail behind the block loop continues from %s (%d closing paths)' % (', '.join(sorted(carried.values())), paths),
                  f.loc, bad or ('no closing path behind the loop found' if paths == 0 else ''), facts.config)
    return n


def clause_skip_literal(facts, rep):
    """SkipLiteral - the last step of an on-demand lookup (and of a lazy parse) that lands on true / false / null -
    evaluated with a byte memory that maps exactly [0, len): for every literal, every number of bytes before it, and
    every cut of the text behind it (the literal ending the text included), plus near-miss spellings.  It must accept
    exactly a complete, correctly spelled literal that lies inside the text, leave the cursor behind it, and never
    read a byte at or behind len."""
    from ..minterp import Interp, Unsupported, UndefinedBehaviour
    fs = [f for f in facts.functions if f.short == 'SkipLiteral' and len(f.params) == 4]
    rep.require(len(fs) >= 1, 'C10: SkipLiteral not found')
    for f in fs[:1]:
        rep.fn(f)
        bad = None
        n = 0
        words = [b'true', b'false', b'null', b'trux', b'tru', b'fals', b'falsx', b'nul', b'nulx', b'f', b't', b'n', b'talse', b'frue']
        try:
            for w in words:
                for lead in (0, 1, 5):
                    for tail in (b'', b' ', b',', b'}x', b'    '):
                        text = b' ' * lead + w + tail
                        for cut in range(lead + 1, len(text) + 1):
                            buf = text[:cut]
                            it = Interp(f, facts)
                            it.memory = {0x1000 + i: b for i, b in enumerate(buf)}
                            pos0 = lead + 1
                            tok = buf[lead]
                            try:
                                r = it.run({f.params[0]['id']: 0x1000, f.params[1]['id']: pos0, f.params[2]['id']: len(buf), f.params[3]['id']: tok}, {})
                            except UndefinedBehaviour as ux:
                                bad = 'text %r (len %d), literal at %d: %s' % (buf, len(buf), lead, ux)
                                break
                            n += 1
                            full = w in (b'true', b'false', b'null') and len(buf) >= lead + len(w)
                            got_ok, pos1 = bool(r[0]), r[1][f.params[1]['id']]
                            if got_ok != full or (full and pos1 != lead + len(w)):
                                bad = 'text %r (len %d), literal at %d: result %s, cursor %s -> %s; %s' % (
                                    buf, len(buf), lead, got_ok, pos0, pos1, 'a complete literal inside the text must be accepted with the cursor behind it' if full else 'must be rejected')
                                break
                        if bad:
                            break
                    if bad:
                        break
                if bad:
                    break
        except Unsupported as ex:
            raise AnalysisBroken('C10: SkipLiteral cannot be evaluated: %s' % ex)
        rep.check(bad is None, 'E5.skip-literal', f.qn, 'accepts exactly the complete literals inside [0, len), no read at or behind len (%d evaluations)' % n, f.loc, bad or '', facts.config)
    return 1


def run(rep, tier):
    configs = ['K1', 'K3'] if tier == 'quick' else ['K1', 'K3', 'K4']
    for cfg in configs:
        facts = get_facts(cfg)
        rep.unit(facts)
        clause_kind(facts, rep)
        clause_negative_index(facts, rep)
        c11.clause_c(facts, rep)
        clause_wrapper(facts, rep)
        clause_array_end(facts, rep)
        clause_key_decode(facts, rep)
        clause_escape_flag(facts, rep, {'K1': ('::avx2::',), 'K3': ('::sse::',), 'K4': ('::avx2::', '::sse::')}[cfg])
        clause_escape_carry(facts, rep, {'K1': ('::avx2::',), 'K3': ('::sse::',), 'K4': ('::avx2::', '::sse::')}[cfg])
        ncc = clause_container_carry(facts, rep, {'K1': ('::avx2::',), 'K3': ('::sse::',), 'K4': ('::avx2::', '::sse::')}[cfg])
        rep.require(ncc >= 1, 'C10: SkipContainer not found')
        clause_skip_literal(facts, rep)
        nge = clause_escaped_bits(facts, rep, tier)
        rep.require(nge >= 2, 'C10: GetEscaped instantiations found: %d (>= 2 expected: block width and 64)' % nge)
        from . import c15
        c15.clause_f(facts, rep)   # SkipString's quote/backslash masks must not carry bits above the lane count
        c15.clause_g(facts, rep)   # ... and the 64-byte string / bracket masks of GetStringBits and SkipContainer are the positional concatenation of their parts
        c11.clause_shift(facts, rep, {'K1': ('::avx2::',), 'K3': ('::sse::',), 'K4': ('::avx2::', '::sse::')}[cfg])
    # one raw value skipped from any alignment: start / end / no stray read, byte by byte (sv/scaneval.py; shared by C10, C11, C15, C20)
    from .. import scaneval
    for cfg6 in ('K1', 'K3'):
        try:
            scaneval.clause(get_facts(cfg6), rep, tier)
        except AnalysisBroken as ex:
            rep.broken.append(str(ex))
    # the cached white-space bitmap is also exercised by the byte-level evaluation (consecutive SkipOne calls): the
    # shape rule on the mask shift is decided together with it
    # (the shift rule itself is not paired: the defect it exists for needs a white-space run that starts exactly two bytes
    # before the end of the cached block - only its instance floor is)
    rep.corroborate_floor('C11: cached-bitmap', 'E5.skip-extent')
    rep.trust('clang 14 front end')
    rep.assumptions += [
        'decides only: wrong-kind step and negative index yield an error, an index past the end of an array is noticed at the closing bracket, escaped keys are decoded before comparison whenever they could match, errors are negated, slice cleared on error, target parsed only on success',
        'does NOT decide (the bulk of the property) that the selected member/element agrees with the DOM: a differential semantic statement with no structural rule that does not mirror the code',
    ]
