"""C10 — On-demand lookup equals full parse plus pointer lookup. Only the
structural clauses are decided: a path step into a value of the wrong kind and a
negative index yield an error; errors travel negated; the wrapper clears the slice
on error and builds it only from a non-negative start; ParseOnDemand parses the
target only on success (DESIGN.md section 5/C10)."""
from ..core import get_facts, strip, strip_expect, cval, show, walk, locline
from ..e2_dom import Must
from ..e3_interval import Intervals, table_value_ranges
from . import c11

SCANNER = 'sonic_json::internal::SkipScanner'


def char_edge(cond, sense, var_name):
    """(char value) if the edge implies  var == char"""
    c = strip_expect(cond)
    while c is not None and c.get('k') == 'un' and c['op'] == '!':
        sense = not sense
        c = strip_expect(c['e'])
    if c is None or c.get('k') != 'bin' or c['op'] not in ('==', '!='):
        return None
    l, r = strip(c['l']), c['r']
    if l.get('k') == 'ref' and l.get('name') == var_name and cval(r) is not None:
        if (c['op'] == '==') == sense:
            return cval(r)
    return None


def clause_kind(facts, rep):
    n = 0
    seen = set()
    for f in facts.functions:
        if f.cls_qn != SCANNER or f.short != 'GetOnDemand':
            continue
        rep.fn(f)

        def gen_edge(b, cond, sense):
            ch = char_edge(cond, sense, 'c')
            out = [('c', ch)] if ch is not None else []
            c = strip_expect(cond)
            if c is not None and c.get('k') == 'call' and c.get('cname') == 'IsStr' and sense:
                out.append('keystep')       # a key step of the path starts here
            return out

        def kill_stmt(s):
            out = []
            for e in walk(s):
                if e.get('k') == 'bin' and e['op'] == '=' and strip(e['l']).get('k') == 'ref' and strip(e['l']).get('name') == 'c':
                    out += [('c', 123), ('c', 91)]
                if e.get('k') == 'call' and e.get('cname') == 'GetNextToken':
                    out.append('keystep')
            return out
        M = Must(f, gen_edge=gen_edge, kill_stmt=kill_stmt)
        for bid, i, s, e in f.walk():
            if e.get('k') != 'call':
                continue
            key = (e.get('cname'), locline(e['loc']))
            # stepping into an array element
            if e.get('cname') == 'GetArrayElem':
                st = M.at(bid, i)
                if st is None or key in seen:
                    continue
                seen.add(key)
                n += 1
                rep.check(('c', 91) in st, 'E2.kind-guard', f.qn, show(e)[:70], locline(e['loc']),
                          "an index step is taken only into a value that starts with '['; any other kind must reach the mismatch error", facts.config)
            # the first key scan of an object step
            if e.get('cname') == 'GetNextToken':
                st = M.at(bid, i)
                if st is None or key in seen or 'keystep' not in st:
                    continue
                seen.add(key)
                n += 1
                rep.check(('c', 123) in st, 'E2.kind-guard', f.qn, show(e)[:70], locline(e['loc']),
                          "a key step is taken only into a value that starts with '{'", facts.config)
        # the mismatch exit returns the negated mismatch code
        errs = facts.enum_values()
        rets = [cval(strip(s).get('e')) for _, _, s in f.stmts() if strip(s).get('k') == 'ret' and strip(s).get('e') is not None]
        rep.check(-errs.get('kParseErrorMismatchType', 10**9) in rets, 'E1.kind-error', f.qn, 'return -kParseErrorMismatchType exists', f.loc,
                  'returns: %s' % sorted(set(r for r in rets if r is not None)), facts.config)
    rep.require(n >= 2, 'C10: kind guards found: %d' % n)


def clause_negative_index(facts, rep):
    n = 0
    for f in facts.functions:
        if f.cls_qn != SCANNER or f.short != 'GetArrayElem':
            continue
        idx = [p for p in f.params if p['name'] == 'index']
        rep.require(len(idx) == 1, 'C10: index parameter of GetArrayElem not bound')
        if not idx:
            continue
        rep.fn(f)
        iv = Intervals(f, tables=table_value_ranges(facts), param_ranges={idx[0]['id']: (-2**31, -1)}, facts=facts)
        for bid, i, s in f.stmts():
            s_ = strip(s)
            if s_.get('k') == 'ret':
                st = iv.at(bid, i)
                if st is None:
                    continue
                r = iv.ev(s_['e'], dict(st))
                n += 1
                rep.check(r[0] > 0 or r[1] < 0, 'E3.negative-index', f.qn, show(s_)[:70], locline(s_['loc']),
                          'for every index < 0 the returned code lies in %s and must exclude kErrorNone (0)' % (r,), facts.config)
    rep.require(n >= 1, 'C10: no reachable return of GetArrayElem for a negative index')
    # the index reaches GetArrayElem unchanged (GetNum() is passed on, no abs/cast to unsigned)
    for f in facts.functions:
        if f.cls_qn == SCANNER and f.short == 'GetOnDemand':
            for bid, i, s, e in f.walk():
                if e.get('k') == 'call' and e.get('cname') == 'GetArrayElem':
                    a = strip_expect(e['args'][3])
                    ok = a.get('k') == 'call' and a.get('cname') == 'GetNum'
                    rep.check(ok, 'E3.negative-index', f.qn, 'index argument %s' % show(e['args'][3])[:50], locline(e['loc']),
                              'the signed path index must be handed to GetArrayElem as is', facts.config)
            break


def clause_wrapper(facts, rep):
    n = 0
    for f in facts.functions:
        if f.qn != 'sonic_json::GetOnDemand':
            continue
        rep.fn(f)

        def gen_edge(b, cond, sense):
            c = strip_expect(cond)
            if c is not None and c.get('k') == 'bin' and c['op'] in ('<', '>=') and strip(c['l']).get('name') == 'start' and cval(c['r']) == 0:
                neg = (c['op'] == '<') == sense
                return ['neg'] if neg else ['nonneg']
            return []

        def gen_stmt(s):
            for e in walk(s):
                if e.get('k') == 'call' and e.get('opcall') == '=' and strip(e['args'][0]).get('name') == 'target':
                    rhs = e['args'][1]
                    if any(x.get('k') == 'str' and x.get('bytes') == [] for x in walk(rhs)):
                        return ['cleared']
            return []
        M = Must(f, gen_edge=gen_edge, gen_stmt=gen_stmt)
        for bid, i, s, e in f.walk():
            if e.get('k') == 'call' and e.get('opcall') == '=' and strip(e['args'][0]).get('name') == 'target':
                st = M.at(bid, i)
                if st is None:
                    continue
                rhs = e['args'][1]
                if any(x.get('k') == 'ref' and x.get('name') == 'start' for x in walk(rhs)):
                    n += 1
                    rep.check('nonneg' in st, 'E2.slice', f.qn, show(e)[:70], locline(e['loc']),
                              'the slice may be built only from a non-negative start', facts.config)
        for bid, i, s in f.stmts():
            s_ = strip(s)
            if s_.get('k') == 'ret':
                st = M.at(bid, i)
                if st is None:
                    continue
                if 'neg' in st:
                    n += 1
                    rep.check('cleared' in st, 'E2.slice', f.qn, show(s_)[:60], locline(s_['loc']),
                              'on error the target slice must be cleared before returning', facts.config)
                    neg = any(x.get('k') == 'un' and x['op'] == '-' and strip(x['e']).get('name') == 'start' for x in walk(s_))
                    rep.check(neg, 'E2.slice', f.qn, 'error code = -start', locline(s_['loc']), 'the negative result is the negated error code', facts.config)
    rep.require(n >= 2, 'C10: wrapper obligations found: %d' % n)
    m = 0
    for f in facts.functions:
        if f.short == 'parseOnDemandImpl' and f.cls_qn == 'sonic_json::GenericDocument':
            rep.fn(f)

            def gen_edge(b, cond, sense):
                c = strip_expect(cond)
                neg = False
                while c is not None and c.get('k') == 'un' and c['op'] == '!':
                    neg = not neg
                    c = strip_expect(c['e'])
                if c is not None and c.get('k') == 'call' and c.get('cname') == 'HasParseError':
                    return ['ok'] if (sense == neg) else []
                return []
            M = Must(f, gen_edge=gen_edge)
            for bid, i, s, e in f.walk():
                if e.get('k') == 'call' and e.get('cname') == 'parseImpl':
                    st = M.at(bid, i)
                    if st is None:
                        continue
                    m += 1
                    rep.check('ok' in st, 'E2.parse-on-success', f.qn, show(e)[:60], locline(e['loc']),
                              'the target is parsed only when the lookup succeeded', facts.config)
    rep.require(m >= 2, 'C10: parseOnDemandImpl instances: %d' % m)


def run(rep, tier):
    configs = ['K1'] if tier == 'quick' else ['K1', 'K3', 'K4']
    for cfg in configs:
        facts = get_facts(cfg)
        rep.unit(facts)
        clause_kind(facts, rep)
        clause_negative_index(facts, rep)
        c11.clause_c(facts, rep)
        clause_wrapper(facts, rep)
    rep.trust('clang 14 front end')
    rep.assumptions += [
        'decides only: wrong-kind step and negative index yield an error, errors are negated, slice cleared on error, target parsed only on success',
        'does NOT decide (the bulk of the property) that the selected member/element agrees with the DOM: a differential semantic statement with no structural rule that does not mirror the code',
    ]
