"""C07 — Finite doubles print as the shortest round-tripping decimal: clauses
(a) Pow10CeilSig table, (b) log approximations over the whole exponent range,
(c) table index in range, (d) Ctz10 thresholds, (e) output always has a
fraction or exponent, (f) length bound, (g) interval endpoints adjusted by the
same parity (DESIGN.md section 5/C07)."""
from fractions import Fraction
from ..core import get_facts, strip, strip_expect, cval, show, walk, locline, AnalysisBroken
from ..e5_tables import arr, find_static, check_rows, pow10_m128_ceil
from ..e3_interval import check_table_subscripts, intervals_for, table_value_ranges
from ..e2_dom import Must
from .c01_number import eval_pure

NS = 'sonic_json::internal::'


def floor_log10_pow2(q, num=1, den=1):
    """floor(log10(num/den * 2^q)) exactly"""
    x = Fraction(num, den) * (Fraction(2) ** q)
    k = 0
    # estimate then correct
    import math
    k = int(math.floor(q * math.log10(2) + math.log10(num / den)))
    while Fraction(10) ** k > x:
        k -= 1
    while Fraction(10) ** (k + 1) <= x:
        k += 1
    return k


def floor_log2_pow10(k):
    from ..e5_tables import floor_log2_pow10 as f
    return f(k)


def clause_ab(facts, rep):
    ss = [s for s in find_static(facts, name='g') if 'Pow10CeilSig' in s.get('func', '')]
    rep.require(len(ss) == 1, 'C07.a: Pow10CeilSig table not found')
    kmin = None
    fn = [f for f in facts.functions if f.qn == NS + 'Pow10CeilSig']
    rep.require(len(fn) == 1, 'C07.a: Pow10CeilSig not found')
    if not ss or not fn:
        return None
    s = ss[0]
    f = fn[0]
    rep.fn(f)
    # index expression  g[k - KMIN]
    for bid, i, st, e in f.walk():
        if e.get('k') == 'sub':
            ix = strip(e['idx'])
            if ix.get('k') == 'bin' and ix['op'] == '-' and cval(ix['r']) is not None:
                kmin = cval(ix['r'])
            elif ix.get('k') == 'bin' and ix['op'] == '+' and cval(ix['r']) is not None:
                kmin = -cval(ix['r'])
    rep.require(kmin is not None, 'C07.a: table base exponent (KMIN) not bound from the subscript')
    if kmin is None:
        return None
    rows = arr(s['value'])
    got = [(r[0] << 64) | r[1] for r in rows]     # {hi, lo}
    want = [pow10_m128_ceil(kmin + i) for i in range(len(rows))]
    check_rows(rep, 'E5.table', f.qn, 'g', locline(s['loc']), got, want, facts.config,
               'ceil(10^k * 2^(127 - floor(log2 10^k))), k = %d + row' % kmin, show=lambda x: '0x%032X' % x)
    # (b) bind the approximation constants from F64ToDecimal
    fd = [x for x in facts.functions if x.qn == NS + 'F64ToDecimal']
    rep.require(len(fd) == 1, 'C07.b: F64ToDecimal not found')
    if not fd:
        return None
    fd = fd[0]
    rep.fn(fd)
    # the decimal exponent k and the binary shift h are bound from their uses (the argument of Pow10CeilSig(-k), the
    # shift amount of the RoundToOdd operands) and the code that computes them is *evaluated* (sv/minterp.py) for
    # every binary exponent q a double can have, for a regular and an irregular (exact power of two) significand
    from ..minterp import Interp, Unsupported, UndefinedBehaviour
    kid = hid = None
    for bid, i, st, e in fd.walk():
        if e.get('k') == 'call' and e.get('cname') == 'Pow10CeilSig' and e.get('args'):
            a = strip(e['args'][0])
            if a is not None and a.get('k') == 'un' and a['op'] == '-' and strip(a['e']).get('k') == 'ref':
                kid = strip(a['e'])['id']
        if e.get('k') == 'call' and e.get('cname') == 'RoundToOdd' and len(e.get('args', [])) >= 2:
            a = strip(e['args'][1])
            if a is not None and a.get('k') == 'bin' and a['op'] == '<<' and strip(a['r']).get('k') == 'ref':
                hid = strip(a['r'])['id']
    rep.require(kid is not None and hid is not None, 'C07.b: decimal exponent / shift variables of F64ToDecimal not bound')
    if kid is None or hid is None:
        return None
    ps = {p['name']: p['id'] for p in fd.params}
    rep.require(all(x in ps for x in ('rsig', 'rexp', 'c', 'q')), 'C07.b: parameters of F64ToDecimal not bound')
    stop = lambda b, i, st: any(x.get('k') == 'call' and x.get('cname') == 'Pow10CeilSig' for x in walk(st))
    qs = range(-1074, 972)
    bad = []
    bad2 = []
    ks = set()
    it = Interp(fd, facts)
    try:
        for q in qs:
            for irregular in (0, 1):
                env = {ps['q']: q, ps['c']: 1 << 52, ps['rsig']: 0 if irregular else 1, ps['rexp']: 2}
                try:
                    _, env2, _, reached = it.run(env, {}, stop_at=stop)
                except UndefinedBehaviour as ex:
                    bad.append(('undefined behaviour: %s' % ex, q, None, None))
                    continue
                if not reached or kid not in env2 or hid not in env2:
                    raise Unsupported('k / h not computed before the table lookup')
                k, h = env2[kid], env2[hid]
                want = floor_log10_pow2(q, 3, 4) if irregular else floor_log10_pow2(q)
                if k != want:
                    bad.append(('irregular' if irregular else 'regular', q, k, want))
                ks.add(k)
                wh = q + floor_log2_pow10(-k) + 1
                if h != wh:
                    bad2.append((q, k, h, wh))
    except Unsupported as ex:
        raise AnalysisBroken('C07.b: exponent computation of F64ToDecimal not evaluable: %s' % ex)
    rep.check(not bad, 'E5.log-approx', fd.qn, 'k == floor(log10({1,3/4} * 2^q)) for q in [-1074, 971], regular and irregular significands (evaluated from the source expression)', fd.loc,
              'first mismatch (kind, q, k, expected) %s' % (bad[:1],), facts.config)
    rep.check(not bad2, 'E5.log-approx', fd.qn, 'h == q + floor(log2(10^-k)) + 1 for every (q, k) produced (%d values of k)' % len(ks), fd.loc,
              'first mismatch (q, k, h, expected) %s' % (bad2[:1],), facts.config)
    # (c) index range: closed form over the exhaustive k set, plus the interval analysis of the subscript
    lo, hi = min(-k for k in ks), max(-k for k in ks)
    rep.check(lo - kmin >= 0 and hi - kmin < len(rows), 'E5.table-range', f.qn, 'every -k in [%d, %d] indexes g[0..%d)' % (lo, hi, len(rows)), f.loc,
              'KMIN=%d rows=%d' % (kmin, len(rows)), facts.config)
    rep.extra['exponents_checked'] = len(list(qs))
    return True


def clause_c(facts, rep):
    ss = [s for s in find_static(facts, name='g') if 'Pow10CeilSig' in s.get('func', '')]
    if ss:
        check_table_subscripts(facts, rep, 'E3.table-index', ss[0]['qn'], len(ss[0]['value']['arr']), min_sites=1)


def clause_d(facts, rep):
    fs = [f for f in facts.functions if f.qn == NS + 'Ctz10']
    rep.require(len(fs) == 1, 'C07.d: Ctz10 not found')
    for f in fs:
        rep.fn(f)
        bad = []
        for k in range(0, 17):
            for v in ((10 ** k), 10 ** (k + 1) - 1):
                r = eval_pure(f, {f.params[0]['id']: v}, fuel=400)
                if r != k + 1:
                    bad.append((v, r, k + 1))
        rep.check(not bad, 'E5.ctz10', f.qn, 'Ctz10(v) == number of decimal digits at every boundary 10^k, 10^(k+1)-1, k < 17', f.loc,
                  'first mismatch (v, got, want) %s' % (bad[:1],), facts.config)


def dot_store(e):
    """assignment of '.' or 'e' through a pointer / subscript"""
    return e.get('k') == 'bin' and e['op'] == '=' and cval(e['r']) in (46, 101) and strip(e['l']).get('k') in ('un', 'sub')


def clause_e(facts, rep):
    fmt_ok = {}
    for name in ('FormatExponent', 'FormatDecimal'):
        fs = [f for f in facts.functions if f.qn == NS + name]
        rep.require(len(fs) == 1, 'C07.e: %s not found' % name)
        for f in fs:
            rep.fn(f)
            from ..e2_dom import repeated_stable_conditions
            import itertools
            conds = repeated_stable_conditions(f)[:3]
            ok = True
            n = 0
            verdict = {}
            for combo in itertools.product([True, False], repeat=len(conds)):
                M = Must(f, gen_stmt=lambda s: ['dot'] if any(dot_store(e) for e in walk(s)) else [], assume=dict(zip(conds, combo)))
                for bid, i, s in f.stmts():
                    if strip(s).get('k') == 'ret':
                        st = M.at(bid, i)
                        if st is None:
                            continue
                        key = locline(strip(s)['loc'])
                        verdict[key] = verdict.get(key, True) and ('dot' in st)
            for key, good in sorted(verdict.items()):
                n += 1
                ok = ok and good
                rep.check(good, 'E2.has-fraction', f.qn, 'return after a store of \'.\' or \'e\'', key,
                          'every formatted double must contain a fraction or an exponent (case split on %s)' % conds, facts.config)
            fmt_ok[name] = ok and n > 0
    fs = [f for f in facts.functions if f.qn == NS + 'F64toa']
    rep.require(len(fs) == 1, 'C07.e: F64toa not found')
    for f in fs:
        rep.fn(f)

        def gen_stmt(s):
            for e in walk(s):
                if dot_store(e):
                    return ['dot']
            return []
        M = Must(f, gen_stmt=gen_stmt)
        n = 0
        for bid, i, s in f.stmts():
            s_ = strip(s)
            if s_.get('k') != 'ret':
                continue
            st = M.at(bid, i)
            if st is None:
                continue
            c = cval(s_.get('e'))
            if c == 0:
                rep.ok('E2.has-fraction', '%s: return 0 (non-finite: no text)' % f.qn, locline(s_['loc']))
                continue
            n += 1
            via = [e.get('cname') for e in walk(s_) if e.get('k') == 'call' and e.get('cname') in fmt_ok]
            good = 'dot' in st or (via and all(fmt_ok.get(v) for v in via))
            rep.check(good, 'E2.has-fraction', f.qn, show(s_)[:60], locline(s_['loc']),
                      'a positive-length result must have passed a store of \'.\' or a verified formatter', facts.config)
        rep.require(n >= 5, 'C07.e: only %d text-producing returns of F64toa found' % n)
        # non-finite test: the early return 0 is guarded by the all-ones exponent
        # evaluated (sv/minterp.py): for every class of non-finite bit pattern - both signs, infinity, quiet / signalling
        # NaN, smallest and largest payload - F64toa returns 0 before it calls anything or writes any byte; the
        # neighbouring finite patterns are not swallowed by the same test
        from ..minterp import Interp, Unsupported

        class _Past(Exception):
            pass
        EXPM = 0x7FF << 52
        nonfinite = [sgn | EXPM | frac for sgn in (0, 1 << 63) for frac in (0, 1, 1 << 51, (1 << 51) | 1, (1 << 52) - 1, 1 << 50)]
        finite = [sgn | (e << 52) | frac for sgn in (0, 1 << 63) for e in (0x7FE, 0x3FF, 1) for frac in (0, (1 << 52) - 1)]
        bad = None
        try:
            for raw in nonfinite + finite:
                def hook(e, args, env, members, raw=raw):
                    if e.get('cname') == 'F64ToRaw':
                        return raw
                    if (e.get('cname') or '').startswith('__builtin_'):
                        return None
                    raise _Past(e.get('cname'))
                it = Interp(f, facts, call_hook=hook)
                try:
                    got = it.run({f.params[0]['id']: 4096, f.params[1]['id']: 0}, {})[0]
                    past = False
                except _Past:
                    got, past = None, True
                isnf = raw in nonfinite
                if isnf and (past or got != 0 or it.mem_stores):
                    bad = 'bits 0x%016x (non-finite) are not refused: %s' % (raw, 'formatting continues' if past else 'returns %s / writes %s' % (got, it.mem_stores[:1]))
                    break
                if not isnf and not past and got == 0:
                    bad = 'finite bits 0x%016x are refused' % raw
                    break
        except Unsupported as ex:
            raise AnalysisBroken('C07.e: non-finite screening of F64toa not evaluable: %s' % ex)
        rep.check(bad is None, 'E5.nonfinite', f.qn, 'returns 0 without output for all %d non-finite bit-pattern classes (both signs), for none of %d finite neighbours' % (len(nonfinite), len(finite)), f.loc,
                  bad or '', facts.config)


def clause_f(facts, rep):
    """length bound from the format-selection constants"""
    fs = [f for f in facts.functions if f.qn == NS + 'F64toa']
    for f in fs:
        lo = hi = None
        for bid, i, s, e in f.walk():
            if e.get('k') == 'bin' and e['op'] in ('<', '>') and strip(e['l']).get('k') == 'ref' and strip(e['l']).get('name') == 'sci_exp':
                if e['op'] == '<':
                    lo = cval(e['r'])
                else:
                    hi = cval(e['r'])
        rep.require(lo is not None and hi is not None, 'C07.f: fixed/scientific switch constants not bound')
        if lo is None or hi is None:
            return
        digits = 17          # Ctz10 range, verified in (d)
        sci = 1 + digits + 1 + 1 + 1 + 3            # sign digits '.' 'e' sign 3-digit exponent
        small = 1 + 2 + (-lo - 1) + digits          # sign "0." leading zeros digits     (sci_exp >= lo)
        large = 1 + (hi + 1) + 2                    # sign integer digits ".0"          (sci_exp <= hi)
        frac = 1 + digits + 1                       # sign digits with an inner '.'
        m = max(sci, small, large, frac)
        rep.extra['f64toa_max_len'] = m
        # what the serializer reserves
        res = None
        for g in facts.functions:
            if g.short == 'SerializeImpl':
                for bid, i, s in g.stmts():
                    s_ = strip(s)
                    if s_.get('k') == 'decl':
                        for v in s_['vars']:
                            if v['name'] == 'kNumberSize':
                                res = cval(v['init'])
        rep.require(res is not None, 'C07.f: serializer number reserve not bound')
        rep.check(m <= 32 and (res is None or m <= res - 1), 'E5.length', f.qn, 'max text length %d (window %d..%d) <= 32 and <= kNumberSize-1' % (m, lo, hi), f.loc,
                  'reserve %s' % res, facts.config)


def clause_g(facts, rep):
    """Schubfach: the rounding interval is closed exactly when the significand is even, on BOTH ends.
    F64ToDecimal is straight-line integer code around three RoundToOdd calls (left / middle / right boundary,
    recognised by the value of their scaled argument 4c-2, 4c, 4c+2).  Every comparison one side of which depends
    on the left (right) boundary and not on the middle one is an interval test; that side is evaluated by
    substituting definitions, for c = 0..3 and two different boundary values, and must equal
    left + (c & 1)   (resp. right - (c & 1))."""
    fd = [x for x in facts.functions if x.qn == NS + 'F64ToDecimal']
    rep.require(len(fd) >= 1, 'C07.g: F64ToDecimal not found')
    for f in fd:
        defs = {}
        for bid, i, s in f.stmts():
            s_ = strip(s)
            if s_ is None:
                continue
            if s_.get('k') == 'bin' and s_['op'] == '=' and strip(s_['l']).get('k') == 'ref':
                defs.setdefault(strip(s_['l'])['id'], []).append(s_['r'])
            if s_.get('k') == 'decl':
                for vd in s_['vars']:
                    if vd.get('init') is not None:
                        defs.setdefault(vd['id'], []).append(vd['init'])
        ps = {p['name']: p['id'] for p in f.params}
        rep.require(all(k in ps for k in ('c', 'q', 'rsig', 'rexp')), 'C07.g: parameters of F64ToDecimal not bound')
        if not all(k in ps for k in ('c', 'q', 'rsig', 'rexp')):
            return

        class Opaque(Exception):
            pass

        def ev(e, env):
            c = cval(e)
            e_ = strip(e)
            if e_ is None:
                raise KeyError('empty')
            k = e_.get('k')
            if c is not None and k != 'ref':
                return c
            if k == 'ref':
                if e_['id'] in env:
                    return env[e_['id']]
                ds = defs.get(e_['id'])
                if ds and len(ds) == 1:
                    return ev(ds[0], env)
                if c is not None:
                    return c
                raise KeyError(e_.get('name'))
            if k == 'un':
                v = ev(e_['e'], env)
                if e_['op'] == '!':
                    return int(not v)
                if e_['op'] == '-':
                    return -v
                raise KeyError(e_['op'])
            if k == 'cond':
                return ev(e_['a'], env) if ev(e_['c'], env) else ev(e_['b'], env)
            if k == 'call' and e_.get('cname') == 'RoundToOdd':
                a = ev(e_['args'][1], dict(env, **{'noshift': True}))
                kind = {4 * env[ps['c']] - 2: 'L', 4 * env[ps['c']]: 'M', 4 * env[ps['c']] + 2: 'R'}.get(a)
                if kind is None:
                    raise KeyError('RoundToOdd argument %s' % a)
                return env[kind]
            if k == 'bin':
                op = e_['op']
                l = ev(e_['l'], env)
                if op == '&&':
                    return int(bool(l) and bool(ev(e_['r'], env)))
                if op == '||':
                    return int(bool(l) or bool(ev(e_['r'], env)))
                if op == '<<' and env.get('noshift'):
                    return l      # the common scale 2^h of the three boundaries is irrelevant for telling them apart
                r = ev(e_['r'], env)
                if op in ('/', '%') and r == 0:
                    raise KeyError('division by zero')
                fn_ = {'&': lambda: l & r, '|': lambda: l | r, '+': lambda: l + r, '-': lambda: l - r, '*': lambda: l * r, '/': lambda: l // r, '%': lambda: l % r,
                       '>>': lambda: l >> r, '<<': lambda: l << r, '==': lambda: int(l == r), '!=': lambda: int(l != r), '<': lambda: int(l < r), '<=': lambda: int(l <= r),
                       '>': lambda: int(l > r), '>=': lambda: int(l >= r)}.get(op)
                if fn_ is None:
                    raise KeyError(op)
                return fn_()
            raise KeyError(k)

        def envs(c, L, M, R):
            return {ps['c']: c, ps['q']: 0, ps['rsig']: 1, ps['rexp']: 1, 'L': L, 'M': M, 'R': R}
        A = (1000000, 2000000, 3000000)
        B = (1000400, 2000800, 3001200)

        def depends(e, which):
            base = ev(e, envs(2, *A))
            alt = list(A)
            alt['LMR'.index(which)] += 4000
            return ev(e, envs(2, *alt)) != base
        nL = nR = 0
        try:
            seen = set()
            for bid, i, s, e in f.walk():
                if e.get('k') != 'bin' or e['op'] not in ('<=', '>=', '<', '>') or id(e) in seen:
                    continue
                seen.add(id(e))
                sides = {'l': e['l'], 'r': e['r']}
                dep = {}
                for nm, x in sides.items():
                    try:
                        dep[nm] = ''.join(w for w in 'LMR' if depends(x, w))
                    except KeyError:
                        dep[nm] = None
                for nm, other in (('l', 'r'), ('r', 'l')):
                    d = dep[nm]
                    if d not in ('L', 'R'):
                        continue
                    # normalise to  Lside <= T   /   T <= Rside
                    small_side = 'l' if e['op'] in ('<=', '<') else 'r'
                    strict = e['op'] in ('<', '>')
                    want_small = (d == 'L')
                    if strict or (small_side == nm) != want_small:
                        raise AnalysisBroken('C07.g: interval test %s is not of the form left <= t / t <= right' % show(e))
                    vals = []
                    ok = True
                    for c in range(4):
                        for (L, M, R) in (A, B):
                            got = ev(sides[nm], envs(c, L, M, R))
                            exp = (L + (c & 1)) if d == 'L' else (R - (c & 1))
                            vals.append((c, got - (L if d == 'L' else R)))
                            ok = ok and got == exp
                    if d == 'L':
                        nL += 1
                    else:
                        nR += 1
                    rep.check(ok, 'E9.interval-parity', f.qn, '%s endpoint in %s' % ('lower' if d == 'L' else 'upper', show(e)), locline(e['loc']),
                              'the %s endpoint of the rounding interval must be the boundary %s (c & 1): open exactly for odd significands; (c, endpoint - boundary) = %s' % (
                                  'lower' if d == 'L' else 'upper', '+' if d == 'L' else '-', sorted(set(vals))), facts.config)
        except KeyError as ex:
            raise AnalysisBroken('C07.g: F64ToDecimal not evaluable (%s)' % ex)
        rep.require(nL >= 2 and nR >= 2, 'C07.g: interval tests found: %d lower, %d upper' % (nL, nR))


def clause_digit_text(facts, rep):
    """every character the number formatter emits is a digit: (1) a pair copied out of the two-digit table starts at an
    even... at an index whose two bytes lie inside the 100 pairs (the table's trailing NUL bytes are not digits);
    (2) a single character computed as '0' + x has x in [0, 9] -- both by interval analysis under the path guards.
    Contract used (trusted): the decimal exponent of a finite double lies in [-343, 308]."""
    from .. import e3_interval
    e3_interval.FIELD_RANGES[('F64Decimal', 'exp')] = (-343, 308)
    tabs = table_value_ranges(facts)
    st = [x for x in facts.statics if x['name'] == 'kDigits']
    rep.require(len(st) >= 1, 'C07: kDigits not found')
    if not st:
        return
    check_table_subscripts(facts, rep, 'E3.kdigits-index', st[0]['qn'], 200, width_of=lambda f, e: 2, only_files=('internal/ftoa.h',), min_sites=8)
    n = 0
    seen = set()
    for f in facts.functions:
        if not f.file.endswith('internal/ftoa.h'):
            continue
        sites = []
        for bid, i, s_, e in f.walk():
            if e.get('k') == 'bin' and e['op'] == '+' and (e.get('t') or '') in ('int', 'unsigned int', 'long', 'unsigned long'):
                for a, b in ((e['l'], e['r']), (e['r'], e['l'])):
                    sa = strip(a)
                    if cval(a) == 48 and sa is not None and sa.get('k') == 'lit' and cval(b) is None:
                        sites.append((bid, i, e, b))
        if not sites:
            continue
        iv = intervals_for(facts, f, tabs)
        rep.fn(f)
        for bid, i, e, x in sites:
            key = (f.qn, show(e), locline(e['loc']))
            if key in seen:
                continue
            seen.add(key)
            stt = iv.at(bid, i)
            if stt is None:
                continue
            r = iv.ev(x, dict(stt))
            n += 1
            rep.check(r[0] >= 0 and r[1] <= 9, 'E3.digit-char', f.qn, show(e), locline(e['loc']),
                      "range of the value added to '0': [%s, %s] must lie in [0, 9]" % r, facts.config)
    rep.require(n >= 3, "C07: '0' + x character computations found in ftoa.h: %d (>= 3 expected)" % n)


def clause_format(facts, rep, tier):
    """the formatting stage of F64toa, evaluated with a byte memory (sv/minterp.py): F64toa is interpreted with the
    double-to-decimal conversion replaced by a chosen shortest decimal (sig x 10^exp) for both signs, every digit
    count 1..17, three digit patterns and every decimal-point position in and around the fixed-notation window plus
    exponent-notation samples over the whole range.  Obligations: every store lands inside the 32 bytes the callers
    reserve, the returned length is within them, and the text is a JSON number whose exact value is sig x 10^exp."""
    from ..minterp import Interp, Unsupported, UndefinedBehaviour
    from fractions import Fraction
    import re as _re
    fs = [f for f in facts.functions if f.qn == NS + 'F64toa']
    rep.require(len(fs) == 1, 'C07: F64toa not found')
    NUM = _re.compile(r'^-?(0|[1-9][0-9]*)(\.[0-9]+)?([eE][+-]?[0-9]+)?$')
    for f in fs:
        rep.fn(f)
        base = 0x1000
        bad = None
        n = 0
        exps_sci = [-343, -325, -324, -323, -200, -101, -100, -99, -30, 30, 99, 100, 101, 200, 291, 292, 308]
        try:
            for neg in (0, 1):
                raw = (neg << 63) | (0x3FF << 52) | (1 << 51)          # +-1.5: finite, not an integer
                for cnt in range(1, 18):
                    pats = sorted(set([int('9' * cnt), int(('12' * 9)[:cnt])] + ([int('1' * cnt), int('1' + '0' * (cnt - 1))] if tier == 'thorough' else [])))
                    pats = [p_ for p_ in pats if len(str(p_)) == cnt]
                    exps = sorted(set([d - cnt for d in range(-9, 26)] + exps_sci))
                    for sig in pats:
                        for ex in exps:
                            if not -343 <= ex <= 308:
                                continue

                            def hook(e, args, env, members, sig=sig, ex=ex):
                                if e.get('cname') == 'F64ToRaw':
                                    return raw
                                if e.get('cname') == 'F64ToDecimal':
                                    return {'sig': sig, 'exp': ex}
                                if e.get('cname') == 'U64toa' and len(args) == 2 and isinstance(args[0], int):
                                    # the integer writer has its own rules (C08): its contract - the decimal digits at the position, end returned
                                    ds = str(args[1]).encode()
                                    for j_, ch_ in enumerate(ds):
                                        holder[0].write(args[0] + j_, 1, ch_, ' (integer writer)')
                                    return args[0] + len(ds)
                                return None
                            holder = [None]
                            it = Interp(f, facts, call_hook=hook, max_steps=200000)
                            holder[0] = it
                            it.memory = {base + i: 0xAA for i in range(32)}
                            it.writable = [(base, base + 32)]
                            it.written = set()
                            try:
                                r = it.run({f.params[0]['id']: base, f.params[1]['id']: 0}, {})[0]
                            except UndefinedBehaviour as ux:
                                bad = '%s%d x 10^%d: %s' % ('-' if neg else '', sig, ex, ux)
                                break
                            n += 1
                            if not isinstance(r, int) or not 1 <= r <= 32:
                                bad = '%s%d x 10^%d: returned length %s' % ('-' if neg else '', sig, ex, r)
                                break
                            txt = bytes(it.memory[base + i] for i in range(r)).decode('latin-1')
                            okv = False
                            if NUM.match(txt) and ('.' in txt or 'e' in txt or 'E' in txt):
                                m_ = _re.match(r'^(-?)([0-9]+)(?:\.([0-9]+))?(?:[eE]([+-]?[0-9]+))?$', txt)
                                ip, fp, ep = m_.group(2), m_.group(3) or '', int(m_.group(4) or 0)
                                val = Fraction(int(ip + fp)) * Fraction(10) ** (ep - len(fp))
                                okv = val == Fraction(sig) * Fraction(10) ** ex and (m_.group(1) == '-') == bool(neg)
                            if not okv:
                                bad = '%s%d x 10^%d is printed as %r' % ('-' if neg else '', sig, ex, txt)
                                break
                        if bad:
                            break
                    if bad:
                        break
                if bad:
                    break
        except Unsupported as ex_:
            raise AnalysisBroken('C07: the formatting stage of F64toa cannot be evaluated: %s' % ex_)
        rep.extra['format_evaluations'] = rep.extra.get('format_evaluations', 0) + n
        rep.check(bad is None, 'E5.format', f.qn, 'every store inside the 32-byte number buffer, text == sig x 10^exp as a JSON number (%d evaluations)' % n, f.loc, bad or '', facts.config)


def run(rep, tier):
    configs = ['K1'] if tier == 'quick' else ['K1', 'K3', 'K7']
    for cfg in configs:
        facts = get_facts(cfg)
        rep.unit(facts)
        clause_ab(facts, rep)
        clause_c(facts, rep)
        clause_d(facts, rep)
        clause_e(facts, rep)
        clause_f(facts, rep)
        clause_g(facts, rep)
        clause_digit_text(facts, rep)
        clause_format(facts, rep, tier)
        from .. import narrowing
        try:
            narrowing.check(facts, rep, 'E3.lossless-narrowing', ('ftoa.h',), bounds={('FormatSignificand', 'sig'): 10 ** 17}, min_sites=2)
        except AnalysisBroken as ex:
            rep.broken.append(str(ex))      # the remaining rules still report
    # the digit-table / digit-character range rules of the double formatter are decided together with the evaluation of
    # the formatting stage on the current source (E5.format): a range proof that cannot be rebuilt for a new spelling
    # of the branches is a note, not a verdict
    for r_ in ('E3.kdigits-index', 'E3.digit-char'):
        rep.corroborate(r_, 'E5.format', only=lambda v: 'ftoa.h' in (v.get('loc') or ''))
    rep.trust('clang 14 front end and constant evaluator', 'Python big integers / fractions',
              'contract: the decimal significand handed to FormatSignificand has at most 17 digits (< 10^17)',
              'contract: the decimal exponent of a finite double produced by F64ToDecimal lies in [-343, 308]')
    rep.assumptions += [
        'decides the power-of-ten table, the log approximations on the whole double exponent range, the table index range, the digit-count thresholds, that every text has a fraction or exponent, the length bound, that both interval endpoints use the same parity adjustment, and that no 64->32 bit truncation in the digit formatter loses value',
        'does NOT decide shortest/closest/round-trip: the Schubfach interval arithmetic itself is value level',
    ]
