"""C08 — 64-bit integers print as their exact decimal representation: clauses
(a) digit tables, (b) multiply-shift constants exact on their domain and the
vector digit splitter evaluated for every 4-digit group, (c) split points and
kDigits subscripts in range, (d) sign handling, (e) touched extent
(DESIGN.md section 5/C08)."""
from ..core import get_facts, strip, strip_expect, cval, show, walk, locline, AnalysisBroken
from ..e5_tables import arr, find_static, check_rows, exact_division_theorem
from ..e3_interval import check_table_subscripts, intervals_for, table_value_ranges
from .. import sse_interp

NS = 'sonic_json::internal::'


def table(facts, rep, name, qn=None):
    ss = find_static(facts, name=name) if qn is None else find_static(facts, qn=qn)
    rep.require(len(ss) >= 1, 'table %s not found' % name)
    return ss[0] if ss else None


def clause_a(facts, rep):
    s = table(facts, rep, 'kDigits')
    if s:
        got = arr(s['value'])
        want = [ord(c) for i in range(100) for c in '%02d' % i]
        check_rows(rep, 'E5.table', s['qn'], 'kDigits', locline(s['loc']), got[:200], want, facts.config, 'the 2-digit spellings 00..99',
                   show=lambda x: repr(chr(x)))
        rep.check(len(got) >= 201, 'E5.table', s['qn'], 'kDigits has >= 201 bytes', locline(s['loc']), 'size %d' % len(got), facts.config)
    for name, want in (('kVec16xAsc0', [48] * 16), ('kVec8x10', [10] * 8), ('kVec4x10k', [10000] * 4)):
        s = table(facts, rep, name)
        if s:
            check_rows(rep, 'E5.table', s['qn'], name, locline(s['loc']), arr(s['value']), want, facts.config, 'splat of %d' % want[0])


def clause_b(facts, rep):
    # (b1) the reciprocal that divides by 10^4: bind multiplier and shift from the data flow of UtoaSSE
    fns = [f for f in facts.functions if f.short == 'UtoaSSE']
    rep.require(len(fns) >= 1, 'C08.b: UtoaSSE not found')
    tabs = {}
    for s in facts.statics:
        if s['qn'].startswith(NS + 'x86_common::kVec'):
            v = arr(s['value'])
            w = {'const uint16_t': 16, 'const uint32_t': 32, 'const char': 8}.get(s['t'].split('[')[0].strip(), None)
            if w:
                tabs[s['qn']] = (w, v)
    for f in fns[:1]:
        rep.fn(f)
        defs = {}
        for bid, i, s in f.stmts():
            s_ = strip(s)
            if s_.get('k') == 'decl':
                for v in s_['vars']:
                    defs[v['id']] = strip(v.get('init'))
        found = 0
        for vid, init in defs.items():
            if init is not None and init.get('k') == 'call' and init.get('cname') == '_mm_srli_epi64':
                a0 = strip(init['args'][0])
                sh = cval(init['args'][1])
                src = defs.get(a0.get('id')) if a0.get('k') == 'ref' else None
                if src is not None and src.get('k') == 'call' and src.get('cname') == '_mm_mul_epu32':
                    m = None
                    for x in walk(src['args'][1]):
                        if x.get('k') == 'ref' and x.get('qn') in tabs:
                            m = tabs[x['qn']][1][0]
                            mq = x['qn']
                    if m is not None and sh is not None:
                        found += 1
                        ok, e = exact_division_theorem(m, sh, 10 ** 4, 10 ** 8)
                        rep.check(ok, 'E5.reciprocal', f.qn, 'floor(n * 0x%x >> %d) == floor(n / 10^4) for all n < 10^8' % (m, sh), locline(init['loc']),
                                  'exact-division theorem: m*d - 2^s = %d must be > 0 and * 10^8 <= 2^%d' % (e, sh), facts.config)
                        tv = tabs[mq][1]
                        rep.check(len(set(tv)) == 1, 'E5.reciprocal', f.qn, '%s lanes identical' % mq.split('::')[-1], locline(init['loc']), str(tv), facts.config)
        rep.require(found == 1, 'C08.b: multiply-shift division by 10^4 not bound in UtoaSSE (found %d)' % found)
        # (b2) the whole vector pipeline evaluated for every 4-digit value in both halves
        try:
            ve = sse_interp.VecEval(f, tabs)
            bad = 0
            first = None
            N = 10000
            for x in range(N):
                for n in (x * 10000 + (N - 1 - x), x * 10000 + x):
                    got = sse_interp.lanes(ve.run([n]), 16)
                    want = [int(c) for c in '%08d' % n]
                    if got != want:
                        bad += 1
                        if first is None:
                            first = (n, got, want)
            # digit-count boundaries
            for n in [0, 1, 9, 10, 99, 100, 999, 1000, 9999, 10000, 99999, 100000, 999999, 1000000, 9999999, 10000000, 99999999]:
                got = sse_interp.lanes(ve.run([n]), 16)
                if got != [int(c) for c in '%08d' % n]:
                    bad += 1
                    first = first or (n, got, [int(c) for c in '%08d' % n])
            rep.extra['utoa_sse_inputs_evaluated'] = 2 * N + 17
            rep.check(bad == 0, 'E5.digit-lanes', f.qn, 'UtoaSSE(n) == the 8 decimal digits of n for every 4-digit group value in both halves', f.loc,
                      'first mismatch: %s' % (first,), facts.config)
        except sse_interp.Unsupported as ex:
            raise AnalysisBroken('C08.b: UtoaSSE uses a construct the vector evaluator does not model: %s' % ex)


def clause_c(facts, rep):
    s = table(facts, rep, 'kDigits')
    if not s:
        return

    def width(f, e):
        return 2    # Copy2Digs reads two bytes at the address
    size = len(arr(s['value']))   # declared extent of the array
    check_table_subscripts(facts, rep, 'E3.kdigits-index', s['qn'], size, width_of=width,
                           only_files=('internal/itoa.h',), min_sites=10)
    # split points
    for f in facts.functions:
        if f.qn == NS + 'U64toa':
            # the dispatch is evaluated (sv/minterp.py) at every digit-count boundary: the value must be handed on as an
            # exact decomposition val = hi * 10^8 + lo with both groups below 10^8, or whole when it has <= 8 / >= 17 digits
            rep.fn(f)
            from ..minterp import Interp, Unsupported, UndefinedBehaviour
            bad = None
            pts = sorted(set([0, 1, 9, 10, 99999999, 10 ** 8, 10 ** 8 + 1, 10 ** 15, 10 ** 16 - 1, 10 ** 16, 10 ** 16 + 1, 10 ** 17, 2 ** 63, 10 ** 19, 2 ** 64 - 1] +
                             [10 ** k + d for k in range(1, 20) for d in (-1, 0, 1) if 0 <= 10 ** k + d < 2 ** 64]))
            try:
                for val in pts:
                    calls = []

                    def hook(e, args, env, members):
                        if e.get('cname') in ('Utoa_1_8', 'Utoa_8', 'Utoa_16', 'U64toa_17_20', 'UtoaSSE'):
                            calls.append((e.get('cname'), args))
                            return 7        # an opaque output position
                        return None
                    try:
                        Interp(f, facts, call_hook=hook).run({f.params[0]['id']: 4096, f.params[1]['id']: val}, {})
                    except UndefinedBehaviour as ex:
                        bad = 'val = %d: undefined behaviour: %s' % (val, ex)
                        break
                    names = [c[0] for c in calls]
                    ok = False
                    if names == ['Utoa_1_8']:
                        ok = calls[0][1][1] == val and val < 10 ** 8
                    elif sorted(names) == ['Utoa_1_8', 'Utoa_8']:
                        hi = [c for c in calls if c[0] == 'Utoa_1_8'][0][1][1]
                        lo = [c for c in calls if c[0] == 'Utoa_8'][0][1][0]
                        ok = hi * 10 ** 8 + lo == val and 1 <= hi < 10 ** 8 and lo < 10 ** 8
                    elif names == ['U64toa_17_20']:
                        ok = calls[0][1][1] == val and val >= 10 ** 16
                    if not ok:
                        bad = 'val = %d -> %s' % (val, calls)
                        break
            except Unsupported as ex:
                raise AnalysisBroken('C08.c: U64toa dispatch not evaluable: %s' % ex)
            rep.check(bad is None, 'E5.split', f.qn, 'dispatch hands on an exact group decomposition at all %d digit-count boundaries' % len(pts), f.loc,
                      (bad or '') + ' - groups must satisfy val = hi*10^8 + lo, hi in [1,10^8), lo < 10^8 (or the whole value for <= 8 / >= 17 digits)', facts.config)
        if f.qn == NS + 'U64toa_17_20' or f.qn == NS + 'x86_common::Utoa_16':
            rep.fn(f)
            divs = sorted(set(cval(e['r']) for bid, i, st, e in f.walk()
                              if e.get('k') == 'bin' and e['op'] in ('/', '%') and cval(e['r']) is not None and cval(e['r']) > 100))
            want = [10 ** 16] if f.short == 'U64toa_17_20' else [10 ** 8]
            rep.check(divs == want, 'E5.split', f.qn, 'group divisor %s' % divs, f.loc, 'must be %s' % want, facts.config)
    # callers of the 8-digit vector routines pass values below 10^8 / 10^16
    tables = table_value_ranges(facts)
    for f in facts.functions:
        if f.short in ('Utoa_8', 'UtoaSSE', 'Utoa_16') and 'x86_common' in f.qn:
            iv = intervals_for(facts, f, tables)
            st = iv.IN.get(f.entry, {})
            p = f.params[0]
            r = st.get(p['id'])
            lim = 10 ** 16 if f.short == 'Utoa_16' else 10 ** 8
            rep.fn(f)
            rep.check(r is not None and r[0] >= 0 and r[1] < lim, 'E3.group-range', f.qn, 'argument range %s < %d at every call site' % (r, lim), f.loc,
                      'the vector splitter is only exact below %d' % lim, facts.config)


def clause_d(facts, rep):
    """I64toa: evaluated (sv/minterp.py) for the boundary values of int64: it stores '-' first, hands U64toa the
    position buf + (val < 0) and the magnitude |val| as an unsigned value, and computing that magnitude has no
    undefined behaviour - in particular not for INT64_MIN, whose signed negation does not exist."""
    from ..minterp import Interp, Unsupported, UndefinedBehaviour
    n = 0
    for f in facts.functions:
        if f.qn != NS + 'I64toa':
            continue
        rep.fn(f)
        n += 1
        pb, pv = f.params[0]['id'], f.params[1]['id']
        bad = None
        ub = None
        minus = True
        try:
            for val in (-(1 << 63), -(1 << 63) + 1, -10 ** 18, -10, -1, 0, 1, 9, 10 ** 18, (1 << 63) - 1):
                seen = []

                def hook(e, args, env, members):
                    if e.get('cname') == 'U64toa':
                        seen.append(args)
                        return 0
                    return None
                it = Interp(f, facts, call_hook=hook)
                try:
                    it.run({pb: 4096, pv: val}, {})
                except UndefinedBehaviour as ex:
                    ub = 'val = %d: %s' % (val, ex)
                    break
                if len(seen) != 1 or seen[0][0] != 4096 + (1 if val < 0 else 0) or seen[0][1] != abs(val):
                    bad = 'val = %d: U64toa called with %s, expected (buf + %d, %d)' % (val, seen, 1 if val < 0 else 0, abs(val))
                    break
                if val < 0 and not any(v == 45 for _, v in it.mem_stores):
                    minus = False
        except Unsupported as ex:
            raise AnalysisBroken('C08.d: I64toa not evaluable: %s' % ex)
        rep.check(minus, 'E2.sign', f.qn, "stores '-' at the start of the buffer for negative values", f.loc, '', facts.config)
        rep.check(bad is None, 'E2.sign', f.qn, 'digits written at buf + (val < 0), magnitude |val| passed as uint64', f.loc, bad or '', facts.config)
        rep.check(ub is None, 'E2.sign', f.qn, 'the magnitude is computed without undefined behaviour for every int64 (boundary values evaluated)', f.loc,
                  (ub or '') + ' - negate in unsigned arithmetic', facts.config)
    rep.require(n >= 1, 'C08.d: I64toa not found')


def clause_e(facts, rep):
    """Scalar multiply-shift quotients in the digit splitters: every  (v * M) >> S  with constants M, S in itoa.h
    divides by D = round(2^S / M); D must be a power of ten and the identity (x*M)>>S == x / D must hold for every x
    the interval analysis allows for v at that point (checked exhaustively up to 2^22 values, by the exact-division
    theorem beyond).  Plain / and % need no proof.  The number of such sites may be zero."""
    tables = table_value_ranges(facts)
    n = 0
    for f in facts.functions:
        if not f.loc.split(':')[0].endswith('internal/itoa.h'):
            continue
        sites = []
        for bid, i, st, e in f.walk():
            if e.get('k') == 'bin' and e['op'] == '>>' and cval(e['r']) is not None and cval(e) is None:
                l = strip(e['l'])
                if l is not None and l.get('k') == 'bin' and l['op'] == '*':
                    for a, b in ((l['l'], l['r']), (l['r'], l['l'])):
                        if cval(b) is not None and cval(a) is None and strip(a) is not None and strip(a).get('k') == 'ref':
                            sites.append((bid, i, e, strip(a), cval(b), cval(e['r'])))
        if not sites:
            continue
        rep.fn(f)
        iv = intervals_for(facts, f, tables)
        for bid, i, e, v, M, S in sites:
            st = iv.at(bid, i)
            if st is None:
                continue
            r = iv.ev(v, dict(st))
            n += 1
            D = max(1, round((1 << S) / M)) if M else 0
            pow10 = D >= 10 and str(D).strip('0') == '1'
            bad = None
            if r is None or r[0] < 0 or r[1] > 2 ** 64:
                bad = 'range of %s unknown' % v.get('name')
            elif not pow10:
                bad = '2^%d / %d is not a power of ten (%.3f)' % (S, M, (1 << S) / M if M else 0)
            elif r[1] - r[0] <= 1 << 22:
                for x in range(r[0], r[1] + 1):
                    if (x * M) >> S != x // D:
                        bad = '%s = %d: (x*%d)>>%d = %d but x/%d = %d' % (v.get('name'), x, M, S, (x * M) >> S, D, x // D)
                        break
            else:
                ok, err = exact_division_theorem(M, S, D, r[1] + 1)
                if not ok:
                    bad = 'exact-division theorem fails for %s < %d (error term %s)' % (v.get('name'), r[1] + 1, err)
            rep.check(bad is None, 'E5.reciprocal', f.qn, '%s == %s / %d for %s in %s' % (show(e), v.get('name'), D, v.get('name'), r), locline(e['loc']), bad or '', facts.config)
    rep.extra['scalar_reciprocal_sites'] = n


def clause_kind_dispatch(facts, rep):
    """the serializer hands the payload of a number node to the writer of its own kind: in the switch over the node's
    number sub-type, the arm of the unsigned tag reaches only a writer whose value parameter is an unsigned 64-bit
    integer fed by an accessor returning one, the signed tag a signed 64-bit one, the real tag a double.  (A uint64
    above INT64_MAX pushed through a signed parameter prints as a negative number.)  Arms are the blocks reachable
    from a case label up to the break / goto / return that ends them, so fall-through is followed."""
    tags = {}
    for en in facts.enums:
        if en.get('qn', '').endswith('TypeFlag'):
            for c in en.get('values', []):
                tags[int(c['v'])] = c['name']
    WANT = {'kUint': ('unsigned 64-bit', lambda t: t in ('uint64_t', 'unsigned long', 'unsigned long long', 'size_t')),
            'kSint': ('signed 64-bit', lambda t: t in ('int64_t', 'long', 'long long')),
            'kReal': ('double', lambda t: t == 'double')}
    n = 0
    for f in facts.functions:
        if f.short != 'SerializeImpl':
            continue
        for b in f.d['blocks']:
            t = b.get('term')
            if not t or t['cls'] != 'SwitchStmt' or t.get('cond') is None:
                continue
            c = strip(t['cond'])
            while c is not None and c.get('k') == 'cast':
                c = strip(c['e'])
            if c is None or c.get('k') != 'call' or c.get('cname') != 'GetType':
                continue
            rep.fn(f)
            labels = [(s_, f.blocks[s_].get('case')) for s_ in b['succs'] if s_ is not None]
            reach = {}
            for s_, cv_ in labels:
                seen, work = set(), [s_]
                while work:
                    x = work.pop()
                    if x in seen or x is None:
                        continue
                    seen.add(x)
                    tx = f.blocks[x].get('term')
                    if tx and tx.get('cls') in ('BreakStmt', 'GotoStmt', 'ReturnStmt', 'ContinueStmt'):
                        continue      # the arm ends here
                    work.extend(f.blocks[x]['succs'])
                reach[s_] = seen
            common = set()
            for s_, cv_ in labels:
                if cv_ in (None, 'default'):
                    continue
                name = tags.get(int(cv_))
                if name not in WANT:
                    continue
                arm = reach[s_] - common
                writers = []
                for x in sorted(arm):
                    for st in f.blocks[x]['stmts']:
                        for e in walk(st):
                            if e.get('k') == 'call' and (e.get('cname') or '').endswith('toa') and len(e.get('args', [])) == 2:
                                g = facts.by_id.get(e.get('cid'))
                                pt = (g.params[1]['t'] if g is not None and len(g.params) == 2 else '').replace('const ', '').strip()
                                a = strip(e['args'][1])
                                while a is not None and a.get('k') == 'cast':
                                    a = strip(a['e'])
                                at = (a.get('t') or '').replace('const ', '').strip() if a is not None else ''
                                writers.append((e, pt, at))
                what, okf = WANT[name]
                n += 1
                good = len(writers) >= 1 and all(okf(pt) and okf(at) for _, pt, at in writers)
                rep.check(good, 'E9.kind-dispatch', f.qn, 'case %s: %s' % (name, ', '.join(show(w[0]) for w in writers) or 'no writer'),
                          locline(writers[0][0]['loc']) if writers else f.loc,
                          'the %s payload must go through a %s accessor into a %s writer parameter; found parameter/argument types %s'
                          % (name, what, what, [(pt, at) for _, pt, at in writers]), facts.config)
    rep.require(n >= 3, 'C08: number sub-type dispatch of the serializer: %d arms found (3 expected)' % n)


def run(rep, tier):
    # K3: the SSE entry points are separate source (arch/sse/itoa.h); value ranges at their call sites differ per back end
    configs = ['K1', 'K3'] if tier == 'quick' else ['K1', 'K3', 'K4', 'K8']
    for cfg in configs:
        facts = get_facts(cfg)
        rep.unit(facts)
        clause_a(facts, rep)
        clause_b(facts, rep)
        clause_c(facts, rep)
        clause_d(facts, rep)
        clause_e(facts, rep)
        clause_kind_dispatch(facts, rep)
        if cfg == 'K1':
            # the serializer writes the digits where the length is then taken from: no buffer address kept across a Grow (shared with C20 / C06)
            from . import c20 as _c20
            _c20.clause_stable_pointer(facts, rep, files=('sonic/dom/serialize.h', 'sonic/writebuffer.h'))
        from .. import narrowing
        try:
            narrowing.check(get_facts(facts.config, norm=True), rep, 'E3.lossless-narrowing', ('itoa.h',), min_sites=1)
        except AnalysisBroken as ex:
            rep.broken.append(str(ex))      # the remaining rules still report
    # which writer each integer kind goes to is also decided by the serializer exploration (leaves 2^64-1, 2^63, -2^63
    # included; shared with C06): the switch-shaped rule E9.kind-dispatch is corroborated by it
    try:
        from . import c06 as _c06
        _c06.clause_serializer(get_facts('K1'), rep, 'quick')
    except AnalysisBroken as ex:
        rep.broken.append(str(ex))
    rep.corroborate('E9.kind-dispatch', 'E6.serializer')
    rep.corroborate_floor('C08: number sub-type dispatch', 'E6.serializer')
    rep.trust('clang 14 front end and constant evaluator', 'Intel intrinsic lane semantics in sv/sse_interp.py',
              'exact-division theorem (Hacker\'s Delight 10-9)', 'Python big integers')
    rep.assumptions += [
        'decides table contents, exactness of the reciprocal constants on their whole domain, the vector digit splitter for every 4-digit group value, subscript ranges, split points and sign handling',
        'does not decide digit order/composition for all 2^64 values end to end (Utoa_1_8 scalar composition is covered only through subscript ranges)',
    ]
