"""C18 — Document equality is JSON value equality: clauses (a) number nodes have
canonical bytes (who-may-write the numeric payload; constructors zero the node
and set the kind; setters rebuild the node), (b) sibling constructors agree on
kind selection, (c) operator== structure: basic types first, an arm for every
TypeFlag, number arm guarded by kind equality and a whole-node comparison,
object/array arms compare sizes first, != is the negation
(DESIGN.md section 5/C18)."""
from ..core import get_facts, strip, strip_expect, cval, show, walk, locline, is_this_member, AnalysisBroken
from ..e2_dom import Must

GN = 'sonic_json::GenericNode'
DN = 'sonic_json::DNode'
NUMF = ('i64', 'u64', 'f64')


def num_store(e):
    """assignment into n.i64 / n.u64 / n.f64"""
    if e.get('k') == 'bin' and e['op'] in ('=', '+=', '-=', '|=', '&=', '^=') :
        l = strip(e['l'])
        if l is not None and l.get('k') == 'member' and l.get('name') in NUMF and 'GenericNode' in l.get('cls', ''):
            return l
    return None


def clause_a(facts, rep):
    n = 0
    seen = set()
    ctors_ok = 0
    for f in facts.functions:
        stores = [(bid, i, e) for bid, i, s, e in f.walk() if num_store(e) is not None]
        if not stores:
            continue
        key = (f.qn, f.loc)
        if key in seen:
            continue
        seen.add(key)
        rep.fn(f)
        is_ctor = bool(f.d.get('ctor')) and f.cls_qn == GN
        rep.check(is_ctor, 'E7.number-writer', f.qn, 'writes the numeric payload (%s)' % ', '.join(sorted(set(num_store(e)['name'] for _, _, e in stores))), f.loc,
                  'n.i64/u64/f64 may be written only by GenericNode constructors: operator== compares the 16 node bytes', facts.config)
        if not is_ctor:
            continue
        # the constructor zero-initialises the node (default member initialiser of the union) before the store
        # and sets a type on every path
        def gen_stmt(s):
            out = []
            s_ = strip(s)
            if s_.get('k') == 'init' and s_.get('field') == 'data':
                ini = strip(s_.get('e'))
                if ini is not None and (ini.get('k') in ('zeroinit', 'initlist')):
                    out.append('zeroed')
            for e in walk(s):
                if e.get('k') == 'call' and (e.get('cname') == 'setType' or _sets_type(facts, e)):
                    out.append('typed')      # directly or through a helper of the class that sets the type on all its paths
            return out
        M = Must(f, gen_stmt=gen_stmt)
        for bid, i, e in stores:
            st = M.at(bid, i)
            if st is None:
                continue
            n += 1
            rep.check('zeroed' in st, 'E2.number-canonical', f.qn, show(e), locline(e['loc']),
                      'the node bytes must be zeroed (Data data = {}) before the payload is stored: padding takes part in memcmp', facts.config)
        ex = M.IN.get(f.exit)
        rep.check(ex is not None and 'typed' in ex, 'E2.number-canonical', f.qn, 'setType on every path', f.loc, 'a number node must carry its kind', facts.config)
        ctors_ok += 1
    rep.require(ctors_ok >= 5, 'C18.a: only %d numeric constructors found' % ctors_ok)
    # numeric setters rebuild the node through a constructor after destroy()
    m = 0
    seen = set()
    for f in facts.functions:
        if f.cls_qn != DN or f.short not in ('setIntImpl', 'setUintImpl', 'setInt64Impl', 'setUint64Impl', 'setDoubleImpl'):
            continue
        if f.short in seen and 'SAlloc' not in f.name:
            continue
        seen.add(f.short)
        rep.fn(f)
        M = Must(f, gen_stmt=lambda s: ['destroyed'] if any(e.get('k') == 'call' and e.get('cname') == 'destroy' for e in walk(s)) else [])
        ok = False
        for bid, i, s, e in f.walk():
            if e.get('k') == 'new' and e.get('placement') and strip(e['placement'][0]).get('k') == 'this':
                st = M.at(bid, i)
                ini = strip(e.get('init'))
                arg_is_param = ini is not None and ini.get('k') == 'ctor' and ini.get('args') and strip(ini['args'][0]).get('dk') == 'param'
                ok = st is not None and 'destroyed' in st and arg_is_param
                m += 1
                rep.check(ok, 'E2.number-setter', f.qn, show(e)[:70], locline(e['loc']),
                          'a numeric setter must destroy() and then construct a fresh node from its argument', facts.config)
    rep.require(m >= 5, 'C18.a: numeric setters found: %d' % m)


def _sets_type(facts, call, depth=0):
    """the callee (a method on the same object) calls setType on every path to its exit"""
    g = facts.by_id.get(call.get('cid'))
    ob = strip(call.get('obj')) if call.get('obj') is not None else None
    if g is None or not g.blocks or depth > 2 or (ob is not None and ob.get('k') != 'this'):
        return False
    Mg = Must(g, gen_stmt=lambda s_: ['typed'] if any(x.get('k') == 'call' and (x.get('cname') == 'setType' or _sets_type(facts, x, depth + 1)) for x in walk(s_)) else [])
    ex = Mg.IN.get(g.exit)
    return ex is not None and 'typed' in ex


def run_ctor(f, val):
    """evaluate a numeric constructor for a concrete argument (sv/minterp.py; helpers of the class are interpreted):
    returns (type set last, field stored)"""
    from ..minterp import Interp, Unsupported, UndefinedBehaviour
    got = {'typ': None, 'field': None}

    def hook(e, args, env, members):
        if e.get('k') == 'call' and e.get('cname') == 'setType' and args:
            got['typ'] = args[-1]
            return 0
        return None
    try:
        it = Interp(f, f.facts, call_hook=hook, max_steps=2000)
        r = it.run({f.params[0]['id']: val}, {})
        for k_ in r[2]:
            for nf in NUMF:
                if k_ == nf or k_.endswith('.' + nf):
                    got['field'] = nf
        return got['typ'], got['field']
    except (Unsupported, UndefinedBehaviour) as ex:
        raise KeyError(str(ex))


def _run_ctor_small(f, val):
    """evaluate a numeric constructor for a concrete argument: returns (type set, field stored)"""
    pid = f.params[0]['id']
    typ = None
    field = None
    b = f.entry
    enums = f.facts.enum_values()

    def ev(e):
        c = cval(e)
        e_ = strip(e)
        if c is not None and e_.get('k') != 'ref':
            return c
        if e_.get('k') == 'ref':
            if e_['id'] == pid:
                return val
            if c is not None:
                return c
        if e_.get('k') == 'bin':
            l, r = ev(e_['l']), ev(e_['r'])
            return {'>=': int(l >= r), '<': int(l < r), '>': int(l > r), '<=': int(l <= r), '==': int(l == r), '!=': int(l != r)}[e_['op']]
        raise KeyError(show(e_))
    for _ in range(50):
        B = f.blocks[b]
        for s in B['stmts']:
            s_ = strip(s)
            if s_.get('k') == 'call' and s_.get('cname') == 'setType':
                typ = cval(s_['args'][0])
            st = num_store(s_)
            if st is not None:
                field = st['name']
        t = B.get('term')
        succs = [x for x in B['succs']]
        if t and t.get('cond') is not None and len(succs) == 2:
            b = succs[0] if ev(t['cond']) else succs[1]
        else:
            live = [x for x in succs if x is not None]
            if not live:
                break
            b = live[0]
        if b == f.exit:
            break
    return typ, field


def clause_b(facts, rep):
    en = facts.enum_values()
    want = {
        'int': lambda v: en['kUint'] if v >= 0 else en['kSint'],
        'int64_t': lambda v: en['kUint'] if v >= 0 else en['kSint'],
        'long': lambda v: en['kUint'] if v >= 0 else en['kSint'],
        'unsigned int': lambda v: en['kUint'], 'uint64_t': lambda v: en['kUint'], 'unsigned long': lambda v: en['kUint'],
        'double': lambda v: en['kReal'], 'float': lambda v: en['kReal'],
    }
    n = 0
    seen = set()
    for f in facts.functions:
        if not f.d.get('ctor') or f.cls_qn != GN or len(f.params) != 1:
            continue
        t = f.params[0]['t']
        if t not in want or t in seen:
            continue
        seen.add(t)
        rep.fn(f)
        vals = [-(2 ** 31), -7, -1, 0, 1, 7, 2 ** 31 - 1] if t in ('int', 'int64_t', 'long') else [0, 1, 7]
        bad = []
        try:
            for v in vals:
                typ, field = run_ctor(f, v)
                if typ != want[t](v):
                    bad.append((v, typ, want[t](v)))
        except KeyError as ex:
            raise AnalysisBroken('C18.b: constructor GenericNode(%s) not evaluable: %s' % (t, ex))
        n += 1
        rep.check(not bad, 'E9.kind-selection', f.qn, 'GenericNode(%s) selects the kind of its value (non-negative -> kUint, negative -> kSint, floating -> kReal)' % t, f.loc,
                  'mismatches (value, got, want): %s' % bad[:3], facts.config)
    rep.require(n >= 5, 'C18.b: numeric constructors evaluated: %d' % n)


def clause_c(facts, rep):
    en = {}
    for e in facts.enums:
        if e['qn'] == 'sonic_json::TypeFlag':
            en = {v['name']: int(v['v']) for v in e['values']}
    allv = set(en.values())
    n = 0
    seen = set()
    for f in facts.functions:
        if f.cls_qn != DN or f.short != 'operator==' or len(f.params) != 1 or 'DNode' not in f.params[0]['t']:
            continue
        sig = tuple(f.d.get('targs', []))
        rep.fn(f)
        n += 1
        first_only = f.loc in seen
        seen.add(f.loc)
        # (1) basic types compared before the switch
        sw = [b for b in f.blocks.values() if b.get('term') and b['term']['cls'] == 'SwitchStmt']
        rep.require(len(sw) == 1, 'C18.c: %s: expected one kind switch' % f.name)
        if len(sw) != 1:
            continue

        def gen_edge(b, cond, sense):
            c = strip_expect(cond)
            if c is not None and c.get('k') == 'bin' and c['op'] in ('!=', '=='):
                calls = sorted(x.get('cname') for x in walk(c) if x.get('k') == 'call')
                eq = (c['op'] == '==') == sense
                if calls == ['getBasicType', 'getBasicType'] and eq:
                    return ['basicEq']
                if calls == ['GetType', 'GetType'] and eq:
                    return ['typeEq']
                if calls == ['Size', 'Size'] and eq:
                    return ['sizeEq']
            return []
        M = Must(f, gen_edge=gen_edge)
        st = M.at(sw[0]['id'], 'cond')
        rep.check(st is not None and 'basicEq' in st, 'E2.eq-structure', f.qn, 'the kind switch is dominated by equality of the basic types', locline(sw[0]['term']['loc']),
                  'nodes of different basic type are never equal', facts.config)
        # (2) arms: every TypeFlag value is covered by a case (or by default returning type equality)
        cases = {}
        dflt = None
        for sx in sw[0]['succs']:
            if sx is None:
                continue
            cs = f.blocks[sx].get('case')
            if cs == 'default':
                dflt = sx
            elif cs is not None:
                cases[int(cs)] = sx
        need = {v for k, v in en.items() if k in ('kObject', 'kArray', 'kStringCopy', 'kStringFree', 'kStringConst', 'kReal', 'kSint', 'kUint')}
        rep.check(need <= set(cases), 'E2.eq-structure', f.qn, 'arms for object, array, the three string kinds and the three number kinds', locline(sw[0]['term']['loc']),
                  'missing: %s' % sorted(need - set(cases)), facts.config)
        # (3) number arms: a true result requires kind equality and compares the whole node
        num_blocks = set()
        for k in ('kReal', 'kSint', 'kUint'):
            if en[k] in cases:
                num_blocks.add(cases[en[k]])
        reach = set()
        work = list(num_blocks)
        while work:
            x = work.pop()
            if x in reach:
                continue
            reach.add(x)
            for sx in f.blocks[x]['succs']:
                if sx is not None and f.blocks[sx].get('case') is None:
                    work.append(sx)
                elif sx is not None and sx in num_blocks:
                    work.append(sx)
        checked = 0
        for x in reach:
            for i, s in enumerate(f.blocks[x]['stmts']):
                s_ = strip(s)
                if s_.get('k') == 'ret':
                    c = cval(s_['e'])
                    if c == 0:
                        continue
                    stt = M.at(x, i)
                    if stt is None:
                        continue
                    checked += 1
                    rep.check('typeEq' in stt, 'E2.eq-number', f.qn, show(s_)[:70], locline(s_['loc']),
                              'numbers are equal only if their kinds (uint / sint / real) are equal: the return must be dominated by GetType() equality', facts.config)
                    mc = [e for e in walk(s_) if e.get('k') == 'call' and e.get('cname') == 'memcmp']
                    whole = bool(mc) and cval(mc[0]['args'][2]) == 16
                    rep.check(whole, 'E2.eq-number', f.qn, 'whole-node comparison in %s' % show(s_)[:50], locline(s_['loc']),
                              'the value comparison must cover the full 16-byte node (bit-exact for doubles, no kind confusion for integers)', facts.config)
        rep.require(checked >= 1, 'C18.c: %s: number arm return not found' % f.name)
        # (4) object / array arms: sizes compared before iterating
        for k in ('kObject', 'kArray'):
            if en[k] not in cases:
                continue
            blk = cases[en[k]]
            # first loop head reachable from the arm must be dominated by sizeEq
            reach2 = set()
            work = [blk]
            found = False
            while work:
                x = work.pop()
                if x in reach2:
                    continue
                reach2.add(x)
                t = f.blocks[x].get('term')
                if t and t['cls'] in ('ForStmt', 'WhileStmt', 'CXXForRangeStmt'):
                    stt = M.at(x, 'cond')
                    found = True
                    rep.check(stt is not None and 'sizeEq' in stt, 'E2.eq-structure', f.qn, '%s arm compares sizes before comparing children' % k, locline(t['loc']),
                              'containers of different size are never equal (and the pairwise / lookup loop relies on it)', facts.config)
                    continue
                for sx in f.blocks[x]['succs']:
                    if sx is not None and (f.blocks[sx].get('case') is None):
                        work.append(sx)
            rep.require(found, 'C18.c: %s: loop of the %s arm not found' % (f.name, k))
        # (5) string arms compare GetStringView() of both
        sb = cases.get(en['kStringCopy'])
        if sb is not None:
            ok = False
            x = sb
            for _ in range(4):
                for s in f.blocks[x]['stmts']:
                    s_ = strip(s)
                    if s_.get('k') == 'ret':
                        calls = [e.get('cname') for e in walk(s_) if e.get('k') == 'call']
                        ok = calls.count('GetStringView') == 2
                nxt = [sx for sx in f.blocks[x]['succs'] if sx is not None]
                if not nxt:
                    break
                x = nxt[0]
            rep.check(ok, 'E2.eq-structure', f.qn, 'all string kinds compare GetStringView() of both sides', f.loc, 'string ownership kind must not matter', facts.config)
    rep.require(n >= 2, 'C18.c: operator== instantiations: %d' % n)
    # operator!= is the negation
    m = 0
    for f in facts.functions:
        if f.cls_qn == DN and f.short == 'operator!=' and len(f.params) == 1 and 'DNode' in f.params[0]['t']:
            rets = [strip(s) for _, _, s in f.stmts() if strip(s).get('k') == 'ret']
            ok = len(rets) == 1 and strip(rets[0]['e']).get('k') == 'un' and strip(rets[0]['e'])['op'] == '!' and \
                any(e.get('k') == 'call' and e.get('cname') == 'operator==' for e in walk(rets[0]))
            m += 1
            rep.check(ok, 'E2.eq-structure', f.qn, 'operator!= returns !(*this == rhs)', f.loc, '', facts.config)
    rep.require(m >= 1, 'C18.c: operator!= not found')


def clause_eq_model(facts, rep, tier):
    """DNode::operator== decided against JSON value equality by exhaustive exploration (sv/eq_model.py): its CFG is
    interpreted for every ordered pair of trees of a universe made of all leaf kinds (numbers of the three kinds,
    strings with each storage flag, booleans, null), all arrays of <= 2 and all objects of <= 2 members (both key
    orders) over them, and a second level of containers over representative first-level trees (permuted nested
    objects included).  Reading a member / element at or behind the end of its block is undefined behaviour in the
    model."""
    from .. import eq_model as em
    from ..eq_model import N
    from ..minterp import Unsupported, UndefinedBehaviour
    import itertools
    tags = {}
    for en in facts.enums:
        if en.get('qn', '').endswith('TypeFlag'):
            for c in en.get('values', []):
                tags[c['name']] = int(c['v'])
        if en.get('qn', '').endswith('TypeInfo'):
            for c in en.get('values', []):
                if c['name'] == 'kBasicTypeMask':
                    tags['kBasicTypeMaskValue'] = int(c['v'])
    fns = [f for f in facts.functions if f.short == 'operator==' and (f.cls_qn or '').startswith('sonic_json::DNode') and len(f.params) == 1
           and 'DNode' in f.params[0]['t']]
    rep.require(len(fns) >= 1 and 'kObject' in tags, 'C18: DNode::operator== / TypeFlag not found')
    U = lambda v: (lambda: N('uint', v))
    S = lambda v, fl='copy': (lambda: N('str', v, None, fl))
    leaves = [U(1), U(2), lambda: N('sint', -1), lambda: N('real', '1.0'), S('a'), S('a', 'const'), S('b', 'free'), lambda: N('null'), lambda: N('true'), lambda: N('false')]
    small = [U(1), U(2), S('a'), lambda: N('null')] if tier == 'quick' else leaves[:7]

    def containers(items, maxk=2):
        out = []
        for k in range(0, maxk + 1):
            for combo in itertools.product(items, repeat=k):
                out.append(lambda combo=combo: N('arr', None, [c() for c in combo]))
                for keys in itertools.permutations(['a', 'b', 'c'][:max(k, 2)], k):
                    out.append(lambda combo=combo, keys=keys: N('obj', None, [x for kk, c in zip(keys, combo) for x in (N('str', kk), c())]))
        return out
    level1 = containers(small)
    reps = [lambda: N('arr'), lambda: N('obj'), lambda: N('arr', None, [N('uint', 1)]), lambda: N('obj', None, [N('str', 'a'), N('uint', 1)]),
            lambda: N('obj', None, [N('str', 'a'), N('uint', 1), N('str', 'b'), N('uint', 2)]),
            lambda: N('obj', None, [N('str', 'b'), N('uint', 2), N('str', 'a'), N('uint', 1)]), U(1)]
    level2 = containers(reps)
    # three members in every order against each other: the lookup must not depend on position
    three = [lambda p=p: N('obj', None, [x for kk in p for x in (N('str', kk), N('uint', ord(kk)))]) for p in itertools.permutations('abc')]
    three += [lambda p=p: N('obj', None, [x for kk in p for x in (N('str', kk), N('uint', 7))]) for p in itertools.permutations('abd')]
    groups = [('leaves', leaves + level1[:40]), ('containers of <= 2 over leaves', level1), ('nested containers', level2), ('three members, every order', three)]
    for f in (fns if tier == 'thorough' else fns[:1]):
        rep.fn(f)
        E = em.Eq(f, None, facts, tags)
        bad = None
        n = 0
        try:
            for gname, univ in groups:
                for a in univ:
                    for b in univ:
                        x, y = a(), b()
                        try:
                            r = E.run(f, x, y)
                        except UndefinedBehaviour as ex:
                            bad = '%s == %s: %s' % (x, y, ex)
                            break
                        n += 1
                        if bool(r) != em.json_eq(x, y):
                            bad = '(%s == %s) = %s, JSON value equality says %s' % (x, y, bool(r), em.json_eq(x, y))
                            break
                    if bad:
                        break
                if bad:
                    break
        except Unsupported as ex:
            raise AnalysisBroken('C18: operator== cannot be interpreted: %s' % ex)
        rep.extra['equality_pairs_explored'] = rep.extra.get('equality_pairs_explored', 0) + n
        rep.check(bad is None, 'E6.equality', f.qn, 'operator== equals JSON value equality on %d ordered pairs of trees (%d interpreted comparisons incl. nested)' % (n, E.calls),
                  f.loc, bad or '', facts.config)


def run(rep, tier):
    configs = ['K1'] if tier == 'quick' else ['K1', 'K3', 'K7']
    for cfg in configs:
        facts = get_facts(cfg)
        rep.unit(facts)
        clause_a(facts, rep)
        clause_b(facts, rep)
        clause_c(facts, rep)
        clause_eq_model(facts, rep, tier)
        # operator== looks members up in the other operand: equality is independent of a lookup map only if the map
        # is kept faithful by every mutator (shared with C12 clause b) and ordered consistently (shared with C14)
        from . import c12, c14
        for tag in ('', 'SAlloc'):
            c12.clause_b(facts, rep, tag)
        if cfg == 'K1':
            c14.clause_e(facts, rep, ('::avx2::',))
            c14.clause_c(facts, rep)       # comparator shape: min(n1, n2) bytes, then the length tie-break
    # equality looks members up with FindMember: the lookup (linear and through the map) finds exactly the members that are
    # there after any mutation history - the bounded exploration of the container API (shared with C12)
    from . import c12 as _c12
    try:
        _c12.clause_model(get_facts('K1'), rep, tier, kinds=('free',))
    except AnalysisBroken as ex:
        rep.broken.append(str(ex))
    rep.trust('clang 14 front end')
    rep.assumptions += [
        'decides who may write the numeric payload, zero-initialisation and kind of number nodes, kind selection of sibling constructors, and the structure of operator== (basic type first, kind equality + whole-node comparison for numbers, sizes before children, string views, != as negation)',
        'plus the map-maintenance pairing of the mutators and the comparator order that member lookup through a map relies on (shared with C12/C14)',
        'does NOT decide reflexivity / symmetry / transitivity over all documents',
    ]
