"""C06 — Serialize output is valid JSON that parses back equal: clauses (a) every
unchecked write lies inside reserved space (E4 write-budget dataflow), (b) error
propagation (non-finite double, unsupported type, non-string key, Dump),
(c) ToString grows before writing the terminator (DESIGN.md section 5/C06)."""
from ..core import get_facts, strip, strip_expect, cval, show, walk, locline, is_this_member, AnalysisBroken
from ..e2_dom import Must, linear
from ..e3_interval import intervals_for, table_value_ranges, INF

WB = 'sonic_json::WriteBuffer'
NS = 'sonic_json::internal::'

# write contracts of the callees that write at wb.End(): (returned length upper bound, touched extent upper bound)
# as functions of the length argument n (linear: (coef, const)). Justification / cross reference in one line each.
WRITER_CONTRACT = {
    'Quote': dict(len_arg=1, ret=(6, 2), touch=(6, 27), why='C09: <= 6 bytes per input byte + 2 quotes; widest transient write is a 32-byte vector store at offset <= 1+6(n-1)'),
    'U64toa': dict(len_arg=None, ret=(0, 20), touch=(0, 24), why='C08: at most 20 digits; Utoa_8/16 store a full 16-byte vector at an offset <= 8'),
    'I64toa': dict(len_arg=None, ret=(0, 20), touch=(0, 25), why="C08: '-' plus at most 19 digits; one byte more than U64toa touched"),
    'F64toa': dict(len_arg=None, ret=(0, 32), touch=(0, 32), why='C07(f): closed-form maximum 25 <= 32; formatters write inside the returned length + 2'),
}


class Budget:
    """lower bound a*s + b of the free space behind top_ (s = current string length symbol, s >= 0)"""

    def __init__(self, f, facts, rep, wb_id):
        self.f, self.facts, self.rep, self.wb = f, facts, rep, wb_id
        self.iv = intervals_for(facts, f, table_value_ranges(facts), depth=0)
        self.sites = 0
        self.prune = infeasible_default_edges(f, facts)

    def is_wb(self, e):
        o = strip(e.get('obj')) if e.get('obj') is not None else None
        return o is not None and o.get('k') == 'ref' and o.get('id') == self.wb

    def lin(self, e, env, bid, i, upper):
        """linear bound (coef of s, const) of expression e: lower bound if not upper else upper bound"""
        c = cval(e)
        if c is not None:
            return (0, c)
        e_ = strip(e)
        if e_.get('k') == 'ref':
            if e_['id'] in env['lin']:
                return env['lin'][e_['id']]
            if e_['id'] == env.get('sym'):
                return (1, 0)
            if upper and e_['id'] in env['ub']:
                return env['ub'][e_['id']]
        if e_.get('k') == 'bin' and e_['op'] in ('+', '-', '*'):
            l = self.lin(e_['l'], env, bid, i, upper)
            r = self.lin(e_['r'], env, bid, i, upper if e_['op'] != '-' else not upper)
            if l is not None and r is not None:
                if e_['op'] == '+':
                    return (l[0] + r[0], l[1] + r[1])
                if e_['op'] == '-' and r[0] == 0 and l[0] == 0:
                    return (0, l[1] - r[1])
                if e_['op'] == '*':
                    if l[0] == 0 and l[1] >= 0:
                        return (r[0] * l[1], r[1] * l[1])
                    if r[0] == 0 and r[1] >= 0:
                        return (l[0] * r[1], l[1] * r[1])
        st = self.iv.at(bid, i)
        if st is not None:
            r = self.iv.ev(e, dict(st))
            v = r[1] if upper else r[0]
            if v not in (INF, -INF):
                return (0, v)
        return None

    def run(self):
        f, rep = self.f, self.rep
        IN = {f.entry: dict(B=(0, 0), lin={}, ub={}, sym=None)}
        visits = {}
        work = [f.entry]
        reported = set()
        while work:
            b = work.pop()
            visits[b] = visits.get(b, 0) + 1
            if visits[b] > 400:
                raise AnalysisBroken('C06: budget analysis does not converge')
            env = dict(B=IN[b]['B'], lin=dict(IN[b]['lin']), ub=dict(IN[b]['ub']), sym=IN[b]['sym'])
            B = f.blocks[b]
            items = [(i, s) for i, s in enumerate(B['stmts'])]
            t = B.get('term')
            if t and t.get('cond') is not None:
                items.append(('cond', t['cond']))
            for i, s in items:
                self.exec(s, env, b, i, reported)
            for sx in B['succs']:
                if sx is None or (b, sx) in self.prune:
                    continue
                if sx in IN:
                    old = IN[sx]
                    nb = None
                    if old['B'] is not None and env['B'] is not None:
                        nb = (min(old['B'][0], env['B'][0]), min(old['B'][1], env['B'][1]))
                        if old['sym'] != env['sym']:
                            nb = (min(0, nb[0]), nb[1])
                        if visits.get(sx, 0) > 10 and nb != old['B']:
                            # widening: a bound that keeps shrinking around a cycle has no finite lower bound
                            nb = (nb[0] if nb[0] == old['B'][0] else -10**9, nb[1] if nb[1] == old['B'][1] else -10**18)
                    nl = {k: v for k, v in old['lin'].items() if env['lin'].get(k) == v}
                    nu = {k: (max(v[0], env['ub'][k][0]), max(v[1], env['ub'][k][1])) for k, v in old['ub'].items() if k in env['ub']}
                    ns = old['sym'] if old['sym'] == env['sym'] else None
                    new = dict(B=nb, lin=nl, ub=nu, sym=ns)
                    if new == old:
                        continue
                    IN[sx] = new
                else:
                    IN[sx] = dict(B=env['B'], lin=dict(env['lin']), ub=dict(env['ub']), sym=env['sym'])
                if sx not in work:
                    work.append(sx)
        return self.sites

    def need(self, env, amt, what, e, reported):
        """obligation: B >= amt"""
        if env.get('poison'):
            return          # behind a length with no derivable bound (reported there): nothing more can be said until the next Grow
        key = (what, locline(e['loc']))
        Bv = env['B']
        ok = Bv is not None and amt is not None and Bv[0] >= amt[0] and Bv[1] >= amt[1]
        if key not in reported or not ok:
            if key not in reported:
                self.sites += 1
            reported.add(key)
            self.rep.check(ok, 'E4.budget', self.f.qn, what, locline(e['loc']),
                           'needs %s bytes, reserved since the last Grow: %s' % (fmt(amt), fmt(Bv)), self.facts.config)

    def consume(self, env, amt):
        if env['B'] is None or amt is None:
            env['B'] = None
        else:
            env['B'] = (env['B'][0] - amt[0], env['B'][1] - amt[1])

    def exec(self, s, env, bid, i, reported):
        s_ = strip(s)
        if s_ is None:
            return
        # calls in evaluation order: arguments before the call (post-order)
        for e in post_calls(s_):
            n = e.get('cname')
            if self.is_wb(e):
                args = e.get('args', [])
                if n == 'Clear':
                    if env['B'] is not None:
                        env['B'] = (max(env['B'][0], 0), max(env['B'][1], 0))
                    else:
                        env['B'] = (0, 0)
                    env['cleared'] = True
                elif n == 'Reserve':
                    lb = self.lin(args[0], env, bid, i, False)
                    if env.get('cleared') and lb is not None:
                        env['B'] = lb if env['B'] is None else (max(env['B'][0], lb[0]), max(env['B'][1], lb[1]))
                elif n == 'Grow':
                    lb = self.lin(args[0], env, bid, i, False)
                    env['poison'] = False
                    if lb is not None:
                        if env['B'] is None:
                            env['B'] = lb
                        else:
                            # max of two linear forms: keep the one that is larger in both coordinates, else the new one (exact post-condition of Grow)
                            env['B'] = lb if (lb[0] >= env['B'][0] or lb[1] >= env['B'][1]) and not (env['B'][0] >= lb[0] and env['B'][1] >= lb[1]) else env['B']
                elif n == 'PushUnsafe':
                    env['cleared'] = False
                    if len(args) == 1:
                        w = {'char': 1, 'unsigned char': 1, 'uint8_t': 1}.get(args[0].get('t', '').replace('const ', ''), None)
                        if w is None:
                            raise AnalysisBroken('C06: PushUnsafe of type %s not modelled' % args[0].get('t'))
                        amt = (0, w)
                    else:
                        amt = self.lin(args[1], env, bid, i, True)
                    self.need(env, amt, show(e)[:70], e, reported)
                    self.consume(env, amt)
                elif n == 'PushSizeUnsafe':
                    env['cleared'] = False
                    amt = self.lin(args[0], env, bid, i, True)
                    self.need(env, amt, show(e)[:70], e, reported)
                    if amt is None or amt[1] >= (1 << 32):
                        env['poison'] = True      # no bound for this length on this path: reported above, not propagated
                        env['B'] = None
                    else:
                        self.consume(env, amt)
                elif n == 'Push5_8':
                    env['cleared'] = False
                    ub = self.lin(args[1], env, bid, i, True)
                    if env['B'] is None or env['B'][1] < 8:
                        env['B'] = (env['B'][0] if env['B'] else 0, 8)
                    self.need(env, ub, show(e)[:70], e, reported)
                    self.consume(env, ub)
                elif n == 'Pop':
                    lb = self.lin(args[0], env, bid, i, False)
                    if env['B'] is not None and lb is not None:
                        env['B'] = (env['B'][0], env['B'][1] + lb[1])
                elif n in ('Push', 'PushSize'):
                    env['B'] = (0, 0) if env['B'] is None else (min(env['B'][0], 0), 0)
                elif n in ('End', 'Begin', 'Size', 'Capacity', 'Empty', 'Top'):
                    pass
                else:
                    raise AnalysisBroken('C06: WriteBuffer::%s not modelled' % n)
            elif n in WRITER_CONTRACT and any(self.is_wb(x) and x.get('cname') == 'End' for a in e.get('args', []) for x in walk(a)):
                c = WRITER_CONTRACT[n]
                if c['len_arg'] is not None:
                    ln = self.lin(e['args'][c['len_arg']], env, bid, i, True)
                    if ln is None:
                        raise AnalysisBroken('C06: length argument of %s not linear' % n)
                    touch = (c['touch'][0] * ln[0] if ln[0] else c['touch'][0] * 0 + c['touch'][0] * ln[0], c['touch'][1])
                    # touch = coef*n + const with n = ln (itself linear in s): coef*(a s + b) + const
                    touch = (c['touch'][0] * ln[0], c['touch'][0] * ln[1] + c['touch'][1])
                    ret = (c['ret'][0] * ln[0], c['ret'][0] * ln[1] + c['ret'][1])
                else:
                    touch, ret = c['touch'], c['ret']
                self.need(env, touch, '%s writes at wb.End()' % n, e, reported)
                e['_ret_ub'] = ret
        # assignments that define tracked locals
        for e in walk(s_):
            if e.get('k') == 'bin' and e['op'] == '=' and strip(e['l']).get('k') == 'ref' and strip(e['l']).get('dk') == 'local':
                vid = strip(e['l'])['id']
                name = strip(e['l'])['name']
                # new string length symbol?
                rhs = strip_expect(e['r'])
                if rhs is not None and rhs.get('k') == 'call' and rhs.get('cname') in ('Size', 'size', 'length'):
                    # the string-length symbol by role: the local that receives the node's Size()
                    # forms mentioning the old symbol die
                    env['lin'] = {k: v for k, v in env['lin'].items() if v[0] == 0}
                    env['ub'] = {k: v for k, v in env['ub'].items() if v[0] == 0}
                    if env['B'] is not None:
                        env['B'] = (0, env['B'][1])
                    env['sym'] = vid
                    continue
                env['lin'].pop(vid, None)
                env['ub'].pop(vid, None)
                ret_ub = None
                for x in walk(e['r']):
                    if x.get('k') == 'call' and '_ret_ub' in x:
                        ret_ub = x['_ret_ub']
                if ret_ub is not None:
                    env['ub'][vid] = ret_ub
                    continue
                lf = self.lin(e['r'], env, bid, i, False)
                lu = self.lin(e['r'], env, bid, i, True)
                if lf is not None and lf == lu and lf[0] != 0:
                    env['lin'][vid] = lf


def infeasible_default_edges(f, facts):
    """default arms of switches over node->GetType() whose cases cover every TypeFlag enumerator of one
    basic type: unreachable under the node type invariant (every type byte is a TypeFlag enumerator;
    C03(b) / C18(a))"""
    enums = {}
    for en in facts.enums:
        if en['qn'] == 'sonic_json::TypeFlag':
            enums = {v['name']: int(v['v']) for v in en['values']}
    out = set()
    for b in f.blocks.values():
        t = b.get('term')
        if not t or t['cls'] != 'SwitchStmt' or t.get('cond') is None:
            continue
        if not any(x.get('k') == 'call' and x.get('cname') == 'GetType' for x in walk(t['cond'])):
            continue
        cases = set()
        dflt = None
        for sx in b['succs']:
            if sx is None:
                continue
            cs = f.blocks[sx].get('case')
            if cs == 'default':
                dflt = sx
            elif cs is not None:
                cases.add(int(cs))
        basics = set(v & 7 for v in cases)
        if dflt is not None and len(basics) == 1:
            allsub = set(v for v in enums.values() if (v & 7) in basics)
            if cases == allsub:
                out.add((b['id'], dflt))
    return out


def post_calls(e):
    out = []

    def rec(x):
        if isinstance(x, dict):
            for k, v in x.items():
                if k in ('t', 'loc', 'sloc', 'cv'):
                    continue
                if isinstance(v, (dict, list)):
                    rec(v)
            if x.get('k') == 'call':
                out.append(x)
        elif isinstance(x, list):
            for v in x:
                rec(v)
    rec(e)
    return out


def fmt(a):
    if a is None:
        return 'unknown'
    if a[0]:
        return '%d*len%+d' % (a[0], a[1])
    return '%d' % a[1]


def clause_a(facts, rep):
    fs = [f for f in facts.functions if f.qn == NS + 'SerializeImpl']
    rep.require(len(fs) >= 1, 'C06.a: SerializeImpl not found')
    for f in fs:
        rep.fn(f)
        wb = [p for p in f.params if 'WriteBuffer' in p['t']]
        rep.require(len(wb) == 1, 'C06.a: WriteBuffer parameter not bound')
        if not wb:
            continue
        n = Budget(f, facts, rep, wb[0]['id']).run()
        rep.require(n >= 12, 'C06.a: only %d unchecked-write sites analysed in %s' % (n, f.name))


def clause_b(facts, rep):
    errs = facts.enum_values()
    for f in [f for f in facts.functions if f.qn == NS + 'SerializeImpl']:
        # F64toa result: the push of rn is dominated by rn > 0, and rn <= 0 reaches a non-zero error return.
        # `rn` by role: the local(s) that receive a length computed from the return value of F64toa
        rn_ids = set()
        for _b, _i, _s, e_ in f.walk():
            if e_.get('k') == 'bin' and e_['op'] == '=' and strip(e_['l']) is not None and strip(e_['l']).get('k') == 'ref' and \
                    any(x.get('k') == 'call' and x.get('cname') == 'F64toa' for x in walk(e_['r'])):
                rn_ids.add(strip(e_['l'])['id'])
            if e_.get('k') == 'decl':
                for vd in e_.get('vars', []):
                    if vd.get('init') is not None and any(x.get('k') == 'call' and x.get('cname') == 'F64toa' for x in walk(vd['init'])):
                        rn_ids.add(vd['id'])
        rep.require(rn_ids, 'C06.b: the variable receiving the F64toa length not bound')

        def gen_edge(b, cond, sense):
            c = strip_expect(cond)
            if c is not None and c.get('k') == 'bin' and c['op'] in ('<=', '<', '>', '>=') and strip(c['l']).get('k') == 'ref' and strip(c['l']).get('id') in rn_ids:
                v = cval(c['r'])
                pos = (c['op'] == '<=' and v == 0 and not sense) or (c['op'] == '<' and v == 1 and not sense) or \
                      (c['op'] == '>' and v == 0 and sense) or (c['op'] == '>=' and v == 1 and sense)
                if pos:
                    return ['rnpos']
            return []

        def gen_stmt(s):
            for e in walk(s):
                if e.get('k') == 'call' and e.get('cname') in ('I64toa', 'U64toa', 'Quote'):
                    return ['rnpos']     # these writers cannot fail
            return []

        def kill_stmt(s):
            for e in walk(s):
                if e.get('k') == 'call' and e.get('cname') == 'F64toa':
                    return ['rnpos']
            return []
        M = Must(f, gen_edge=gen_edge, gen_stmt=gen_stmt, kill_stmt=kill_stmt, prune=infeasible_default_edges(f, facts))
        n = 0
        for bid, i, s, e in f.walk():
            if e.get('k') == 'call' and e.get('cname') == 'PushSizeUnsafe':
                a = strip(e['args'][0])
                if a.get('k') == 'ref' and a.get('id') in rn_ids:
                    st = M.at(bid, i)
                    if st is None:
                        continue
                    n += 1
                    rep.check('rnpos' in st, 'E1.inf-err', f.qn, show(e), locline(e['loc']),
                              'a non-positive F64toa result (Inf/NaN) must never be pushed as a length', facts.config)
        rep.require(n >= 1, 'C06.b: push of the number length not found')
        # every return value: literal error enumerators; success only as kErrorNone
        rets = {}
        for bid, i, s in f.stmts():
            s_ = strip(s)
            if s_.get('k') == 'ret':
                rets[locline(s_['loc'])] = cval(s_['e'])
        names = {v: k for k, v in errs.items() if k.startswith('kSerError') or k == 'kErrorNone'}
        want = {'kSerErrorUnsupportedType', 'kSerErrorInfinity', 'kSerErrorInvalidObjKey', 'kErrorNone'}
        got = set(names.get(v) for v in rets.values())
        rep.check(want <= got, 'E1.error-exits', f.qn, 'error exits %s' % sorted(x for x in got if x), f.loc,
                  'the three serializer error classes and success must each have an exit', facts.config)
        # the default arm of the kind switch reaches a non-zero return; the member-count tests reach key_err
        for b in f.blocks.values():
            t = b.get('term')
            if t and t['cls'] == 'SwitchStmt' and any(x.get('cname') == 'getBasicType' for x in walk(t.get('cond'))):
                dflt = [sx for sx in b['succs'] if sx is not None and f.blocks[sx].get('case') == 'default']
                ok = False
                if dflt:
                    ok = reaches_only_error(f, dflt[0], errs)
                rep.check(ok, 'E1.type-err', f.qn, 'default arm of the kind switch', locline(t['loc']),
                          'an unknown node kind must end in a non-zero error return without writing', facts.config)
    # Dump
    n = 0
    for f in facts.functions:
        if f.short == 'Dump' and f.cls_qn == 'sonic_json::GenericNode':
            rep.fn(f)
            n += 1
            ok = False
            for bid, i, s in f.stmts():
                s_ = strip(s)
                if s_.get('k') == 'ret':
                    for c in walk(s_):
                        if c.get('k') == 'cond':
                            cc = strip_expect(c['c'])
                            if cc.get('k') == 'bin' and cc['op'] == '==' and cval(cc['r']) == 0:
                                a_has = any(x.get('cname') == 'ToString' for x in walk(c['a']))
                                b_has = any(x.get('cname') == 'ToString' for x in walk(c['b']))
                                ok = a_has and not b_has
                            if cc.get('k') == 'bin' and cc['op'] == '!=' and cval(cc['r']) == 0:
                                a_has = any(x.get('cname') == 'ToString' for x in walk(c['a']))
                                b_has = any(x.get('cname') == 'ToString' for x in walk(c['b']))
                                ok = b_has and not a_has
            if not ok:
                # if/else form
                M = Must(f, gen_edge=lambda b, cond, sense: ['ok'] if is_err_none(cond, sense) else [])
                for bid, i, s, e in f.walk():
                    if e.get('k') == 'call' and e.get('cname') == 'ToString':
                        st = M.at(bid, i)
                        ok = st is not None and 'ok' in st
            rep.check(ok, 'E1.dump', f.qn, 'ToString() only when Serialize returned kErrorNone', f.loc, 'Dump must return "" on error', facts.config)
    rep.require(n >= 1, 'C06.b: Dump not found')


def is_err_none(cond, sense):
    c = strip_expect(cond)
    if c is not None and c.get('k') == 'bin' and c['op'] in ('==', '!=') and cval(c['r']) == 0:
        return (c['op'] == '==') == sense
    return False


def reaches_only_error(f, b, errs):
    seen = set()
    work = [b]
    while work:
        x = work.pop()
        if x in seen:
            continue
        seen.add(x)
        B = f.blocks[x]
        for s in B['stmts']:
            s_ = strip(s)
            if s_.get('k') == 'ret':
                if not cval(s_['e']):
                    return False
                break
            if any(e.get('k') == 'call' and e.get('ccls') == WB for e in walk(s_)):
                return False
        else:
            for sx in B['succs']:
                if sx is not None:
                    work.append(sx)
    return True


def clause_c(facts, rep):
    n = 0
    for f in facts.functions:
        if f.qn == WB + '::ToString':
            rep.fn(f)
            M = Must(f, gen_stmt=lambda s: ['grown'] if any(e.get('k') == 'call' and e.get('cname') == 'Grow' and (cval(e['args'][0]) or 0) >= 1 for e in walk(s)) else [])
            for bid, i, s, e in f.walk():
                if e.get('k') == 'bin' and e['op'] == '=' and cval(e['r']) == 0 and strip(e['l']).get('k') == 'un':
                    st = M.at(bid, i)
                    n += 1
                    rep.check(st is not None and 'grown' in st, 'E2.terminator', f.qn, show(e), locline(e['loc']),
                              'the terminator byte must be written inside reserved space', facts.config)
    rep.require(n >= 1, 'C06.c: terminator store in ToString not found')


def clause_d(facts, rep):
    """Stack::Grow(cnt) - the post-condition the write-budget analysis builds on - is evaluated (sv/minterp.py, with
    realloc as the only primitive): for every (bytes used, capacity, cnt) on a grid around the doubling and the
    1.5x branch, afterwards the block is at least used + cnt bytes large, the contents offset is unchanged and the
    recorded capacity does not exceed the block."""
    from ..minterp import Interp, Unsupported, UndefinedBehaviour
    fs = [f for f in facts.functions if f.cls_qn == 'sonic_json::internal::Stack' and f.short == 'Grow']
    rep.require(len(fs) >= 1, 'C06.d: Stack::Grow not found')
    for f in fs[:1]:
        rep.fn(f)
        bad = None
        cnt_ = 0
        try:
            for cap in (8, 64, 128, 1000, 4096):
                for used in sorted(set([0, 1, cap // 2, cap - 9, cap - 8, cap - 1, cap])):
                    if used < 0:
                        continue
                    for cnt in (1, 3, 8, 9, 33, cap - used - 1, cap - used, cap - used + 1, cap, 2 * cap - used, 2 * cap - used + 1, 3 * cap, 100000):
                        if cnt <= 0:
                            continue
                        cnt_ += 1
                        allocs = []

                        def hook(e, args, env, members):
                            if e.get('cname') == 'realloc':
                                allocs.append(args[1])
                                return 0x40000000
                            return None
                        base = 0x10000000
                        try:
                            _, _, mem, _ = Interp(f, facts, call_hook=hook).run({f.params[0]['id']: cnt}, {'buf_': base, 'top_': base + used, 'cap_': cap})
                        except UndefinedBehaviour as ex:
                            bad = 'used=%d cap=%d Grow(%d): undefined behaviour: %s' % (used, cap, cnt, ex)
                            break
                        block = allocs[-1] if allocs else ((cap + 7) & ~7)
                        if block < used + cnt or mem['top_'] - mem['buf_'] != used or mem['cap_'] > block:
                            bad = 'used=%d cap=%d Grow(%d): block of %d bytes, contents at +%d, recorded capacity %d' % (used, cap, cnt, block, mem['top_'] - mem['buf_'], mem['cap_'])
                            break
                    if bad:
                        break
                if bad:
                    break
        except Unsupported as ex:
            raise AnalysisBroken('C06.d: Stack::Grow not evaluable: %s' % ex)
        rep.check(bad is None, 'E4.grow-contract', f.qn, 'after Grow(cnt) at least cnt bytes are free behind top_ (%d states evaluated)' % cnt_, f.loc, bad or '', facts.config)


def clause_serializer(facts, rep, tier):
    """the separator / bracket / pop logic of SerializeImpl: its CFG is interpreted (sv/ser_model.py) for every DOM tree
    shape up to the stated nesting and arity bounds, for every leaf kind in every position of small containers, and for
    the error trees (non-string key, non-finite double).  The text left in the write buffer must be exactly the
    minified JSON text of the tree, the parent stack empty and the result 'no error' - or the matching error code."""
    from .. import ser_model as sm
    from ..ser_model import Node, S, link, text
    from ..minterp import Unsupported, UndefinedBehaviour
    import itertools
    tags = {}
    errs = {}
    for en in facts.enums:
        if en.get('qn', '').endswith('TypeFlag'):
            for c in en.get('values', []):
                tags[c['name']] = int(c['v'])
        if en.get('qn', '').endswith('SonicError'):
            for c in en.get('values', []):
                errs[c['name']] = int(c['v'])
        if en.get('qn', '').endswith('TypeInfo'):
            for c in en.get('values', []):
                if c['name'] == 'kBasicTypeMask':
                    tags['kBasicTypeMaskValue'] = int(c['v'])
    rep.require('kObject' in tags and 'kSerErrorInfinity' in errs and 'kSerErrorInvalidObjKey' in errs, 'C06: TypeFlag / SonicError enumerators not found')
    fns = [f for f in facts.functions if f.short == 'SerializeImpl']
    rep.require(len(fns) >= 1, 'C06: SerializeImpl not found')
    leaf_kinds = [lambda: Node('uint', 7), lambda: Node('sint', -3), lambda: Node('uint', (1 << 64) - 1), lambda: Node('uint', 1 << 63), lambda: Node('sint', -(1 << 63)),
                  lambda: Node('real', '1.5'), lambda: Node('true'), lambda: Node('false'),
                  lambda: Node('null'), lambda: S(2), lambda: S(0), lambda: Node('raw', '[1, 2]'), lambda: Node('arr'), lambda: Node('obj')]
    for f in (fns if tier == 'thorough' else fns[:1]):
        rep.fn(f)
        R = sm.Run(f, facts, tags)
        trees = []
        U = lambda: Node('uint', 7)
        # (1) every shape of nesting depth <= 2 with <= 2 elements / members per container over {number, string}
        trees += [mk() for mk in sm.shapes(2, 2, [U, lambda: S(1)])]
        # (2) nesting depth 3: <= 2 elements at the top, <= 1 below (quick) / <= 2 everywhere (thorough)
        if tier == 'thorough':
            trees += [mk() for mk in sm.shapes(3, 2, [U])]
        else:
            inner = sm.shapes(2, 1, [U])
            for k in range(0, 3):
                for combo in itertools.product(inner, repeat=k):
                    trees.append(Node('arr', None, [c() for c in combo]))
                    trees.append(Node('obj', None, [x for c in combo for x in (S(1), c())]))
        # (3) every leaf kind as the root, in every position of arrays of 1..3 elements and objects of 1..2 members
        trees += [mk() for mk in leaf_kinds]
        for k in (1, 2, 3):
            for combo in itertools.product(leaf_kinds, repeat=k):
                trees.append(Node('arr', None, [c() for c in combo]))
                if k <= 2:
                    trees.append(Node('obj', None, [x for c in combo for x in (S(1), c())]))
                    trees.append(Node('arr', None, [Node('obj', None, [x for c in combo for x in (S(1), c())]), U()]))
        # (4) error trees: a non-string key / a non-finite double somewhere
        badkeys = [lambda: Node('uint', 1), lambda: Node('null'), lambda: Node('arr'), lambda: Node('true')]
        etrees = []
        for bk in badkeys:
            etrees.append(Node('obj', None, [bk(), U()]))
            etrees.append(Node('obj', None, [S(1), U(), bk(), U()]))
            etrees.append(Node('obj', None, [bk(), U(), S(1), U()]))
            etrees.append(Node('arr', None, [U(), Node('obj', None, [S(1), Node('obj', None, [bk(), U()])])]))
            etrees.append(Node('obj', None, [S(1), Node('arr', None, [U()]), bk(), U()]))
        for inf in ('inf', 'nan'):
            etrees.append(Node('real', inf))
            etrees.append(Node('arr', None, [U(), Node('real', inf)]))
            etrees.append(Node('obj', None, [S(1), Node('arr', None, [Node('real', inf)]), S(1), U()]))
        bad = None
        n = 0
        try:
            for t in trees:
                link(t)
                want = text(t)
                try:
                    rc, out, stk = R.serialize(t)
                except UndefinedBehaviour as ex:
                    bad = 'tree %s: %s' % (want, ex)
                    break
                n += 1
                if rc != 0 or out.decode('latin-1') != want or stk:
                    bad = 'tree %s: result %s, text %r%s' % (want, rc, out.decode('latin-1'), ', %d parent contexts left' % len(stk) if stk else '')
                    break
            if bad is None:
                for t in etrees:
                    link(t)
                    kinds = sm.expect_error(t)
                    want_rc = errs['kSerErrorInvalidObjKey'] if kinds[0] == 'key' else errs['kSerErrorInfinity']
                    try:
                        rc, out, stk = R.serialize(t)
                    except UndefinedBehaviour as ex:
                        bad = 'tree %s: %s' % (text(t), ex)
                        break
                    n += 1
                    ok_rcs = set(errs['kSerErrorInvalidObjKey'] if k_ == 'key' else errs['kSerErrorInfinity'] for k_ in kinds)
                    if rc not in ok_rcs:
                        bad = 'tree %s (%s): result %s, expected %s' % (text(t), kinds[0], rc, sorted(ok_rcs))
                        break
            # histories: a serialization that fails inside an open container must not influence the next one
            if bad is None:
                follow = [Node('arr', None, [U()]), Node('obj', None, [S(1), Node('arr', None, [U(), U()])]), U()]
                for t in etrees:
                    if not t.kids:
                        continue
                    R2 = sm.Run(f, facts, tags)
                    link(t)
                    try:
                        R2.serialize(t)
                        for t2 in follow:
                            t2 = link(sm.clone(t2))
                            rc, out, stk = R2.serialize(t2)
                            n += 1
                            if rc != 0 or out.decode('latin-1') != text(t2):
                                bad = 'after the failed serialization of %s, tree %s: result %s, text %r' % (text(t), text(t2), rc, out.decode('latin-1'))
                                break
                    except UndefinedBehaviour as ex:
                        bad = 'after the failed serialization of %s: %s' % (text(t), ex)
                    if bad:
                        break
        except Unsupported as ex:
            raise AnalysisBroken('C06: SerializeImpl cannot be interpreted: %s' % ex)
        rep.extra['serializer_trees_explored'] = rep.extra.get('serializer_trees_explored', 0) + n
        rep.check(bad is None, 'E6.serializer', f.qn, 'text in the write buffer == minified JSON text of the tree, for %d tree shapes (incl. %d error trees)' % (n, len(etrees)),
                  f.loc, bad or '', facts.config)


def run(rep, tier):
    configs = ['K1'] if tier == 'quick' else ['K1', 'K2', 'K3']
    for cfg in configs:
        facts = get_facts(cfg)
        rep.unit(facts)
        clause_a(facts, rep)
        clause_b(facts, rep)
        clause_c(facts, rep)
        clause_d(facts, rep)
        clause_serializer(facts, rep, tier)
        from . import c20 as _c20
        _c20.clause_stable_pointer(facts, rep)   # no address inside the write buffer / parent stack is used after a push that may reallocate it
        # "parses back equal" needs the number writers to print the value they were given: the structural
        # obligations of the writers (shared with C07/C08) are re-checked here
        from . import c07
        from .. import narrowing
        c07.clause_g(facts, rep)
        c07.clause_ab(facts, rep)
        from . import c16 as _c16
        _c16.round_up_rule(facts, rep, ('internal/stack.h',), min_sites=1)   # the write buffer's capacity is rounded up, never down
        from . import c08 as _c08
        _c08.clause_kind_dispatch(facts, rep)    # each number kind goes to the writer of its own kind (shared with C08)
        try:
            _c08.clause_c(facts, rep)            # ... and the integer writer's digit-table subscripts / split points (shared with C08)
        except AnalysisBroken as ex:
            rep.broken.append(str(ex))
        c07.clause_format(facts, rep, tier)     # the double writer stays inside the 32 bytes reserved for it and prints the decimal it was given (shared with C07)
        c07.clause_digit_text(facts, rep)   # every character of a number text is a digit (table pairs, '0' + x)
        c07.clause_e(facts, rep)      # every number text has a fraction/exponent; non-finite values (both signs) are refused, not printed
        try:
            narrowing.check(facts, rep, 'E3.lossless-narrowing', ('ftoa.h',), bounds={('FormatSignificand', 'sig'): 10 ** 17}, min_sites=2)
        except AnalysisBroken as ex:
            rep.broken.append(str(ex))      # the remaining rules still report
        try:
            narrowing.check(get_facts(facts.config, norm=True), rep, 'E3.lossless-narrowing', ('itoa.h',), min_sites=1)
        except AnalysisBroken as ex:
            rep.broken.append(str(ex))      # the remaining rules still report
        # 'valid JSON': the string writer may only emit the escapes RFC 8259 defines - the escape tables (shared with C09 / C05)
        from . import c09, c05
        try:
            c09.clause_a(facts, rep)
        except AnalysisBroken as ex:
            rep.broken.append(str(ex))
        c05.clause_a(facts, rep)
    # 'serialization succeeds for every document': the string writer stays inside the reservation the serializer made for it
    # and inside the page of the source string (reserve formula, tail guard, bounce copy: shared with C09), also when the
    # kernel is chosen at run time on a portable baseline (K8)
    from . import c09 as _c09
    for cfg9, san in ((('K1', False), ('K8', False)) if tier == 'quick' else (('K1', False), ('K2', True), ('K3', False), ('K4', False), ('K8', False))):
        f9 = get_facts(cfg9)
        rep.unit(f9)
        m9 = None
        for cl_ in (lambda: _c09.clause_a(f9, rep), lambda: _c09.clause_bc(f9, rep, m9), lambda: _c09.clause_de(f9, rep, san)):
            try:
                r9_ = cl_()
                if m9 is None and r9_ is not None:
                    m9 = r9_
            except AnalysisBroken as ex:
                rep.broken.append(str(ex))
    # the digit-table / digit-character range rules of the double formatter are decided together with the evaluation of
    # the formatting stage on the current source (E5.format): a range proof that cannot be rebuilt for a new spelling
    # of the branches is a note, not a verdict
    for r_ in ('E3.kdigits-index', 'E3.digit-char'):
        rep.corroborate(r_, 'E5.format', only=lambda v: 'ftoa.h' in (v.get('loc') or ''))
    # the reservation budget of SerializeImpl (every unchecked write covered by the Grow in force) is also decided by the
    # exploration, whose write-buffer model reserves exactly what is asked for (sv/ser_model.py)
    # (E4.budget is NOT paired with the exploration in general: the write buffer's initial capacity covers every small
    # document, so an under-reservation only shows on documents larger than the exploration's.  The one exception is the
    # length handed to PushSizeUnsafe: the exploration requires it to be exactly the length of the text the value writer
    # just produced, which is what the budget engine needs an upper bound for - a bound it cannot derive when the
    # sub-type dispatch is spelt as an if-chain whose fall-through is infeasible.)
    rep.corroborate('E4.budget', 'E6.serializer', only=lambda v: 'PushSizeUnsafe' in (v.get('construct') or ''))
    # the string writer: Quote evaluated byte by byte (shared with C09); its shape rules are decided together with it
    from .. import quoteeval
    for cfgq in ('K1', 'K8'):
        try:
            quoteeval.clause(get_facts(cfgq), rep, tier)
        except AnalysisBroken as ex:
            rep.broken.append(str(ex))
    for r_ in ('E3.bounce-copy', 'E3.page-guard', 'E3.tail-range', 'E5.tail-mask', 'E5.vector-loop', 'E2.escape-peek', 'E5.escape-copy', 'E5.length-bound'):
        rep.corroborate(r_, 'E5.quote-eval')
    for pre_ in ('C09.d:', 'C09.f:', 'C09.c: vector width', 'C09.c: DoEscape copy width', 'C09.a: the continue / return decision', 'C09.a: the decision of DoEscape'):
        rep.corroborate_floor(pre_, 'E5.quote-eval')
    rep.corroborate('E9.kind-dispatch', 'E6.serializer')
    rep.corroborate_floor('C08: number sub-type dispatch', 'E6.serializer')
    rep.corroborate('E1.inf-err', 'E6.serializer')      # the exploration includes the non-finite doubles: nothing may be pushed for them
    rep.corroborate_floor('C06.b:', 'E6.serializer')
    rep.trust('clang 14 front end', 'std::realloc(p, n) returns a block of n bytes keeping the old contents',
              *['%s write contract: %s' % (k, v['why']) for k, v in WRITER_CONTRACT.items()])
    rep.assumptions += [
        'decides that every unchecked push / writer call in SerializeImpl is covered by the reservation in force on every path (loops by fixpoint), error propagation exits, Dump, ToString; plus the Schubfach interval parity and lossless-narrowing obligations of the number writers (shared with C07/C08)',
        'the separator / bracket / pop logic is decided by exhaustive interpretation of the SerializeImpl CFG over all tree shapes up to the stated bounds (nesting depth 3, arity 2-3) with the value writers replaced by their contracts; deeper / wider trees are not explored',
        'does NOT decide round-trip equality end to end (value texts are the business of C07/C08/C09)',
    ]
