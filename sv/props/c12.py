"""C12 — The mutation API behaves like plain ordered containers: clauses (a)
appends write inside capacity and growth is strictly increasing, (b) map
maintenance pairing for every function that changes which member sits where -
including (added after seeded change C12-1) that map keys reference the
member's own stored key, (c) a fresh children block has a null map
(DESIGN.md section 5/C12)."""
from ..core import get_facts, strip, strip_expect, cval, show, walk, locline, AnalysisBroken
from ..e2_dom import Must
from .c09 import eval_guard

DN = 'sonic_json::DNode'


def pick(facts, short, alloc_tag):
    """functions of DNode<alloc>: alloc_tag 'SAlloc' selects the freeing allocator instantiation, '' the pool one"""
    out = []
    for f in facts.functions:
        if f.cls_qn != DN or f.short != short:
            continue
        is_s = 'SAlloc' in (f.cls or '') or 'SimpleAllocator>' in (f.cls or '') and 'MemoryPool' not in (f.cls or '')
        if bool(alloc_tag) == bool(is_s):
            out.append(f)
    return out


def growth_ok(expr_fn):
    bad = []
    for cap in list(range(1, 300)) + [1000, 4097, 2 ** 20 + 1]:
        try:
            new = expr_fn(cap)
        except KeyError as ex:
            raise AnalysisBroken('C12.a: growth expression not evaluable: %s' % ex)
        if new <= cap:
            bad.append((cap, new))
    return bad


def clause_a(facts, rep, tag):
    n = 0
    for short in ('addMemberImpl', 'pushBackImpl'):
        for f in pick(facts, short, tag):
            rep.fn(f)

            # which accessor calls a local's value comes from (through its initialiser, transitively): `old_cap` is the
            # capacity and `count` the size whatever they are called
            prov = {}
            for _ in range(3):
                for bid_, i_, s_ in f.stmts():
                    s0_ = strip(s_)
                    if isinstance(s0_, dict) and s0_.get('k') == 'decl':
                        for vd in s0_['vars']:
                            if vd.get('init') is not None:
                                cs = set(x.get('cname') for x in walk(vd['init']) if x.get('k') == 'call')
                                for x in walk(vd['init']):
                                    if x.get('k') == 'ref' and x.get('id') in prov:
                                        cs |= prov[x['id']]
                                prov[vd['id']] = prov.get(vd['id'], set()) | cs

            def gen_edge(b, cond, sense):
                c = strip_expect(cond)
                if c is not None and c.get('k') == 'bin' and c['op'] in ('>=', '<', '>', '<=', '==', '!='):
                    def side(e_):
                        cs = set(x.get('cname') for x in walk(e_) if x.get('k') == 'call')
                        for x in walk(e_):
                            if x.get('k') == 'ref' and x.get('id') in prov:
                                cs |= prov[x['id']]
                        return cs
                    L, R = side(c['l']), side(c['r'])
                    capn, sizen = ('Capacity', 'capacityImpl'), ('Size',)
                    op = c['op']
                    if any(x in L for x in capn) and any(x in R for x in sizen) and not any(x in R for x in capn):
                        # capacity OP size  ->  mirror
                        op = {'>=': '<=', '<': '>', '>': '<', '<=': '>=', '==': '==', '!=': '!='}[op]
                        L, R = R, L
                    if any(x in L for x in sizen) and any(x in R for x in capn):
                        # size OP capacity: room when size < capacity
                        room = (op == '>=' and not sense) or (op == '<' and sense) or (op == '==' and not sense) or (op == '!=' and sense)
                        if room:
                            return ['room']
                return []

            def gen_stmt(s):
                for e in walk(s):
                    if e.get('k') == 'call' and e.get('cname') in ('containerMalloc', 'containerRealloc'):
                        return ['room']
                return []
            M = Must(f, gen_edge=gen_edge, gen_stmt=gen_stmt)
            k = 0
            for bid, i, s, e in f.walk():
                if e.get('k') == 'call' and e.get('cname') == 'rawAssign' and e.get('obj') is not None:
                    o = strip(e['obj'])
                    if o.get('k') == 'this':
                        continue
                    st = M.at(bid, i)
                    if st is None:
                        continue
                    k += 1
                    rep.check('room' in st, 'E2.append-capacity', f.qn, show(e)[:60], locline(e['loc']),
                              'the store into slot Size() must be dominated by Capacity() > Size() or by a (re)allocation', facts.config)
            rep.require(k >= 1, 'C12.a: append store not found in %s' % f.name)
            n += k
            # growth strictly increasing, first allocation positive: the function is evaluated (sv/minterp.py) on a full
            # container of every capacity up to the (re)allocation call and the capacity it requests is read off -
            # whatever the locals are called and however the expression is split
            from ..minterp import Interp, Unsupported, UndefinedBehaviour

            class _Stop(Exception):
                def __init__(self, v):
                    self.v = v

            def requested(cap0):
                def hook(e, args, env, members):
                    nm = e.get('cname') or ''
                    if nm.startswith('__builtin_expect'):
                        return None
                    if e.get('k') == 'ctor':
                        return None
                    if nm in ('Size', 'Capacity', 'capacityImpl'):
                        return cap0
                    if nm == 'containerRealloc' and len(args) >= 3:
                        raise _Stop(args[2])
                    if nm == 'containerMalloc' and len(args) >= 1:
                        raise _Stop(args[0])
                    if nm in ('IsArray', 'IsObject'):
                        return 1
                    if nm in ('children', 'getObjChildrenFirst', 'getArrChildrenFirst', 'meta'):
                        return 0x1000 if cap0 else 0
                    if e.get('k') == 'call':
                        return 0          # anything else (the stores behind the capacity decision) is irrelevant to the requested capacity
                    return None
                it = Interp(f, facts, call_hook=hook, max_steps=4000)
                env = {'__this__': 0}
                for p_ in f.params:
                    env[p_['id']] = 0
                try:
                    it.run(env, {'a.next.children': 0x1000 if cap0 else 0, 'o.next.children': 0x1000 if cap0 else 0})
                except _Stop as st:
                    return st.v
                except Unsupported:
                    return None           # went on past the capacity decision without requesting a block
                return None
            bad = []
            dflt = None
            try:
                dflt = requested(0)
                for cap in list(range(1, 300)) + [1000, 4097, 2 ** 20 + 1]:
                    new = requested(cap)
                    if new is None or new <= cap:
                        bad.append((cap, new))
            except (Unsupported, UndefinedBehaviour) as ex:
                raise AnalysisBroken('C12.a: growth of %s not evaluable: %s' % (f.name, ex))
            rep.check(not bad, 'E5.growth', f.qn, 'requested capacity > old capacity for every full container of capacity >= 1', f.loc, 'counter-examples (old, requested): %s' % bad[:3], facts.config)
            rep.check(dflt is not None and dflt >= 1, 'E5.growth', f.qn, 'first allocation has capacity %s >= 1' % dflt, f.loc, '', facts.config)
    rep.require(n >= 3, 'C12.a: append stores found: %d' % n)


_MAP_GETTERS = {}


def _returns_map_field(facts, g, depth=0):
    """g is an accessor of the lookup map: every value it returns is null or read from a field named `map`
    (MetaNode.map, the anchor named by the property) - whatever the accessor itself is called"""
    if g is None or depth > 2:
        return False
    key = (id(facts), g.id)
    if key in _MAP_GETTERS:
        return _MAP_GETTERS[key]
    _MAP_GETTERS[key] = False
    rets = [strip(s_).get('e') for _, _, s_ in g.stmts() if isinstance(strip(s_), dict) and strip(s_).get('k') == 'ret' and strip(s_).get('e') is not None]
    ok = bool(rets) and len(g.params) == 0
    seen_field = False
    for r in rets:
        if cval(r) == 0:
            continue
        if any(x.get('k') == 'member' and x.get('name') == 'map' for x in walk(r)):
            seen_field = True
            continue
        if any(x.get('k') == 'call' and _returns_map_field(facts, facts.by_id.get(x.get('cid')), depth + 1) for x in walk(r)):
            seen_field = True
            continue
        ok = False
    _MAP_GETTERS[key] = ok and seen_field
    return ok and seen_field


_FACTS = [None]


def is_map_expr(e):
    fx = _FACTS[0]
    for x in walk(e):
        if x.get('k') == 'call' and (x.get('cname') in ('getMap', 'getMapUnsfe') or (fx is not None and _returns_map_field(fx, fx.by_id.get(x.get('cid'))))):
            return True
        if x.get('k') == 'member' and x.get('name') == 'map':
            return True
        if x.get('k') == 'ref' and x.get('dk') == 'local' and 'multimap' in (x.get('t') or '').lower() or (x.get('k') == 'ref' and x.get('name') == 'map'):
            return True
    return False


def map_edge(b, cond, sense):
    """tokens: 'nomap' when the edge implies the object has no map"""
    c = strip_expect(cond)
    neg = False
    while c is not None and c.get('k') == 'un' and c['op'] == '!':
        neg = not neg
        c = strip_expect(c['e'])
    if c is None:
        return []
    if c.get('k') == 'bin' and c['op'] in ('!=', '==') and is_map_expr(c) and (cval(c['l']) == 0 or cval(c['r']) == 0):
        present = (c['op'] == '!=') == (sense != neg)
        return [] if present else ['nomap']
    if c.get('k') in ('call', 'ref') and is_map_expr(c):
        present = (sense != neg)
        return [] if present else ['nomap']
    return []


def clause_b(facts, rep, tag):
    n = 0
    _FACTS[0] = facts
    for f in pick(facts, 'addMemberImpl', tag):
        rep.fn(f)

        def gen_stmt(s):
            for e in walk(s):
                if e.get('k') == 'call' and e.get('cname') == 'emplace' and e.get('obj') is not None and is_map_expr(e['obj']):
                    return ['mapped']
            return []
        M = Must(f, gen_stmt=gen_stmt, gen_edge=lambda b, c, s: ['mapped'] if map_edge(b, c, s) else [])
        for bid, i, s in f.stmts():
            s_ = strip(s)
            if s_.get('k') == 'ret':
                st = M.at(bid, i)
                if st is None:
                    continue
                n += 1
                rep.check('mapped' in st, 'E2.map-pairing', f.qn, 'every return after the append has inserted the member into an existing map', locline(s_['loc']),
                          'AddMember with a live map must emplace the new member', facts.config)
        # the key stored in the map is the member's own key, the index is the old size
        for bid, i, s, e in f.walk():
            if e.get('k') == 'call' and e.get('cname') == 'emplace' and e.get('obj') is not None and is_map_expr(e['obj']):
                params = {p['id'] for p in f.params}
                from_param = any(x.get('k') == 'ref' and x.get('id') in params and 'string_view' in x.get('t', '').lower().replace('stringview', 'string_view') for a in e['args'] for x in walk(a))
                from_member = any(x.get('k') == 'call' and x.get('cname') == 'GetStringView' and x.get('obj') is not None and
                                  not any(y.get('k') == 'ref' and y.get('id') in params for y in walk(x['obj'])) for a in e['args'] for x in walk(a))
                n += 1
                rep.check(from_member and not from_param, 'E8.map-key-owner', f.qn, show(e)[:90], locline(e['loc']),
                          'the string view stored in the map must view the member\'s own (possibly copied) key, not the caller\'s argument whose lifetime ends with the call', facts.config)
                idx_ok = any(x.get('k') == 'ref' and x.get('name') == 'count' for a in e['args'] for x in walk(a))
                rep.check(idx_ok, 'E2.map-pairing', f.qn, 'map index is the old size', locline(e['loc']), show(e)[:80], facts.config)
    # Clear(): the emptied container must not keep a children block whose header still carries a lookup map
    # (with the pool allocator destroy() releases nothing, so only detaching the block drops the stale map)
    for f in pick(facts, 'clearImpl', tag):
        rep.fn(f)

        def gen_detach(s):
            for e in walk(s):
                if e.get('k') == 'call' and e.get('cname') == 'setChildren' and e.get('args') and cval(e['args'][0]) == 0:
                    return ['detached']
                if e.get('k') == 'call' and e.get('cname') == 'DestroyMap':
                    return ['detached']
            return []
        Mc = Must(f, gen_stmt=gen_detach)
        for bid, i, s in f.stmts():
            s_ = strip(s)
            if s_.get('k') == 'ret':
                st = Mc.at(bid, i)
                if st is None:
                    continue
                n += 1
                rep.check('detached' in st, 'E2.map-pairing', f.qn, 'Clear() detaches the children block (or destroys the map) on every path', locline(s_['loc']),
                          'a cleared object that keeps its old block keeps the old lookup map: every erased key stays "present"', facts.config)
    for f in pick(facts, 'eraseMemberImpl', tag):
        rep.fn(f)
        M = Must(f, gen_stmt=lambda s: ['nomap'] if any(e.get('k') == 'call' and e.get('cname') == 'DestroyMap' for e in walk(s)) else [])
        for bid, i, s, e in f.walk():
            if e.get('k') == 'call' and e.get('cname') in ('memmove', 'subLength', '~DNode', 'destroy'):
                st = M.at(bid, i)
                if st is None:
                    continue
                n += 1
                rep.check('nomap' in st, 'E2.map-pairing', f.qn, show(e)[:60], locline(e['loc']),
                          'members are destroyed / compacted only after the map (whose indices would go stale) was destroyed', facts.config)
    for f in pick(facts, 'removeMemberImpl', tag):
        rep.fn(f)

        def gen_stmt(s):
            out = []
            for e in walk(s):
                if e.get('k') == 'call' and e.get('cname') == 'emplace' and e.get('obj') is not None and is_map_expr(e['obj']):
                    out.append('reindexed')
                if e.get('k') == 'call' and e.get('cname') == 'erase' and e.get('obj') is not None and is_map_expr(e['obj']):
                    out.append('erased')
            return out

        def gen_edge(b, cond, sense):
            out = []
            if map_edge(b, cond, sense):
                out += ['reindexed', 'erased']
            c = strip_expect(cond)
            # m == m_tail: nothing moved
            if c is not None and c.get('k') == 'bin' and c['op'] in ('!=', '==') and {strip(c['l']).get('name'), strip(c['r']).get('name')} == {'m', 'm_tail'}:
                same = (c['op'] == '==') == sense
                if same:
                    out.append('reindexed')
            return out
        M = Must(f, gen_stmt=gen_stmt, gen_edge=gen_edge)
        for bid, i, s, e in f.walk():
            if e.get('k') == 'call' and e.get('cname') == 'subLength':
                st = M.at(bid, i)
                if st is None:
                    continue
                n += 1
                rep.check('erased' in st, 'E2.map-pairing', f.qn, 'removed member erased from a live map before the size shrinks', locline(e['loc']),
                          'RemoveMember with a live map must erase the entry of the removed member', facts.config)
                rep.check('reindexed' in st, 'E2.map-pairing', f.qn, 'moved tail member re-indexed in a live map', locline(e['loc']),
                          'the member moved into the hole must be re-inserted with its new index', facts.config)
    rep.require(n >= 8, 'C12.b: map pairing obligations found: %d' % n)


def clause_c(facts, rep, tag):
    n = 0
    for c in facts.classes:
        if c['qn'].startswith(DN) and c['qn'].endswith('::MetaNode'):
            n += 1
            break
    for f in facts.functions:
        if f.short == 'MetaNode' and f.d.get('ctor') and DN in f.qn:
            inits = {strip(s).get('field'): strip(s).get('e') for _, _, s in f.stmts() if strip(s).get('k') == 'init'}
            if 'map' in inits:
                n += 1
                v = inits['map']
                isnull = v is not None and (cval(v) == 0 or any(x.get('null') for x in walk(v)) or any(cval(x) == 0 for x in walk(v)))
                rep.check(isnull, 'E2.fresh-map-null', f.qn, 'MetaNode constructor initialises map to nullptr', f.loc, show(v), facts.config)
    for f in pick(facts, 'memberReserveImpl', tag):
        rep.fn(f)

        def gen_edge(b, cond, sense):
            c = strip_expect(cond)
            if c is not None and c.get('k') == 'bin' and c['op'] == '==' and strip(c['l']).get('name') == 'old_cap' and cval(c['r']) == 0 and sense:
                return ['first']
            return []
        M = Must(f, gen_edge=gen_edge)
        ok = False
        for bid, i, s, e in f.walk():
            if e.get('k') == 'call' and e.get('cname') == 'setMap' and cval(e['args'][0]) == 0 or \
               (e.get('k') == 'call' and e.get('cname') == 'setMap' and any(x.get('null') for x in walk(e['args'][0]))):
                st = M.at(bid, i)
                ok = st is not None and 'first' in st
        n += 1
        rep.check(ok, 'E2.fresh-map-null', f.qn, 'first allocation nulls the map pointer of the raw block', f.loc,
                  'containerRealloc of a null block returns uninitialised memory: the map slot must be cleared', facts.config)
    rep.require(n >= 3, 'C12.c: obligations found: %d' % n)


def clause_model(facts, rep, tier, kinds=('free', 'pool')):
    """the container mutation API against plain ordered containers, by bounded exploration (sv/dom_model.py): the *Impl
    functions behind PushBack / PopBack / Erase / Reserve / Clear and AddMember / RemoveMember / EraseMember /
    FindMember / CreateMap / DestroyMap / Clear are interpreted from their CFGs over every operation sequence of
    length <= 2 (thorough: 3) from each of several start states (empty, capacity == size as after a parse or a copy,
    spare capacity; objects with and without a lookup map).  After every operation the container read back equals the
    reference list / ordered dict, FindMember finds exactly what is there, nothing is read or written outside a
    children block; at the end everything allocated has been released exactly once."""
    from .. import dom_model as dm
    from ..dom_model import V, Ptr, Machine, Block
    from ..minterp import Unsupported, UndefinedBehaviour
    tags = {}
    for en in facts.enums:
        if en.get('qn', '').endswith('TypeFlag'):
            for c in en.get('values', []):
                tags[c['name']] = int(c['v'])
    fns_by = {'free': {}, 'pool': {}}
    for f in facts.functions:
        if (f.cls_qn or '').startswith('sonic_json::DNode'):
            if f.short == 'findMemberImpl' and f.params and 'StringView' not in f.params[0]['t'] and 'basic_string_view' not in f.params[0]['t']:
                fns_by['free' if (f.name.startswith('sonic_json::DNode<sonic_json::SimpleAllocator>') or f.name.startswith('sonic_json::DNode<SAlloc>')) else 'pool'].setdefault('findMemberImpl/ptr', f)
                continue
            fns_by['free' if (f.name.startswith('sonic_json::DNode<sonic_json::SimpleAllocator>') or f.name.startswith('sonic_json::DNode<SAlloc>')) else 'pool'].setdefault(f.short, f)
    fns = fns_by['free']
    need = ('pushBackImpl', 'popBackImpl', 'eraseImpl', 'reserveImpl', 'clearImpl', 'addMemberImpl', 'removeMemberImpl', 'eraseMemberImpl', 'findMemberImpl',
            'findFromMap', 'CreateMap', 'DestroyMap', 'destroy', 'memberReserveImpl')
    rep.require(all(n in fns for n in need) and 'kObject' in tags, 'C12: container *Impl functions (freeing-allocator instantiation) not all found: missing %s' % [n for n in need if n not in fns])
    for n_ in need:
        rep.fn(fns[n_])
    depth = 3 if tier == 'thorough' else 2
    cur = {'fns': fns, 'need_free': True}
    KEYS = ['a', 'b', 'ab', 'd', 'e']       # 'a' is a proper prefix of 'ab'
    stats = {'seq': 0, 'ops': 0}

    def val(i):
        return i if i % 2 == 0 else 'v%d' % i

    class Done(Exception):
        pass

    def run_seq(kind, start, with_map, ops):
        """returns None or a description of the first discrepancy"""
        M = Machine(facts, cur['fns'], tags, need_free=cur['need_free'])
        root = V(kind)
        ref = []
        ctr = [0]
        try:
            # start state
            n0, cap0 = start[0], start[1]
            keys0 = ['a', 'b', 'a'] if len(start) > 2 else KEYS       # a start state with a duplicated key
            if cap0:
                unit = 2 if kind == 'obj' else 1
                b = Block(M.ledger, cap0, unit)
                for j in range(n0):
                    ctr[0] += 1
                    if kind == 'obj':
                        b.slots[2 * j] = M.node(keys0[j])
                        b.slots[2 * j + 1] = M.node(val(ctr[0]))
                        ref.append((keys0[j], val(ctr[0])))
                    else:
                        b.slots[j] = M.node(val(ctr[0]))
                        ref.append(val(ctr[0]))
                root.block, root.length = b, n0
            if with_map:
                M.call('CreateMap', root, 'ALLOC')

            def readback():
                if kind == 'arr':
                    got = [root.block.slots[j].val for j in range(root.length)] if root.block else []
                    if root.block is None and root.length:
                        return 'size %d without a children block' % root.length
                    return None if got == ref else 'array reads back %r, the list model has %r' % (got, ref)
                if root.block is None:
                    got = []
                    if root.length:
                        return 'size %d without a children block' % root.length
                else:
                    if 2 * root.length > len(root.block.slots):
                        return 'size %d exceeds the block of capacity %d' % (root.length, root.block.cap)
                    got = [(root.block.slots[2 * j].val, root.block.slots[2 * j + 1].val) for j in range(root.length)]
                if got != ref:
                    return 'object reads back %r, the model has %r' % (got, ref)
                for k in KEYS + ['zz']:
                    p_ = M.call('findMemberImpl', root, ('sv', k))
                    stats['ops'] += 1
                    found = None
                    if isinstance(p_, Ptr) and p_.block is not None and p_.block is root.block and 0 <= p_.idx < 2 * root.length:
                        found = p_.idx // 2
                    want = [j for j, (kk, _) in enumerate(ref) if kk == k]
                    if (found is None) != (not want) or (want and found not in want):
                        return 'FindMember(%r) -> %s, the model has it at %s' % (k, found, want or 'nowhere')
                    # the pointer + length overload, the key being the first bytes of a longer buffer
                    if 'findMemberImpl/ptr' in cur['fns']:
                        p2 = M.run(cur['fns']['findMemberImpl/ptr'], root, [dm.CharPtr(k + 'Zq', dm.new_addr()), len(k)])
                        stats['ops'] += 1
                        f2 = p2.idx // 2 if isinstance(p2, Ptr) and p2.block is not None and p2.block is root.block and 0 <= p2.idx < 2 * root.length else None
                        if (f2 is None) != (not want) or (want and f2 not in want):
                            return 'FindMember(ptr, %d) with %r as the first bytes of a longer buffer -> %s, the model has it at %s' % (len(k), k, f2, want or 'nowhere')
                # a key that is a proper prefix view of a stored name (same address, shorter) is a different key
                for j in range(root.length):
                    kn = root.block.slots[2 * j]
                    if kn.kind == 'str' and len(kn.val) >= 2:
                        if kn.addr is None:
                            kn.addr = dm.new_addr()
                        pre = kn.val[:-1]
                        p3 = M.call('findMemberImpl', root, ('sv', pre, kn.addr))
                        stats['ops'] += 1
                        f3 = p3.idx // 2 if isinstance(p3, Ptr) and p3.block is not None and p3.block is root.block and 0 <= p3.idx < 2 * root.length else None
                        want3 = [j2 for j2, (kk, _) in enumerate(ref) if kk == pre]
                        if (f3 is None) != (not want3) or (want3 and f3 not in want3):
                            return 'FindMember(%r) with a view that starts at the address of the stored name %r -> %s, the model has it at %s' % (pre, kn.val, f3, want3 or 'nowhere')
                return None
            r0 = readback()
            if r0:
                return 'start state: ' + r0
            for op in ops:
                stats['ops'] += 1
                name = op[0]
                if kind == 'arr':
                    if name == 'push':
                        ctr[0] += 1
                        M.call('pushBackImpl', root, M.node(val(ctr[0])), 'ALLOC')
                        ref.append(val(ctr[0]))
                    elif name == 'pop':
                        if not ref:
                            continue
                        M.call('popBackImpl', root)
                        ref.pop()
                    elif name == 'erase':
                        i, j = op[1], op[2]
                        if j > len(ref) or root.block is None:
                            continue
                        b0 = Ptr(root.block, 0, 1)
                        M.call('eraseImpl', root, b0 + i, b0 + j)
                        del ref[i:j]
                    elif name == 'reserve':
                        M.call('reserveImpl', root, op[1], 'ALLOC')
                    elif name == 'clear':
                        M.call('clearImpl', root)
                        del ref[:]
                else:
                    if name == 'add':
                        k = [x for x in KEYS if x not in [kk for kk, _ in ref]]
                        if not k:
                            continue
                        kx = k[0] if op[1] else k[-1]      # the smallest / the largest unused key
                        ctr[0] += 1
                        M.call('addMemberImpl', root, ('sv', kx), M.node(val(ctr[0])), 'ALLOC', 1)
                        ref.append((kx, val(ctr[0])))
                    elif name == 'adddup':
                        if not ref:
                            continue
                        kx = ref[0][0]                     # the first member's key once more (AddMember does not look)
                        ctr[0] += 1
                        M.call('addMemberImpl', root, ('sv', kx), M.node(val(ctr[0])), 'ALLOC', 1)
                        ref.append((kx, val(ctr[0])))
                    elif name == 'remove':
                        k = op[1]
                        r = M.call('removeMemberImpl', root, ('sv', k))
                        idx = [j for j, (kk, _) in enumerate(ref) if kk == k]
                        if bool(r) != bool(idx):
                            return 'RemoveMember(%r) returned %s, the model %s the key' % (k, r, 'has' if idx else 'does not have')
                        if idx:
                            # which of several equal keys goes is not specified: any of them, the tail moving into its place
                            cands = []
                            for j in idx:
                                r2 = list(ref)
                                if j != len(r2) - 1:
                                    r2[j] = r2[-1]
                                r2.pop()
                                cands.append(r2)
                            got_ = None
                            if root.block is not None and 2 * root.length <= len(root.block.slots):
                                got_ = [(root.block.slots[2 * j].val, root.block.slots[2 * j + 1].val) for j in range(root.length)]
                            hit = [c for c in cands if c == got_]
                            ref[:] = hit[0] if hit else cands[0]
                    elif name == 'erasem':
                        i, j = op[1], op[2]
                        if j > len(ref) or root.block is None:
                            continue
                        b0 = Ptr(root.block, 0, 2)
                        M.call('eraseMemberImpl', root, b0 + i, b0 + j)
                        del ref[i:j]
                    elif name == 'createmap':
                        M.call('CreateMap', root, 'ALLOC')
                    elif name == 'destroymap':
                        if root.block is None:
                            continue
                        M.call('DestroyMap', root)
                    elif name == 'clear':
                        M.call('clearImpl', root)
                        del ref[:]
                rb = readback()
                if rb:
                    return 'after %s: %s' % (op, rb)
            M.call('destroy', root)       # what the node's destructor does
            if cur['need_free'] and M.ledger.live:
                return 'after destroying the container: still allocated (leaked): %s' % sorted(set(M.ledger.live.values()))
        except UndefinedBehaviour as ex:
            return 'undefined behaviour: %s' % ex
        return None
    arr_ops = [('push',), ('pop',), ('reserve', 1), ('reserve', 5), ('clear',)] + [('erase', i, j) for i in range(0, 4) for j in range(i, 4)]
    obj_ops = [('add', 1), ('add', 0), ('adddup',), ('createmap',), ('destroymap',), ('clear',)] + [('remove', k) for k in ('a', 'b', 'ab', 'zz')] + \
              [('erasem', i, j) for i in range(0, 4) for j in range(i, 4)]
    starts = [(0, 0), (1, 1), (2, 2), (3, 3), (3, 16)]
    dup_starts = [(3, 3, 'dup'), (3, 16, 'dup')]
    import itertools
    bad = None
    try:
      for akind in kinds:
        cur['fns'], cur['need_free'] = fns_by[akind], akind == 'free'
        if not all(n in cur['fns'] for n in need):
            raise AnalysisBroken('C12: container *Impl functions of the %s-allocator instantiation not all found' % akind)
        for kind, alphabet in (('arr', arr_ops), ('obj', obj_ops)):
            for start in (starts + dup_starts if kind == 'obj' else starts):
                for with_map in ((False, True) if kind == 'obj' else (False,)):
                    for d in range(1, depth + 1):
                        for ops in itertools.product(alphabet, repeat=d):
                            # skip sequences whose first erase range does not fit the start size (covered by smaller ones)
                            stats['seq'] += 1
                            r = run_seq(kind, start, with_map, ops)
                            if r:
                                bad = '[%s allocator] %s with %d of capacity %d%s, operations %s: %s' % ('freeing' if akind == 'free' else 'pool', 'array' if kind == 'arr' else ('object' if len(start) < 3 else 'object {a,b,a} (duplicated key)'), start[0], start[1],
                                                                                        ' and a lookup map' if with_map else '', list(ops), r)
                                raise Done()
    except Done:
        pass
    except Unsupported as ex:
        raise AnalysisBroken('C12: the container model cannot interpret the mutation API: %s' % ex)
    rep.extra['container_sequences_explored'] = stats['seq']
    rep.check(bad is None, 'E6.containers', fns['addMemberImpl'].qn.rsplit('::', 1)[0], 'mutation API == ordered-container model on %d operation sequences (%d interpreted operations)' % (stats['seq'], stats['ops']),
              fns['addMemberImpl'].loc, bad or '', facts.config)


def run(rep, tier):
    configs = ['K1'] if tier == 'quick' else ['K1', 'K3', 'K4']
    for cfg in configs:
        facts = get_facts(cfg)
        rep.unit(facts)
        for tag in ('', 'SAlloc'):
            clause_a(facts, rep, tag)
            clause_b(facts, rep, tag)
            clause_c(facts, rep, tag)
        # the lookup map is only a faithful index if its comparator is a strict weak order: Less() must order keys
        # like memcmp on every path, i.e. the three-way compare it calls is unsigned left-minus-right (shared with C14)
        from . import c13
        if cfg == 'K1':
            c13.deep_copy_rule(facts, rep)     # CopyFrom / copy construction yield an independent container (shared with C13)
        from . import c14
        if cfg == 'K1':
            c14.clause_e(facts, rep, ('::avx2::',))
            n = c14.clause_c(facts, rep)
        elif cfg == 'K3':
            c14.clause_e(facts, rep, ('::sse::',), min_returns=1)
    # last, so that a construct the model cannot interpret (exit 2) does not keep the rules above from reporting
    try:
        from .. import atptr_model
        atptr_model.clause(get_facts('K1'), rep, tier)      # AtPointer lookups == path lookup in the model
    except AnalysisBroken as ex:
        rep.broken.append(str(ex))
    try:
        clause_model(get_facts('K1'), rep, tier)
    except AnalysisBroken as ex:
        rep.broken.append(str(ex))
    # the shape-matching rules on the container code are decided together with the exploration of the same functions
    for r_ in ('E2.map-pairing', 'E2.append-capacity', 'E2.fresh-map-null'):
        rep.corroborate(r_, 'E6.containers')
    for pre_ in ('C12.a:', 'C12.b:', 'C12.c:'):
        rep.corroborate_floor(pre_, 'E6.containers')
    rep.trust('clang 14 front end', 'std::multimap emplace/erase semantics')
    rep.assumptions += [
        'decides capacity-before-store, strictly increasing growth, map maintenance pairing (incl. key ownership) and null map of fresh blocks, for both allocator kinds; the map comparator (min-length compare, tie on length) uses an unsigned memcmp-like three-way compare on every path',
        'does NOT decide equality with the vector model, the values of repaired map indices, iterator results (model-based behaviour)',
    ]
