"""C05 — String literals decode exactly per RFC 8259 escapes: clauses (a) escape
and hex tables, (b) no surrogate / nothing above U+10FFFF is ever encoded
(value-set analysis of handle_unicode_codepoint over all paths), (c)
codepoint_to_utf8 agrees with UTF-8 (RFC 3629) on boundary and sampled code
points, (d) error classes match their detecting condition
(e) every consumption of source bytes in parseStringInplace is dominated by
the control-byte screening of the current block, (f) the three StringBlock
predicates mean first-of(quote, backslash, control) for every bit placement,
(g) the masks are built from the byte classes 0x5c / 0x22 / below 0x20 in field
order (DESIGN.md section 5/C05)."""
from ..core import get_facts, strip, strip_expect, cval, show, walk, locline, AnalysisBroken
from ..e5_tables import arr, find_static, check_rows
from ..e3_isets import ISet, PathEnum, M32
from ..e2_dom import Must

NS = 'sonic_json::internal::'
ESC = {ord('"'): ord('"'), ord('/'): ord('/'), ord('\\'): ord('\\'), ord('b'): 8, ord('f'): 12, ord('n'): 10, ord('r'): 13, ord('t'): 9}


def hexval(b):
    ch = chr(b)
    if ch in '0123456789':
        return b - 48
    if ch in 'abcdef':
        return b - 87
    if ch in 'ABCDEF':
        return b - 55
    return None


def clause_a(facts, rep):
    ss = find_static(facts, name='kEscapedMap')
    rep.require(len(ss) == 1, 'C05.a: kEscapedMap not found')
    if ss:
        s = ss[0]
        got = arr(s['value'])
        want = [ESC.get(b, 0) for b in range(256)]
        if 0x75 < len(got) < 256:
            # a shorter table is a representation choice (the readers may range-check): the rows present are compared, what the
            # readers do with every byte value after a backslash is decided by E5.string-decode (all 256 values, both kernels)
            rep.notes.append('kEscapedMap has %d rows: rows compared, the treatment of the other byte values is decided by E5.string-decode' % len(got))
            want = want[:len(got)]
        check_rows(rep, 'E5.table', s['qn'], 'kEscapedMap', locline(s['loc']), got, want, facts.config,
                   'the eight two-character escapes, 0 elsewhere (incl. u)')
    ss = find_static(facts, name='digit_to_val32')
    rep.require(len(ss) == 1, 'C05.a: digit_to_val32 not found')
    pairing = None
    if ss:
        s = ss[0]
        tab = arr(s['value'])
        # the reader: which (offset, byte index) pairs are combined
        fs = [f for f in facts.functions if f.short == 'hex_to_u32_nocheck']
        rep.require(len(fs) >= 1, 'C05.a: hex_to_u32_nocheck not found')
        for f in fs[:1]:
            rep.fn(f)
            pairs = []
            for bid, i, st, e in f.walk():
                if e.get('k') == 'sub' and strip(e['base']).get('k') == 'ref' and strip(e['base']).get('name') == 'digit_to_val32':
                    ix = strip(e['idx'])
                    off = None
                    k = None
                    if ix.get('k') == 'bin' and ix['op'] == '+':
                        off = cval(ix['l'])
                        inner = strip(ix['r'])
                        if inner.get('k') == 'sub':
                            k = cval(inner['idx'])
                    if off is None or k is None:
                        pairs = None       # another way of reading the table: the function is decided by evaluation below
                        break
                    pairs.append((off, k))
            pairing = clause_hex_value(facts, rep, f)
            if not pairs or len(pairs) != 4 or sorted(k for _, k in pairs) != [0, 1, 2, 3]:
                return pairing
            bad = []
            for off, k in pairs:
                shift = 4 * (3 - k)
                if off + 255 >= len(tab):
                    bad.append(('range', off, k))
                    continue
                for b in range(256):
                    hv = hexval(b)
                    want = (hv << shift) if hv is not None else 0xFFFFFFFF
                    if tab[off + b] != want:
                        bad.append((off, b, hex(tab[off + b]), hex(want)))
            rep.check(not bad, 'E5.hex-table', s['qn'], 'digit_to_val32[off + b] == hex(b) << 4*(3-k) or 0xFFFFFFFF for the four (off, k) = %s, all 256 b' % sorted(pairs), locline(s['loc']),
                      'first mismatches: %s' % bad[:3], facts.config)
            rep.extra['table_rows_checked'] = rep.extra.get('table_rows_checked', 0) + 1024
            pairing = pairing and not bad
    return pairing


def clause_hex_value(facts, rep, f):
    """hex_to_u32_nocheck evaluated (sv/minterp.py, the table read from its initialiser): for four hex digits the result
    is their 16-bit value; if ANY of the four bytes is not a hex digit the result has a bit above bit 15 set - that is
    what lets the callers reject the escape.  Every byte value in every position against three contexts, and all
    four-byte words over a 12-byte alphabet of digits, letters and near-misses."""
    from ..minterp import Interp, Unsupported, UndefinedBehaviour
    import itertools
    base = 0x1000
    bad = None
    n = 0

    def run(word):
        it = Interp(f, facts)
        it.memory = {base + i: b for i, b in enumerate(word)}
        return it.run({f.params[0]['id']: base}, {})[0]
    try:
        words = set()
        for ctx in (b'0000', b'1f9A', b'FFFF'):
            for pos in range(4):
                for b in range(256):
                    w = bytearray(ctx)
                    w[pos] = b
                    words.add(bytes(w))
        alpha = b'019afAFGg /:'
        for w in itertools.product(alpha, repeat=4):
            words.add(bytes(w))
        for w in sorted(words):
            r = run(w)
            n += 1
            hv = [hexval(b) for b in w]
            if all(h is not None for h in hv):
                want = (hv[0] << 12) | (hv[1] << 8) | (hv[2] << 4) | hv[3]
                if r != want:
                    bad = 'digits %r give 0x%x, expected 0x%x' % (w.decode('latin-1'), r, want)
            elif r <= 0xFFFF:
                bad = '%r is not four hex digits but the result 0x%x looks like a code unit (no bit above bit 15 is set)' % (w.decode('latin-1'), r)
            if bad:
                break
    except UndefinedBehaviour as ex:
        bad = 'undefined behaviour: %s' % ex
    except Unsupported as ex:
        raise AnalysisBroken('C05.a: hex_to_u32_nocheck cannot be evaluated: %s' % ex)
    rep.check(bad is None, 'E5.hex-value', f.qn, 'four hex digits -> their value; anything else -> a value above 0xFFFF (%d words evaluated)' % n, f.loc, bad or '', facts.config)
    return bad is None


def clause_b(facts, rep, table_ok):
    fs = [f for f in facts.functions if f.short == 'handle_unicode_codepoint']
    rep.require(len(fs) >= 1, 'C05.b: handle_unicode_codepoint not found')
    if not table_ok:
        return
    # derived from the verified table: four lookups OR-ed: all valid -> [0, 0xFFFF]; any invalid -> 0xFFFFFFFF
    hexset = ISet([(0, 0xFFFF), (0xFFFFFFFF, 0xFFFFFFFF)])
    for f in fs[:1]:
        rep.fn(f)
        pe = PathEnum(f, {'hex_to_u32_nocheck': hexset})
        calls = []

        def on_call(e, env, path):
            if e.get('cname') == 'codepoint_to_utf8':
                v = pe.ev(e['args'][0], env)
                calls.append((e, v, path))

        def on_return(rs, env, path):
            pass
        try:
            pe.run(on_call, on_return)
        except RuntimeError as ex:
            raise AnalysisBroken('C05.b: %s' % ex)
        rep.require(len(calls) >= 2, 'C05.b: only %d paths reach codepoint_to_utf8' % len(calls))
        rep.extra['unicode_paths'] = pe.paths
        for e, v, path in calls:
            npairs = sum(1 for (loc, sense) in path if False)
            desc = ' / '.join('%s:%s' % (l.split(':')[-1], 'T' if s else 'F') for l, s in path if not l.startswith('call:'))
            if v is None:
                # the value-set evaluator does not model this expression: not a verdict on the code
                raise AnalysisBroken('C05.b: value set of the code point handed to codepoint_to_utf8 unknown at %s (path %s): expression form not modelled' % (locline(e['loc']), desc))
            valid = v.inter(0, 0x10FFFF)      # anything larger makes codepoint_to_utf8 return 0 -> rejected (clause c)
            ok = not valid.overlaps(0xD800, 0xDFFF)
            rep.check(ok, 'E3.surrogate', f.qn, 'code point handed to codepoint_to_utf8 on path [%s] is never a surrogate' % desc, locline(e['loc']),
                      'value set %s intersects [0xD800, 0xDFFF]: an unpaired or wrongly ordered surrogate would be encoded' % v, facts.config)
            # a path that combined two escapes must yield a supplementary code point
            two = len([1 for (l, s) in path if s and True]) and any(x.get('k') == 'bin' and x['op'] == '|' for x in walk(strip(e['args'][0]))) if False else None
        # pair paths: the argument expression depends on a second hex value; identify by value-set reasoning:
        # any path on which a second escape was read has passed the "is high surrogate" branch (true edge)
        for e, v, path in calls:
            if v is None:
                continue
            took_pair = sum(1 for (l, s) in path if l == 'call:hex_to_u32_nocheck') >= 2
            if took_pair:
                valid = v.inter(0, 0x10FFFF)
                rep.check(valid.subset_of([(0x10000, 0x10FFFF)]), 'E3.surrogate-pair', f.qn, 'a combined pair encodes a code point in [0x10000, 0x10FFFF]', locline(e['loc']),
                          'value set %s' % v, facts.config)


def clause_pair_value(facts, rep, tier='quick'):
    """the recombination of an escaped surrogate pair, evaluated: with the two hex decodes pinned to a high and a low
    surrogate (path enumeration over singleton value sets), the code point handed to the UTF-8 encoder is exactly
    0x10000 + (hi - 0xD800) * 0x400 + (lo - 0xDC00) - for every single-bit, all-zero and all-one payload of both
    halves (thorough: all 1024 high surrogates).  A range check cannot tell `+ 0x10000` from `| 0x10000`."""
    fs = [f for f in facts.functions if f.short == 'handle_unicode_codepoint']
    rep.require(len(fs) >= 1, 'C05: handle_unicode_codepoint not found')

    class Seq(dict):
        def __init__(self, vals):
            dict.__init__(self)
            self.vals, self.i = list(vals), 0

        def __contains__(self, k):
            return k == 'hex_to_u32_nocheck'

        def __getitem__(self, k):
            v = self.vals[min(self.i, len(self.vals) - 1)]
            self.i += 1
            return ISet([(v, v)])
    pay = sorted(set([0, 0x3FF] + [1 << b for b in range(10)] + [0x3FF ^ (1 << b) for b in range(10)]))
    his = list(range(0x400)) if tier == 'thorough' else pay
    for f in fs[:1]:
        rep.fn(f)
        bad = None
        n = 0
        for h in his:
            for l in pay:
                hi, lo = 0xD800 + h, 0xDC00 + l
                pe = PathEnum(f, Seq([hi, lo]))
                got = []
                try:
                    pe.run(lambda e, env, path: got.append(pe.ev(e['args'][0], env)) if e.get('cname') == 'codepoint_to_utf8' else None, lambda *a: None)
                except RuntimeError as ex:
                    raise AnalysisBroken('C05: pair evaluation: %s' % ex)
                n += 1
                want = 0x10000 + (h << 10) + l
                if len(got) != 1 or got[0] is None or not got[0].subset_of([(want, want)]) or not got[0].overlaps(want, want):
                    bad = '\\u%04X\\u%04X is encoded as %s, the pair denotes U+%X' % (hi, lo, got, want)
                    break
            if bad:
                break
        rep.check(bad is None, 'E5.surrogate-value', f.qn, 'combined code point == 0x10000 + (hi-0xD800)*0x400 + (lo-0xDC00) for %d (high, low) pairs' % n, f.loc, bad or '', facts.config)


def clause_b2(facts, rep):
    """A second escape is only read where one is written: in handle_unicode_codepoint every call of the hex decoder
    after the first one is dominated by BOTH tests "byte 0 is a backslash" and "byte 1 is 'u'" at the current cursor
    (with no cursor movement in between).  `a != '\\' && b != 'u'` rejects only when both are wrong and lets "\\x" or
    "xu" pass as an escape introducer."""
    n = 0
    for f in [x for x in facts.functions if x.short == 'handle_unicode_codepoint'][:1]:
        rep.fn(f)
        hexcalls = [(bid, i, e) for bid, i, s, e in f.walk() if e.get('k') == 'call' and e.get('cname') == 'hex_to_u32_nocheck']
        hexcalls.sort(key=lambda t: (locline(t[2]['loc'])))
        rep.require(len(hexcalls) >= 2, 'C05.b2: second hex decode of handle_unicode_codepoint not found')

        def idx_cmp(c):
            """(index, const) for  <cursor>[index] ==/!= const"""
            c = strip_expect(c)
            if c is None or c.get('k') != 'bin' or c['op'] not in ('==', '!='):
                return None
            for a, b in ((c['l'], c['r']), (c['r'], c['l'])):
                k = cval(b)
                a_ = strip(a)
                if k is not None and a_ is not None and a_.get('k') == 'sub' and cval(a_.get('idx')) is not None:
                    return (cval(a_['idx']), k, c['op'])
            return None

        def gen_edge(b, cond, sense):
            r = idx_cmp(cond)
            if r is None:
                return []
            ix, k, op = r
            equal = (op == '==') == sense
            if equal and ix == 0 and k == 92:
                return ['bs']
            if equal and ix == 1 and k == 117:
                return ['u']
            return []

        def kill_stmt(st):
            # the cursor (*src_ptr) moves
            for y in walk(st):
                if y.get('k') == 'bin' and y['op'] in ('+=', '-=', '=') and strip(y['l']) is not None and strip(y['l']).get('k') == 'un' and strip(y['l'])['op'] == '*':
                    return ['bs', 'u']
                if y.get('k') == 'bin' and y['op'] in ('+=', '-=', '=') and strip(y['l']) is not None and strip(y['l']).get('k') == 'ref' and 'uint8_t *' in (strip(y['l']).get('t') or ''):
                    return ['bs', 'u']
            return []
        M = Must(f, gen_edge=gen_edge, kill_stmt=kill_stmt)
        for bid, i, e in hexcalls[1:]:
            st = M.at(bid, i)
            if st is None:
                continue
            n += 1
            rep.check('bs' in st and 'u' in st, 'E2.escape-introducer', f.qn, show(e)[:60], locline(e['loc']),
                      'the second escape of a surrogate pair is decoded only behind both tests: cursor[0] == backslash and cursor[1] == u (have %s)' % sorted(st), facts.config)
    rep.require(n >= 1, 'C05.b2: no second hex decode analysed')


def eval_utf8(fn, cp):
    """tiny interpreter for codepoint_to_utf8(cp, c): returns (length, bytes)"""
    cpid, cid = fn.params[0]['id'], fn.params[1]['id']
    out = {}

    def ev(e):
        c = cval(e)
        e_ = strip(e)
        if c is not None and e_.get('k') != 'ref':
            return c
        k = e_.get('k')
        if k == 'ref':
            if e_['id'] == cpid:
                return cp
            if c is not None:
                return c
            raise KeyError(e_.get('name'))
        if k == 'bin':
            l, r = ev(e_['l']), ev(e_['r'])
            return {'<=': int(l <= r), '<': int(l < r), '>': int(l > r), '>=': int(l >= r), '>>': l >> r, '&': l & r, '+': l + r, '|': l | r, '-': l - r,
                    '==': int(l == r), '<<': l << r}[e_['op']]
        if k == 'ctor' or k == 'call':
            if e_.get('args') and len(e_['args']) == 1:
                return ev(e_['args'][0])
        raise KeyError(k)

    def ev_t(e):
        # honour uint8_t(...) truncation
        if e.get('k') == 'cast' and e.get('t') in ('uint8_t', 'unsigned char'):
            return ev_t(e['e']) & 0xFF
        if e.get('k') == 'cast':
            return ev_t(e['e'])
        return ev(e)
    b = fn.entry
    for _ in range(100):
        B = fn.blocks[b]
        for s in B['stmts']:
            s_ = strip(s)
            if s_.get('k') == 'ret':
                return ev(s_['e']), out
            if s_.get('k') == 'bin' and s_['op'] == '=':
                l = strip(s_['l'])
                if l.get('k') == 'sub' and strip(l['base']).get('id') == cid:
                    out[cval(l['idx'])] = ev_t(s_['r'])
        t = B.get('term')
        succs = B['succs']
        if t and t.get('cond') is not None and len(succs) == 2:
            b = succs[0] if ev(t['cond']) else succs[1]
        else:
            b = [x for x in succs if x is not None][0]
    raise KeyError('no return')


def clause_c(facts, rep, tier):
    fs = [f for f in facts.functions if f.short == 'codepoint_to_utf8']
    rep.require(len(fs) >= 1, 'C05.c: codepoint_to_utf8 not found')
    for f in fs[:1]:
        rep.fn(f)
        cps = set()
        for b in (0, 0x7F, 0x80, 0x7FF, 0x800, 0xD7FF, 0xE000, 0xFFFF, 0x10000, 0x10FFFF):
            for d in (-1, 0, 1):
                if 0 <= b + d <= 0x10FFFF:
                    cps.add(b + d)
        step = 0x101 if tier == 'quick' else 0x7
        cps.update(range(0, 0x110000, step))
        cps = sorted(c for c in cps if not (0xD800 <= c <= 0xDFFF))
        bad = []
        try:
            for cp in cps:
                n, bs = eval_utf8(f, cp)
                got = bytes(bs[i] for i in range(n)) if all(i in bs for i in range(n)) else None
                if got != chr(cp).encode('utf-8'):
                    bad.append((hex(cp), got, chr(cp).encode('utf-8')))
                    if len(bad) > 3:
                        break
            over = [eval_utf8(f, cp)[0] for cp in (0x110000, 0x1FFFFF, 0xFFFFFFFF, 0xFFFFFC00)]
        except KeyError as ex:
            raise AnalysisBroken('C05.c: codepoint_to_utf8 not evaluable: %s' % ex)
        rep.extra['utf8_code_points_evaluated'] = len(cps)
        rep.check(not bad, 'E5.utf8', f.qn, 'codepoint_to_utf8(cp) == UTF-8(cp) for %d code points (all range boundaries +-1 and every 0x%x-th)' % (len(cps), step), f.loc,
                  'first mismatches %s' % bad[:2], facts.config)
        rep.check(all(x == 0 for x in over), 'E5.utf8', f.qn, 'values above U+10FFFF yield length 0', f.loc, str(over), facts.config)


def clause_d(facts, rep, nss):
    errs = facts.enum_values()
    n = 0
    for f in facts.functions:
        if f.short != 'parseStringInplace' or not any(ns in f.qn for ns in nss):
            continue
        rep.fn(f)

        def gen_edge(b, cond, sense):
            c = strip_expect(cond)
            neg = False
            while c is not None and c.get('k') == 'un' and c['op'] == '!':
                neg = not neg
                c = strip_expect(c['e'])
            out = []
            if c is not None and c.get('k') == 'call':
                if c.get('cname') == 'HasUnescaped' and sense != neg:
                    out.append('unescaped')
                if c.get('cname') == 'handle_unicode_codepoint' and sense == neg:
                    out.append('unicode')
            if c is not None and c.get('k') == 'bin' and c['op'] == '==' and cval(c['r']) == 0 and sense != neg:
                l = strip(c['l'])
                if l.get('k') == 'un' and l['op'] == '*':
                    out.append('mapmiss')
            return out
        M = Must(f, gen_edge=gen_edge)
        want = {errs.get('kParseErrorUnEscaped'): 'unescaped', errs.get('kParseErrorEscapedFormat'): 'mapmiss', errs.get('kParseErrorEscapedUnicode'): 'unicode'}
        seen = set()
        for bid, i, s in f.stmts():
            s_ = strip(s)
            if s_.get('k') == 'bin' and s_['op'] == '=' and strip(s_['l']).get('k') == 'ref' and strip(s_['l']).get('name') == 'err':
                c = cval(s_['r'])
                st = M.at(bid, i)
                if st is None:
                    continue
                n += 1
                tok = want.get(c)
                rep.check(tok is not None and tok in st, 'E2.error-class', f.qn, show(s_), locline(s_['loc']),
                          'the error class must match the condition that detected the fault (unescaped control / unknown escape / bad \\u)', facts.config)
                seen.add(c)
        rep.check(set(want) <= seen, 'E2.error-class', f.qn, 'all three string error classes are raised', f.loc, str(sorted(x for x in seen if x)), facts.config)
        # the escape map is indexed by the byte after the backslash and a 0 entry is the miss
        idx = [e for _, _, _, e in f.walk() if e.get('k') == 'sub' and strip(e['base']).get('k') == 'ref' and strip(e['base']).get('name') == 'kEscapedMap']
        rep.check(len(idx) >= 1, 'E2.error-class', f.qn, 'kEscapedMap lookup present', f.loc, '', facts.config)
    rep.require(n >= 4, 'C05.d: only %d error stores found' % n)


# ---------------------------------------------------------------------------
# (e) control-byte screening dominates every consumption of block bytes

def _is_block_write(s_):
    """statement that (re)computes the StringBlock variable"""
    if s_.get('k') == 'decl':
        return any('StringBlock' in (v.get('t') or '') for v in s_['vars'])
    if s_.get('k') == 'call' and s_.get('cname') == 'operator=':
        a = s_.get('args') or []
        return bool(a) and 'StringBlock' in (strip(a[0]).get('t') or '')
    return False


def _consumes(s_):
    """does the statement move `src` forward or copy source bytes to dst?
    returns a description or None"""
    k = s_.get('k')
    if k == 'bin' and s_['op'] == '+=' and strip(s_['l']).get('k') == 'ref' and strip(s_['l']).get('name') == 'src':
        return 'advance'
    if k == 'un' and s_['op'] in ('++',) and strip(s_['e']).get('k') == 'ref' and strip(s_['e']).get('name') == 'src':
        return 'advance'
    if k == 'bin' and s_['op'] == '=':
        for e in walk(s_['r']):
            if e.get('k') == 'un' and e['op'] == '++' and strip(e['e']).get('k') == 'ref' and strip(e['e']).get('name') == 'src':
                return 'copy'
    if k == 'call' and s_.get('cname') == 'store':
        return 'vector-copy'
    return None


def clause_e(facts, rep, nss):
    n = 0
    for f in facts.functions:
        if f.short != 'parseStringInplace' or not any(ns in f.qn for ns in nss):
            continue
        # the predicate the screening relies on: HasQuoteFirst implies !HasUnescaped (checked by value in clause f)
        def gen_edge(b, cond, sense):
            c = strip_expect(cond)
            neg = False
            while c is not None and c.get('k') == 'un' and c['op'] == '!':
                neg = not neg
                c = strip_expect(c['e'])
            if c is not None and c.get('k') == 'call' and 'StringBlock' in (c.get('ccls') or ''):
                if c.get('cname') == 'HasUnescaped' and sense == neg:
                    return ['screened']
                if c.get('cname') == 'HasQuoteFirst' and sense != neg:
                    return ['screened']
            return []

        def kill_stmt(s):
            s_ = strip(s)
            return ['screened'] if s_ is not None and _is_block_write(s_) else []
        M = Must(f, gen_edge=gen_edge, kill_stmt=kill_stmt)
        sites = 0
        for bid, i, s in f.stmts():
            s_ = strip(s)
            if s_ is None:
                continue
            kind = _consumes(s_)
            if kind is None:
                continue
            st = M.at(bid, i)
            if st is None:
                continue
            sites += 1
            rep.check('screened' in st, 'E2.control-screen', f.qn, '%s: %s' % (kind, show(s_)), locline(s_['loc']),
                      'source bytes are consumed only after the current block was screened for raw control bytes '
                      '(false edge of HasUnescaped() or true edge of HasQuoteFirst() since the block was computed)', facts.config)
        # a successful return must also sit behind a screening
        for bid, i, s in f.stmts():
            s_ = strip(s)
            if s_ is not None and s_.get('k') == 'ret' and cval(s_.get('e')) is None:
                st = M.at(bid, i)
                if st is None:
                    continue
                sites += 1
                rep.check('screened' in st, 'E2.control-screen', f.qn, 'success return %s' % show(s_), locline(s_['loc']),
                          'a literal is accepted only after its last block was screened', facts.config)
        rep.require(sites >= 20, 'C05.e: only %d consumption sites found in %s' % (sites, f.qn))
        n += 1
    rep.require(n >= 1, 'C05.e: parseStringInplace not found')


# ---------------------------------------------------------------------------
# (f) the three block predicates mean "first among quote / backslash / control"

class _Unsup(Exception):
    pass


def _eval_method(facts, fn, fields, depth=0):
    rets = [strip(s) for _, _, s in fn.stmts() if isinstance(s, dict) and strip(s) is not None and strip(s).get('k') == 'ret']
    if len(rets) != 1 or depth > 4:
        raise _Unsup('%s: expected a single return expression' % fn.qn)

    def width(t):
        t = (t or '')
        if t in ('_Bool', 'bool'):
            return 1
        if '64' in t or 'long' in t:
            return 64
        if '16' in t or 'short' in t:
            return 16
        if '8' in t or 'char' in t:
            return 8
        return 32

    def ev(e):
        k = e.get('k')
        if k == 'lit' or (e.get('cv') is not None and k in ('cast', 'lit')):
            return int(e['cv'])
        if k == 'cast':
            v = ev(e['e'])
            if e.get('ck') == 'IntegralToBoolean':
                return 1 if v else 0
            w = width(e.get('t'))
            return v & ((1 << w) - 1)
        if k == 'paren':
            return ev(e['e'])
        if k == 'member' and strip(e.get('base')) is not None and strip(e['base']).get('k') == 'this':
            if e['name'] not in fields:
                raise _Unsup('unknown field %s' % e['name'])
            return fields[e['name']]
        if k == 'un':
            if e['op'] == '!':
                return 0 if ev(e['e']) else 1
            if e['op'] == '~':
                return ~ev(e['e']) & ((1 << width(e.get('t'))) - 1)
            raise _Unsup('unary %s' % e['op'])
        if k == 'bin':
            op = e['op']
            if op == '&&':
                return 1 if (ev(e['l']) and ev(e['r'])) else 0
            if op == '||':
                return 1 if (ev(e['l']) or ev(e['r'])) else 0
            a, b = ev(e['l']), ev(e['r'])
            m = (1 << width(e.get('t'))) - 1
            if op == '-':
                return (a - b) & m
            if op == '+':
                return (a + b) & m
            if op == '&':
                return a & b
            if op == '|':
                return a | b
            if op == '^':
                return a ^ b
            if op in ('==', '!=', '<', '>', '<=', '>='):
                return 1 if {'==': a == b, '!=': a != b, '<': a < b, '>': a > b, '<=': a <= b, '>=': a >= b}[op] else 0
            raise _Unsup('binary %s' % op)
        if k == 'call' and e.get('cid') in facts.by_id and facts.by_id[e['cid']].cls_qn == fn.cls_qn and not e.get('args'):
            return _eval_method(facts, facts.by_id[e['cid']], fields, depth + 1)
        raise _Unsup('expression %s' % show(e)[:60])
    return ev(rets[0]['e'])


def clause_f(facts, rep, nss):
    n = 0
    POS = (0, 1, 2, 15, 30, 31)
    for cls in sorted(set(f.cls_qn for f in facts.functions if f.cls_qn and f.cls_qn.endswith('::StringBlock') and any(ns in f.cls_qn + '::' for ns in nss))):
        ms = {f.short: f for f in facts.functions if f.cls_qn == cls}
        rep.require(all(k in ms for k in ('HasQuoteFirst', 'HasBackslash', 'HasUnescaped')), 'C05.f: StringBlock predicates missing in %s' % cls)
        wide = 32 if 'avx2' in cls else 16
        pos = [p for p in POS if p < wide] + ([wide - 2, wide - 1] if wide < 32 else [])
        pos = sorted(set(pos))
        bad = {k: None for k in ('HasQuoteFirst', 'HasBackslash', 'HasUnescaped')}
        cnt = 0
        try:
            import itertools
            for combo in itertools.product(range(4), repeat=len(pos)):
                bs = q = u = 0
                for p, c in zip(pos, combo):
                    if c == 1:
                        bs |= 1 << p
                    elif c == 2:
                        q |= 1 << p
                    elif c == 3:
                        u |= 1 << p
                fq = min([p for p in pos if q >> p & 1], default=None)
                below = (lambda m: any((m >> p & 1) and (fq is None or p < fq) for p in pos))
                ref = {'HasUnescaped': below(u), 'HasBackslash': below(bs), 'HasQuoteFirst': fq is not None and not below(bs) and not below(u)}
                fields = {'bs_bits': bs, 'quote_bits': q, 'unescaped_bits': u}
                cnt += 1
                for k in bad:
                    if bad[k] is None and bool(_eval_method(facts, ms[k], fields)) != ref[k]:
                        bad[k] = 'bs=%#x quote=%#x ctrl=%#x: expected %s' % (bs, q, u, ref[k])
        except _Unsup as ex:
            raise AnalysisBroken('C05.f: cannot evaluate %s predicates: %s' % (cls, ex))
        for k in sorted(bad):
            rep.check(bad[k] is None, 'E5.block-predicate', ms[k].qn,
                      '%s() == "%s" for all %d placements of quote/backslash/control bits at lanes %s' % (
                          k, {'HasUnescaped': 'a control byte precedes the first quote', 'HasBackslash': 'a backslash precedes the first quote',
                              'HasQuoteFirst': 'a quote exists and neither a backslash nor a control byte precedes it'}[k], cnt, pos),
                      ms[k].loc, bad[k] or '', facts.config)
        n += 1
    rep.require(n >= 1, 'C05.f: StringBlock not found')


# ---------------------------------------------------------------------------
# (g) the three masks are built from the right byte classes, in field order

def _consts_in(e):
    """constant operands of the expression: the outermost constant-evaluated
    sub-expressions (so that -1 is one constant, not the literal 1)"""
    out = []

    def rec(x):
        if isinstance(x, dict):
            if x.get('cv') is not None and x.get('k') in ('lit', 'cast', 'un', 'bin', 'paren'):
                out.append(int(x['cv']))
                return
            for k, v in x.items():
                if k in ('t', 'loc', 'sloc', 'cv'):
                    continue
                rec(v)
        elif isinstance(x, list):
            for y in x:
                rec(y)
    rec(e)
    return out


def _classify_mask_expr(e):
    """recognise the byte class a mask argument selects: ('eq', c) / ('le', c) / None"""
    names = [x.get('cname') for x in walk(e) if x.get('k') in ('call', 'ctor') and x.get('cname')]
    cs = [c for c in _consts_in(e)]
    sc = [c - 256 if c > 127 else c for c in cs]
    if 'operator==' in names or '_mm_cmpeq_epi8' in names:
        if 'operator<=' in names or 'operator<' in names or '_mm_cmplt_epi8' in names:
            return None
        return ('eq', [c for c in cs if c not in (0,)])
    if 'operator<=' in names:
        return ('le', cs)
    if 'operator<' in names:
        return ('lt', cs)
    if '_mm_cmplt_epi8' in names:
        # signed compare: bytes >= 0x80 must be masked off by cmpgt(v, -1)
        if '_mm_cmpgt_epi8' in names and '_mm_and_si128' in names and -1 in sc:
            return ('lt', [c for c in cs if c not in (255,) and c >= 0 and c != -1 and c < 128])
        return ('lt-signed-unguarded', cs)
    return None


def clause_g(facts, rep, nss):
    n = 0
    for f in facts.functions:
        if not any(ns in f.qn for ns in nss):
            continue
        if not (f.short == 'parseStringInplace' or (f.short == 'Find' and (f.cls_qn or '').endswith('::StringBlock'))):
            continue
        for bid, i, s, e in f.walk():
            if e.get('k') not in ('initlist', 'ctor') or 'StringBlock' not in (e.get('t') or ''):
                continue
            args = e.get('args') or e.get('inits') or []
            if len(args) != 3:
                continue
            cl = [_classify_mask_expr(a) for a in args]
            if any(c is None for c in cl):
                raise AnalysisBroken('C05.g: unrecognised mask expression in %s at %s' % (f.qn, locline(e['loc'])))
            n += 1
            want = [('backslash', lambda c: c[0] == 'eq' and 92 in c[1] and 34 not in c[1]),
                    ('quote', lambda c: c[0] == 'eq' and 34 in c[1] and 92 not in c[1]),
                    ('control', lambda c: (c[0] == 'le' and 31 in c[1] and 32 not in c[1]) or (c[0] == 'lt' and 32 in c[1] and 31 not in c[1]))]
            for (nm, pred), c, a in zip(want, cl, args):
                rep.check(pred(c), 'E5.block-class', f.qn, '%s mask: %s' % (nm, show(a)[:90]), locline(e['loc']),
                          'the StringBlock fields are (bs_bits, quote_bits, unescaped_bits) = lanes equal to 0x5c, equal to 0x22, unsigned-below 0x20; got %s' % (c,), facts.config)
    rep.require(n >= 2, 'C05.g: only %d StringBlock constructions found' % n)


def run(rep, tier):
    # the SSE kernel is arch-specific source: it is analysed in the quick tier as well (cheap)
    configs = [('K1', ('::avx2::',)), ('K3', ('::sse::',)), ('K4', ('::avx2::', '::sse::'))]
    for cfg, nss in configs:
        facts = get_facts(cfg)
        rep.unit(facts)
        ok = clause_a(facts, rep)
        clause_b(facts, rep, ok)
        clause_b2(facts, rep)
        clause_pair_value(facts, rep, tier)
        clause_c(facts, rep, tier)
        clause_d(facts, rep, nss)
        clause_e(facts, rep, nss)
        clause_f(facts, rep, nss)
        clause_g(facts, rep, nss)
        # on-demand / lazy keys are decoded only when the skipper reports an escape (shared with C10)
        from . import c10
        c10.clause_escape_flag(facts, rep, nss)
        # 'as an on-demand key': where the key literal ends is decided by the escape scanner (carry hand-over and bit trick)
        c10.clause_escape_carry(facts, rep, nss)
        c10.clause_escaped_bits(facts, rep, tier)
        # ... and the quote / backslash bitmaps the skipper works on carry no bits above the lane count (shared with C15)
        from . import c15 as _c15
        _c15.clause_f(facts, rep)
        _c15.clause_g(facts, rep)
        # 'GetParseError() in {UnEscaped, EscapedFormat, EscapedUnicode}': the class set by the string scanner is kept (shared with C01)
        from . import c01 as _c01
        _c01.clause_first_error(facts, rep)
        from . import c15
        c15.clause_h(facts, rep)      # `v <= 0x1f` of the control-byte screening is an unsigned lane compare
    # the whole in-place decoder, byte by byte, for escapes / closing quotes at every alignment to the vector blocks, and
    # the rejected forms (sv/strdecode.py): 'the outcome never depends on the literal's length or its alignment'
    from .. import strdecode
    for cfg5 in ('K1', 'K3'):
        try:
            strdecode.clause(get_facts(cfg5), rep, tier)
        except AnalysisBroken as ex:
            rep.broken.append(str(ex))
    rep.trust('clang 14 front end and constant evaluator', 'Python str.encode("utf-8") as the RFC 3629 oracle', 'path enumeration is exhaustive for the loop-free handle_unicode_codepoint')
    rep.assumptions += [
        'decides the escape/hex tables, that no path of handle_unicode_codepoint encodes a surrogate or turns a pair into a BMP code point, UTF-8 encoding on boundary and sampled code points, the error classes, that bytes are consumed only behind a control-byte screening of the block they belong to, and the meaning of the StringBlock predicates and masks',
        'E5.string-decode decides the in-place decoder on the enumerated bodies (escapes at every distance 0..2*VEC+1); the simd wrapper operators ==, <= , store are taken by contract (unsigned lane compares, lane-wise store)',
    ]
