"""C01 clause (b): typestate analysis of Parser::parseNumber against the RFC 8259
number DFA.

The function's CFG is interpreted abstractly. Abstract state:
  ts    - state of the RFC 8259 number DFA reached by the bytes the cursor has
          stepped over so far
  cur   - set of byte values the byte under the cursor may have (refined on
          comparison edges, reset when the cursor moves)
  snaps - for locals holding a saved cursor: (ts, cur, moved-since)
  ints  - small abstract integers for locals (concrete | 'pos' | 'digits')
State *sets* are propagated (disjunctive), the domain is finite.
Obligations: every cursor step is a legal DFA transition; every exit that can
report success happens in an accepting DFA state and publishes the cursor.
"""
from ..core import strip, strip_expect, cval, show, walk, locline, is_this_member, AnalysisBroken

PARSER = 'sonic_json::Parser'
ALL = frozenset(range(256))
DIGITS = frozenset(range(48, 58))


def cls_of(b):
    if b == 48:
        return '0'
    if 49 <= b <= 57:
        return '1-9'
    if b == 46:
        return '.'
    if b in (101, 69):
        return 'e'
    if b == 43:
        return '+'
    if b == 45:
        return '-'
    return 'other'


DFA = {
    ('START', '-'): 'SIGN', ('START', '0'): 'ZERO', ('START', '1-9'): 'INT',
    ('SIGN', '0'): 'ZERO', ('SIGN', '1-9'): 'INT',
    ('INT', '0'): 'INT', ('INT', '1-9'): 'INT', ('INT', '.'): 'DOT', ('INT', 'e'): 'E',
    ('ZERO', '.'): 'DOT', ('ZERO', 'e'): 'E',
    ('DOT', '0'): 'FRAC', ('DOT', '1-9'): 'FRAC',
    ('FRAC', '0'): 'FRAC', ('FRAC', '1-9'): 'FRAC', ('FRAC', 'e'): 'E',
    ('E', '+'): 'ESIGN', ('E', '-'): 'ESIGN', ('E', '0'): 'EXP', ('E', '1-9'): 'EXP',
    ('ESIGN', '0'): 'EXP', ('ESIGN', '1-9'): 'EXP',
    ('EXP', '0'): 'EXP', ('EXP', '1-9'): 'EXP',
}
ACCEPT = {'ZERO', 'INT', 'FRAC', 'EXP'}


class Unmodelled(Exception):
    pass


class St:
    __slots__ = ('ts', 'cur', 'snaps', 'ints')

    def __init__(self, ts, cur, snaps=(), ints=()):
        self.ts, self.cur, self.snaps, self.ints = ts, cur, snaps, ints

    def key(self):
        return (self.ts, self.cur, self.snaps, self.ints)

    def with_(self, **kw):
        s = St(self.ts, self.cur, self.snaps, self.ints)
        for k, v in kw.items():
            setattr(s, k, v)
        return s

    def snap(self, var):
        for v, ts, cur, moved in self.snaps:
            if v == var:
                return (ts, cur, moved)
        return None

    def set_snap(self, var, ts, cur, moved):
        sn = tuple(x for x in self.snaps if x[0] != var) + ((var, ts, cur, moved),)
        return self.with_(snaps=tuple(sorted(sn, key=lambda x: x[0])))

    def moved_all(self, digit=False):
        def upd(m):
            if digit and m in (False, 'digits'):
                return 'digits'
            return True
        return self.with_(snaps=tuple((v, ts, cur, upd(m)) for v, ts, cur, m in self.snaps))

    def int_(self, var):
        for v, a in self.ints:
            if v == var:
                return a
        return None

    def set_int(self, var, a):
        if isinstance(a, int) and not isinstance(a, bool) and a not in (0, 1):
            a = 'pos' if a > 1 else None
        it = tuple(x for x in self.ints if x[0] != var)
        if a is not None:
            it = it + ((var, a),)
        return self.with_(ints=tuple(sorted(it, key=lambda x: x[0])))


class NumberTypestate:
    def __init__(self, f, facts, rep, digit_preds, digit_runs, digit_counters):
        self.f = f
        self.facts = facts
        self.rep = rep
        self.digit_preds = digit_preds        # callee ids: bool(char) == isdigit
        self.digit_runs = digit_runs          # callee ids: advance the by-ref cursor over [0-9]*
        self.digit_counters = digit_counters  # callee names: second by-ref arg := number of leading digits
        self.bind()

    def bind(self):
        f = self.f
        # cursor: the local stored to pos_ ; buffer: the local pointer initialised from json_buf_
        cur_ids = {}
        for bid, i, s, e in f.walk():
            if e.get('k') == 'bin' and e['op'] == '=' and is_this_member(e['l'], 'pos_'):
                r = strip(e['r'])
                if r.get('k') == 'ref' and r.get('dk') == 'local':
                    cur_ids[r['id']] = r['name']
        if len(cur_ids) != 1:
            raise Unmodelled('cursor variable not uniquely bound: %s' % cur_ids)
        self.cursor = list(cur_ids)[0]
        self.cursor_name = cur_ids[self.cursor]
        self.buf = None
        for bid, i, s in f.stmts():
            s_ = strip(s)
            if s_.get('k') == 'decl':
                for v in s_['vars']:
                    if v.get('init') is not None and '*' in v['t']:
                        if any(is_this_member(x, 'json_buf_') for x in walk(v['init']) if x.get('k') == 'member'):
                            self.buf = v['id']
        if self.buf is None:
            raise Unmodelled('buffer pointer local not bound')

    # -- helpers
    def is_cur_byte(self, e):
        """e is  s[i]"""
        e = strip(e)
        if e is None or e.get('k') != 'sub':
            return False
        b, ix = strip(e['base']), strip(e['idx'])
        return b.get('k') == 'ref' and b.get('id') == self.buf and ix.get('k') == 'ref' and ix.get('id') == self.cursor

    def mentions_cursor_write(self, e):
        return False

    def step(self, st, byteset, where, what):
        """advance the cursor over one byte from byteset; returns list of states"""
        out = {}
        for c in sorted(set(cls_of(b) for b in byteset)):
            nt = DFA.get((st.ts, c))
            if nt is None:
                self.rep.fail('E6.number', self.f.qn, 'cursor steps over %s in DFA state %s (%s)' % (
                    {'other': 'a non-number byte'}.get(c, repr(c)), st.ts, what), where,
                    'RFC 8259 number grammar has no such transition', self.facts.config)
                continue
            out[nt] = c in ('0', '1-9')
        self.step_sites.add(where)
        self.steps = len(self.step_sites)
        return [st.with_(ts=nt, cur=ALL).moved_all(dig) for nt, dig in out.items()]

    def digit_run(self, st, maximal, where, what):
        """zero or more digit steps; returns list of exit states"""
        res = {}
        seen = set()
        work = [(st, False)]
        while work:
            s, moved = work.pop()
            k = (s.key(), moved)
            if k in seen:
                continue
            seen.add(k)
            # exit here
            ex = s
            if maximal:
                ex = s.with_(cur=s.cur - DIGITS)
                if ex.cur:
                    res[ex.key()] = ex
            else:
                res[ex.key()] = ex
            d = s.cur & DIGITS
            if d:
                for n in self.step(s.with_(cur=d), d, where, what):
                    work.append((n, True))
        return list(res.values())

    def refine(self, st, cond, sense):
        """returns refined state or None if infeasible"""
        c = strip_expect(cond)
        if c is None:
            return st
        while c.get('k') == 'un' and c['op'] == '!':
            sense = not sense
            c = strip_expect(c['e'])
        k = c.get('k')
        if k == 'bin' and c['op'] in ('||', '&&'):
            disj = (c['op'] == '||') == sense
            if disj:
                # a || b true  /  a && b false : union of the two cases
                a = self.refine(st, c['l'], sense)
                b = self.refine(st, c['r'], sense)
                if a is None:
                    return b
                if b is None:
                    return a
                if a.snaps == b.snaps and a.ints == b.ints and a.ts == b.ts:
                    return a.with_(cur=a.cur | b.cur)
                return st
            a = self.refine(st, c['l'], sense)
            if a is None:
                return None
            return self.refine(a, c['r'], sense)
        if k == 'bin' and c['op'] in ('==', '!=', '<', '>', '<=', '>='):
            l, r = c['l'], c['r']
            op = c['op']
            if self.is_cur_byte(r) and cval(l) is not None:
                l, r = r, l
                op = {'<': '>', '>': '<', '<=': '>=', '>=': '<=', '==': '==', '!=': '!='}[op]
            if self.is_cur_byte(l) and cval(r) is not None:
                v = cval(r)
                # chars are compared as (signed) char promoted to int: for the ASCII constants used the
                # ordering on bytes 0..127 is what matters; bytes >= 128 are negative chars
                def sval(b):
                    return b - 256 if b >= 128 else b
                test = {'==': lambda b: sval(b) == v, '!=': lambda b: sval(b) != v, '<': lambda b: sval(b) < v,
                        '>': lambda b: sval(b) > v, '<=': lambda b: sval(b) <= v, '>=': lambda b: sval(b) >= v}[op]
                keep = frozenset(b for b in st.cur if test(b) == sense)
                return st.with_(cur=keep) if keep else None
            # abstract ints:  v == 0, v > 19 ...
            ls = strip(l)
            if ls.get('k') == 'ref' and cval(r) is not None and st.int_(ls.get('id')) is not None:
                a = st.int_(ls['id'])
                v = cval(r)
                if isinstance(a, int):
                    res = {'==': a == v, '!=': a != v, '<': a < v, '>': a > v, '<=': a <= v, '>=': a >= v}[op]
                    return st if res == sense else None
                if a == 'pos':
                    if op == '==' and v <= 0:
                        return None if sense else st
                    if op == '!=' and v <= 0:
                        return st if sense else None
                    if op == '>' and v <= 0:
                        return st if sense else None
                    if op == '<=' and v <= 0:
                        return None if sense else st
                return st
            return st
        if k == 'call' and c.get('cid') in self.digit_preds and c.get('args') and self.is_cur_byte(c['args'][0]):
            keep = (st.cur & DIGITS) if sense else (st.cur - DIGITS)
            return st.with_(cur=keep) if keep else None
        if k == 'ref' and st.int_(c.get('id')) is not None and isinstance(st.int_(c['id']), int):
            return st if (bool(st.int_(c['id'])) == sense) else None
        return st

    def abs_int(self, st, e):
        e = strip(e)
        if e is None:
            return None
        c = cval(e)
        if c is not None:
            return c
        if e.get('k') == 'ref' and e.get('dk') == 'local':
            return st.int_(e['id'])
        if e.get('k') == 'bin' and e['op'] == '-':
            l, r = strip(e['l']), strip(e['r'])
            if l.get('k') == 'ref' and l.get('id') == self.cursor and r.get('k') == 'ref':
                sn = st.snap(r['id'])
                if sn is not None:
                    return 'pos' if sn[2] else 0
        if e.get('k') == 'bin' and e['op'] == '==' and self.is_cur_byte(e['l']) and cval(e['r']) is not None:
            v = cval(e['r'])
            if st.cur == frozenset([v]):
                return 1
            if v not in st.cur:
                return 0
        return None

    def exec_stmt(self, st, s, where):
        """returns list of successor states (may fork); raises Unmodelled"""
        s_ = strip(s)
        if s_ is None:
            return [st]
        k = s_.get('k')
        if k == 'decl':
            outs = [st]
            for v in s_['vars']:
                init = v.get('init')
                nxt = []
                for x in outs:
                    nxt += self.exec_init(x, v, init, where)
                outs = nxt
            return outs
        if k == 'ret':
            return [st]
        # cursor modification?
        if k == 'un' and s_['op'] in ('++', '--'):
            t = strip(s_['e'])
            if t.get('k') == 'ref' and t.get('id') == self.cursor:
                if s_['op'] == '--':
                    raise Unmodelled('cursor decrement at %s' % where)
                return self.step(st, st.cur, where, show(s_))
            if t.get('k') == 'ref' and t.get('dk') == 'local':
                a = st.int_(t['id'])
                return [st.set_int(t['id'], (a + 1) if isinstance(a, int) and s_['op'] == '++' else None)]
            return [st]
        if k == 'bin' and s_['op'] in ('=', '+=', '-=', '*=', '/='):
            lhs = strip(s_['l'])
            if lhs.get('k') == 'ref' and lhs.get('id') == self.cursor:
                if s_['op'] == '=':
                    r = strip(s_['r'])
                    if r.get('k') == 'ref' and st.snap(r.get('id')) is not None:
                        ts, cur, moved = st.snap(r['id'])
                        if moved == 'digits':
                            # only digits were stepped over since the snapshot: the byte there is a digit
                            cur = cur & DIGITS
                        return [st.with_(ts=ts, cur=cur).set_snap(r['id'], ts, cur, False)]
                    raise Unmodelled('cursor assigned from %s at %s' % (show(s_['r']), where))
                if s_['op'] == '+=':
                    a = self.abs_int(st, s_['r'])
                    if a == 0:
                        return [st]
                    if a == 1:
                        return self.step(st, st.cur, where, show(s_))
                    if a == 'digits':
                        return self.digit_run(st, False, where, show(s_))
                    raise Unmodelled('cursor advanced by %s at %s' % (show(s_['r']), where))
                raise Unmodelled('cursor updated by %s at %s' % (show(s_), where))
            if lhs.get('k') == 'ref' and lhs.get('dk') == 'local':
                if s_['op'] == '=':
                    r = strip(s_['r'])
                    if r.get('k') == 'ref' and r.get('id') == self.cursor:
                        return [st.set_snap(lhs['id'], st.ts, st.cur, False)]
                    # calls that move the cursor inside the rhs
                    moved = self.calls_in(st, s_['r'], where)
                    outs = []
                    for x in moved:
                        outs.append(x.set_int(lhs['id'], self.abs_int(x, s_['r'])))
                    return outs
                return [st.set_int(lhs['id'], None)]
            # member stores etc: rhs may contain cursor-moving calls
            return self.calls_in(st, s_['r'], where)
        return self.calls_in(st, s_, where)

    def exec_init(self, st, v, init, where):
        if init is None:
            return [st]
        r = strip(init)
        if r is not None and r.get('k') == 'ref' and r.get('id') == self.cursor:
            return [st.set_snap(v['id'], st.ts, st.cur, False)]
        # bool neg = (s[i] == '-')  : fork on the byte
        if r is not None and r.get('k') == 'bin' and r['op'] == '==' and self.is_cur_byte(r['l']) and cval(r['r']) is not None:
            c = cval(r['r'])
            outs = []
            if c in st.cur:
                outs.append(st.with_(cur=frozenset([c])).set_int(v['id'], 1))
            rest = st.cur - {c}
            if rest:
                outs.append(st.with_(cur=rest).set_int(v['id'], 0))
            return outs
        outs = []
        for x in self.calls_in(st, init, where):
            outs.append(x.set_int(v['id'], self.abs_int(x, init)))
        return outs

    def calls_in(self, st, e, where):
        """effects of calls inside expression e on the cursor"""
        outs = [st]
        for c in walk(e):
            if c.get('k') != 'call':
                continue
            args = c.get('args', [])
            by_ref_cursor = [a for a in args if strip(a) is not None and strip(a).get('k') == 'ref' and strip(a).get('id') == self.cursor and a.get('k') != 'cast']
            if c.get('cid') in self.digit_runs and by_ref_cursor:
                nxt = []
                for x in outs:
                    nxt += self.digit_run(x, True, where, show(c))
                outs = nxt
                continue
            if c.get('cname') in self.digit_counters and len(args) >= 2:
                cnt = strip(args[1])
                if cnt.get('k') == 'ref' and cnt.get('dk') == 'local':
                    outs = [x.set_int(cnt['id'], 'digits') for x in outs]
                    continue
            if by_ref_cursor and c.get('cname') != '__builtin_expect':
                # the cursor is passed as an lvalue to an unknown callee
                pt = None
                raise Unmodelled('cursor passed to %s at %s' % (c.get('cname'), where))
        return outs

    def run(self):
        f = self.f
        self.steps = 0
        self.step_sites = set()
        seen = {}
        s0 = St('START', ALL)
        work = [(f.entry, s0)]
        seen.setdefault(f.entry, set()).add(s0.key())
        iters = 0
        while work:
            iters += 1
            if iters > 200000:
                raise Unmodelled('no fixpoint')
            b, st0 = work.pop()
            B = f.blocks[b]
            states = [st0]
            for i, s in enumerate(B['stmts']):
                s_ = strip(s)
                where = locline(s_.get('loc', '?')) if s_ else '?'
                if s_ is not None and s_.get('k') == 'ret':
                    for x in states:
                        self.at_return(x, b, i, s_)
                    states = []
                    break
                nxt = {}
                for x in states:
                    for y in self.exec_stmt(x, s, where):
                        nxt[y.key()] = y
                states = list(nxt.values())
            if not states:
                continue
            t = B.get('term')
            succs = B['succs']
            if t and t.get('cond') is not None and t['cls'] != 'SwitchStmt' and len(succs) == 2:
                where = locline(t['loc'])
                pre = {}
                for x in states:
                    for y in self.calls_in(x, t['cond'], where):
                        pre[y.key()] = y
                for sx, sense in ((succs[0], True), (succs[1], False)):
                    if sx is None:
                        continue
                    for x in pre.values():
                        y = self.refine(x, t['cond'], sense)
                        if y is not None:
                            self.flow(seen, work, sx, y)
            else:
                for sx in succs:
                    if sx is not None:
                        for x in states:
                            self.flow(seen, work, sx, x)
        self.nstates = sum(len(v) for v in seen.values())
        return self.steps

    def flow(self, seen, work, b, st):
        d = seen.setdefault(b, set())
        k = st.key()
        if k not in d:
            d.add(k)
            work.append((b, st))

    def at_return(self, st, b, i, rs):
        """classify the exit by looking back in the block for the stores to err_ and pos_"""
        B = self.f.blocks[b]
        err = 'unknown'
        pos_ok = None
        for s in B['stmts'][:i]:
            s_ = strip(s)
            if s_.get('k') == 'bin' and s_['op'] == '=':
                if is_this_member(s_['l'], 'err_'):
                    c = cval(s_['r'])
                    err = 'none' if c == 0 else ('error' if c is not None else 'variable')
                if is_this_member(s_['l'], 'pos_'):
                    r = strip(s_['r'])
                    pos_ok = (r.get('k') == 'ref' and r.get('id') == self.cursor)
        where = locline(rs['loc'])
        if err == 'error':
            return
        if err == 'unknown':
            # return without an error-field store in the same block: cannot classify
            raise Unmodelled('return at %s without a visible error-field store' % where)
        if (where, st.ts, bool(pos_ok)) in self.exits_seen:
            return
        self.exits_seen.add((where, st.ts, bool(pos_ok)))
        self.exits.add((where, st.ts))
        if st.ts not in ACCEPT:
            self.rep.fail('E6.number', self.f.qn, 'success exit in DFA state %s' % st.ts, where,
                          'a number may end only after a digit (states %s)' % sorted(ACCEPT), self.facts.config)
        else:
            self.rep.ok('E6.number', '%s: success exit in accepting state %s' % (self.f.qn, st.ts), where)
        if not pos_ok:
            self.rep.fail('E6.number', self.f.qn, 'success exit does not publish the cursor', where,
                          'pos_ must be set to the scan cursor', self.facts.config)


def verify_digit_pred(fn, facts):
    """brute-force evaluate a pure char predicate over all 256 byte values with a tiny
    interpreter of its CFG; True iff it is exactly isdigit on signed char"""
    pid = fn.params[0]['id']
    for b in range(256):
        v = b - 256 if b >= 128 else b
        r = eval_pure(fn, {pid: v})
        if r is None:
            return None
        if bool(r) != (48 <= b <= 57):
            return False
    return True


def eval_pure(fn, env, fuel=200):
    """value of a small pure function on concrete arguments: the general CFG interpreter first (any expression form),
    the original mini-evaluator as a fallback"""
    try:
        from ..minterp import Interp, Unsupported as _U, UndefinedBehaviour as _UB
        try:
            r_ = Interp(fn, getattr(fn, 'facts', None), max_steps=max(2000, fuel * 10)).run(dict(env), {})[0]
            if r_ is not None:
                return r_
        except (_U, _UB):
            pass
    except ImportError:
        pass
    return _eval_pure_small(fn, env, fuel)


def _eval_pure_small(fn, env, fuel=200):
    def ev(e):
        c = cval(e)
        if c is not None and strip(e).get('k') != 'ref':
            return c
        e = strip(e)
        k = e.get('k')
        if k == 'ref':
            if e['id'] in env:
                return env[e['id']]
            c = cval(e)
            if c is not None:
                return c
            raise Unmodelled('ref')
        if k == 'lit':
            return int(e['v'])
        if k == 'bin':
            op = e['op']
            l = ev(e['l'])
            r = ev(e['r'])
            return {'<=': lambda: int(l <= r), '<': lambda: int(l < r), '>=': lambda: int(l >= r), '>': lambda: int(l > r),
                    '==': lambda: int(l == r), '!=': lambda: int(l != r), '-': lambda: l - r, '+': lambda: l + r,
                    '&&': lambda: int(bool(l) and bool(r)), '||': lambda: int(bool(l) or bool(r))}[op]()
        if k == 'un' and e['op'] == '!':
            return int(not ev(e['e']))
        raise Unmodelled(k)

    def ev_cast(e):
        # honour integral truncation to uint8_t
        if e.get('k') == 'cast' and e.get('t') in ('uint8_t', 'unsigned char') and e.get('ck') in ('IntegralCast', 'NoOp'):
            return ev_cast(e['e']) & 0xff
        if e.get('k') == 'cast':
            return ev_cast(e['e'])
        if e.get('k') == 'bin' and e['op'] in ('-', '+', '<', '>', '<=', '>=', '==', '!='):
            l, r = ev_cast(e['l']), ev_cast(e['r'])
            return {'-': l - r, '+': l + r, '<': int(l < r), '>': int(l > r), '<=': int(l <= r), '>=': int(l >= r),
                    '==': int(l == r), '!=': int(l != r)}[e['op']]
        return ev(e)
    try:
        b = fn.entry
        while fuel > 0:
            fuel -= 1
            B = fn.blocks[b]
            for s in B['stmts']:
                s_ = strip(s)
                if s_.get('k') == 'ret':
                    return ev_cast(s_['e'])
                if s_.get('k') == 'decl':
                    for v in s_['vars']:
                        if v.get('init') is not None:
                            env[v['id']] = ev_cast(v['init'])
                    continue
                if s_.get('k') == 'bin' and s_['op'] == '=':
                    continue   # stores to by-ref accumulators do not influence the predicate value
            t = B.get('term')
            succs = B['succs']
            if t and t.get('cond') is not None and len(succs) == 2:
                b = succs[0] if ev_cast(t['cond']) else succs[1]
            elif succs:
                b = [x for x in succs if x is not None][0]
            else:
                return None
            if b == fn.exit:
                return None
    except (Unmodelled, KeyError, TypeError):
        return None
    return None


def check(facts, rep):
    fns = [f for f in facts.functions if f.cls_qn == PARSER and f.short == 'parseNumber']
    rep.require(len(fns) >= 1, 'C01.b: parseNumber not found')
    # digit predicates: verified exhaustively over the byte domain
    preds = {}
    for f in facts.functions:
        if f.short in ('is_digit', 'carry_one') and f.params and f.d.get('ret_t') in ('_Bool', 'bool'):
            ok = verify_digit_pred(f, facts)
            rep.fn(f)
            if ok is None:
                rep.require(False, 'C01.b: digit predicate %s could not be evaluated' % f.name)
                continue
            rep.check(ok, 'E5.digit-pred', f.qn, 'true exactly on bytes 0x30..0x39 (all 256 byte values evaluated)', f.loc,
                      'digit predicate must accept exactly the ASCII digits', facts.config)
            if ok:
                preds[f.id] = f
    # digit-run helpers: while (P(s[i], ..)) i++ ; with P a verified predicate and i the by-ref parameter
    runs = {}
    for f in facts.functions:
        if f.cls_qn == PARSER and f.short == 'str2int':
            rep.fn(f)
            ok = verify_digit_run(f, preds)
            rep.check(ok, 'E2.digit-run', f.qn, 'advances its cursor parameter only over bytes accepted by a verified digit predicate', f.loc,
                      'str2int must consume exactly a maximal run of digits', facts.config)
            if ok:
                runs[f.id] = f
    rep.require(len(preds) >= 2 and len(runs) >= 1, 'C01.b: digit helpers not bound (preds=%d runs=%d)' % (len(preds), len(runs)))
    seen_names = set()
    for f in fns:
        if 'SchemaHandler' in f.name or f.name in seen_names:
            continue
        seen_names.add(f.name)
        rep.fn(f)
        try:
            nt = NumberTypestate(f, facts, rep, set(preds), set(runs), {'simd_str2int'})
            nt.exits = set()
            nt.exits_seen = set()
            steps = nt.run()
        except Unmodelled as ex:
            raise AnalysisBroken('C01.b: parseNumber typestate: %s' % ex)
        rep.require(len(nt.exits) >= 5 and steps >= 10, 'C01.b: %s: only %d success exits / %d cursor steps analysed' % (f.name, len(nt.exits), steps))
        rep.extra.setdefault('number_typestate', {})[f.name.split('<')[0] + '@' + facts.config] = dict(
            success_exits=len(nt.exits), cursor_steps=steps, exit_states=sorted(set(ts for _, ts in nt.exits)))


def verify_digit_run(f, preds):
    if len(f.params) < 2:
        return False
    cur = None
    for p in f.params:
        if '&' in p['t'] and 'const' not in p['t']:
            cur = p['id']
    if cur is None:
        return False
    from ..e2_dom import Must

    def gen_edge(b, cond, sense):
        c = strip_expect(cond)
        if c is not None and c.get('k') == 'call' and c.get('cid') in preds and sense:
            a0 = strip(c['args'][0])
            if a0.get('k') == 'sub' and strip(a0['idx']).get('k') == 'ref' and strip(a0['idx']).get('id') == cur:
                return ['digit']
        return []

    def kill_stmt(s):
        for e in walk(s):
            if e.get('k') == 'un' and e['op'] in ('++', '--') and strip(e['e']).get('id') == cur:
                return ['digit']
        return []
    M = Must(f, gen_edge=gen_edge, kill_stmt=kill_stmt)
    n = 0
    for bid, i, s, e in f.walk():
        if e.get('k') == 'un' and e['op'] == '++' and strip(e['e']).get('id') == cur:
            n += 1
            st = M.at(bid, i) or frozenset()
            if 'digit' not in st:
                return False
        elif e.get('k') == 'bin' and e['op'] in ('=', '+=', '-=') and strip(e['l']).get('k') == 'ref' and strip(e['l']).get('id') == cur:
            return False
    return n == 1
