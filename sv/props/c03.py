"""C03 — A successful Parse yields exactly the value the text denotes: clauses
(a) canonical SAX transduction (E6 outputs), (b) type-flag algebra, (c) length
packing shifts (DESIGN.md section 5/C03)."""
from ..core import get_facts, strip, cval, show, walk, locline, AnalysisBroken
from . import c01

BASIC = ['kNull', 'kBool', 'kNumber', 'kString', 'kRaw', 'kObject', 'kArray']
SUB = {'kFalse': 'kBool', 'kTrue': 'kBool', 'kUint': 'kNumber', 'kSint': 'kNumber', 'kReal': 'kNumber',
       'kStringCopy': 'kString', 'kStringFree': 'kString', 'kStringConst': 'kString'}


def enum_values(facts):
    return facts.enum_values()


def clause_b(facts, rep):
    v = enum_values(facts)
    need = BASIC + list(SUB) + ['kBasicTypeMask', 'kSubTypeMask', 'kInfoBits', 'kTotalTypeBits', 'kContainerMask']
    missing = [n for n in need if n not in v]
    rep.require(not missing, 'C03.b: enum constants not referenced anywhere in the analysed code: %s' % missing)
    if missing:
        return
    loc = 'include/sonic/dom/type.h'
    fn = 'sonic_json::TypeFlag'
    bm = v['kBasicTypeMask']
    rep.check(bm == 7, 'E5.typeflag', fn, 'kBasicTypeMask == 0x7', loc, 'basic types live in 3 bits', facts.config)
    bv = [v[n] for n in BASIC]
    rep.check(len(set(bv)) == len(bv) and all(0 <= x <= bm for x in bv), 'E5.typeflag', fn, 'basic types pairwise distinct within the mask', loc,
              str(dict(zip(BASIC, bv))), facts.config)
    for s, b in SUB.items():
        rep.check((v[s] & bm) == v[b], 'E5.typeflag', fn, '%s & kBasicTypeMask == %s' % (s, b), loc, '%d & %d vs %d' % (v[s], bm, v[b]), facts.config)
    subs = sorted(SUB)
    rep.check(len(set(v[s] for s in subs)) == len(subs), 'E5.typeflag', fn, 'sub-types pairwise distinct', loc, str({s: v[s] for s in subs}), facts.config)
    rep.check(all((v[s] & v['kSubTypeMask']) == v[s] for s in list(SUB) + BASIC), 'E5.typeflag', fn, 'kSubTypeMask covers every type value', loc,
              'mask %d' % v['kSubTypeMask'], facts.config)
    cm = v['kContainerMask']
    sel = sorted(n for n in BASIC + list(SUB) if (v[n] & cm) == cm)
    rep.check(sel == ['kArray', 'kObject'], 'E5.typeflag', fn, 'kContainerMask selects exactly {kObject, kArray}', loc, str(sel), facts.config)
    rep.check(v['kInfoBits'] == v['kTotalTypeBits'] == 8 and all(v[s] < (1 << v['kInfoBits']) for s in list(SUB) + BASIC), 'E5.typeflag', fn,
              'kInfoBits == kTotalTypeBits == 8 and every type fits', loc, '', facts.config)


def clause_c(facts, rep):
    """every shift that packs / unpacks the length uses the info width"""
    v = enum_values(facts)
    bits = v.get('kInfoBits')
    n = 0
    seen = set()
    for f in facts.functions:
        if f.cls_qn != 'sonic_json::GenericNode' or f.short not in ('setLength', 'addLength', 'subLength', 'Size', 'getLength'):
            continue
        for bid, i, s, e in f.walk():
            if e.get('k') == 'bin' and e['op'] in ('<<', '>>'):
                key = (f.qn, f.short, locline(e['loc']))
                if key in seen:
                    continue
                seen.add(key)
                rep.fn(f)
                n += 1
                rep.check(cval(e['r']) == bits, 'E5.length-shift', f.qn, show(e), locline(e['loc']),
                          'length is stored above the %s info bits' % bits, facts.config)
    rep.require(n >= 5, 'C03.c: only %d length shifts found' % n)


class NodeWord(dict):
    """the first 8 bytes of a node seen through every alternative of its union (sv.len / o.len / a.len / raw.len / n.t
    are one word, t.t is its low byte): member state for interpreting the length / type accessors"""
    WORD = ('sv.len', 'o.len', 'a.len', 'raw.len', 'n.t')

    def _norm(self, k):
        return 'W' if k in self.WORD else k

    def __contains__(self, k):
        if k == 't.t':
            return dict.__contains__(self, 'W')
        return dict.__contains__(self, self._norm(k))

    def __getitem__(self, k):
        if k == 't.t':
            return dict.__getitem__(self, 'W') & 0xff
        return dict.__getitem__(self, self._norm(k))

    def get(self, k, d=None):
        return self[k] if k in self else d

    def __setitem__(self, k, v):
        if k == 't.t':
            dict.__setitem__(self, 'W', (dict.get(self, 'W', 0) & ~0xff) | (v & 0xff))
            return
        dict.__setitem__(self, self._norm(k), v)

    def copy(self):
        n = NodeWord()
        dict.update(n, self)
        return n


def clause_length_pack(facts, rep):
    """the length / type word of a node, by evaluation (sv/minterp.py on the union word): after setLength(L, t) the node
    reports Size() == L and GetType() == t; setLength(L) keeps the type; addLength / subLength move Size() by exactly
    their argument and keep the type - for lengths 0, 1, 255, 256, 2^32, 2^56 - 1 and every container / string tag."""
    from ..minterp import Interp, Unsupported, UndefinedBehaviour
    tags = {}
    for en in facts.enums:
        if en.get('qn', '').endswith('TypeFlag') or en.get('name') == 'TypeFlag':
            for c in en.get('consts', en.get('values', [])):
                tags[c['name']] = int(c['value'] if 'value' in c else c['v'])
    fs = {}
    for fn in facts.functions:
        if fn.cls_qn == 'sonic_json::GenericNode' and fn.blocks and 'SAlloc' not in fn.name and 'SimpleAllocator' not in fn.name:
            fs.setdefault((fn.short, len(fn.params)), fn)
    need = [('setLength', 2), ('setLength', 1), ('addLength', 1), ('subLength', 1), ('Size', 0), ('GetType', 0)]
    rep.require(all(k in fs for k in need) and 'kObject' in tags, 'C03.pack: length / type accessors of GenericNode not all found: %s' % [k for k in need if k not in fs])
    if not all(k in fs for k in need):
        return

    def call(name, n, mem, *args):
        fn = fs[(name, n)]
        r = Interp(fn, facts).run({p['id']: v for p, v in zip(fn.params, args)}, mem)
        return r[0], r[2]
    for k in need:
        rep.fn(fs[k])
    bad = None
    cnt = 0
    try:
        for tn in ('kObject', 'kArray', 'kStringCopy', 'kStringFree', 'kStringConst', 'kRaw'):
            if tn not in tags:
                continue
            t = tags[tn]
            for L in (0, 1, 255, 256, 1 << 32, (1 << 56) - 1):
                _, mem = call('setLength', 2, NodeWord(), L, t)
                cnt += 1
                if call('Size', 0, mem)[0] != L or call('GetType', 0, mem)[0] != t:
                    bad = 'after setLength(%d, %s): Size() = %s, GetType() = %s' % (L, tn, call('Size', 0, mem)[0], call('GetType', 0, mem)[0])
                    break
                for L2 in (0, 7, (1 << 40) + 1):
                    _, m2 = call('setLength', 1, mem, L2)
                    if call('Size', 0, m2)[0] != L2 or call('GetType', 0, m2)[0] != t:
                        bad = 'setLength(%d) on a %s of length %d: Size() = %s, GetType() = %s' % (L2, tn, L, call('Size', 0, m2)[0], call('GetType', 0, m2)[0])
                if L <= (1 << 32):
                    _, m3 = call('addLength', 1, mem, 3)
                    if call('Size', 0, m3)[0] != L + 3 or call('GetType', 0, m3)[0] != t:
                        bad = 'addLength(3) on a %s of length %d: Size() = %s, GetType() = %s' % (tn, L, call('Size', 0, m3)[0], call('GetType', 0, m3)[0])
                    _, m4 = call('subLength', 1, m3, 2)
                    if call('Size', 0, m4)[0] != L + 1 or call('GetType', 0, m4)[0] != t:
                        bad = 'subLength(2) after addLength(3) on a %s of length %d: Size() = %s' % (tn, L, call('Size', 0, m4)[0])
                if bad:
                    break
            if bad:
                break
    except UndefinedBehaviour as ex:
        bad = 'undefined behaviour: %s' % ex
    except Unsupported as ex:
        raise AnalysisBroken('C03.pack: the length accessors cannot be evaluated: %s' % ex)
    rep.check(bad is None, 'E5.length-pack', 'sonic_json::GenericNode', 'setLength / addLength / subLength / Size / GetType agree on the packed word (%d (length, tag) pairs)' % cnt,
              fs[('setLength', 2)].loc, bad or '', facts.config)


LEVEL = 'model_checking'
EXPLANATION = ('the model is not hand-written: it is re-extracted from the clang CFG of the current source on every run, '
               'so traces_validated_against_impl is 0 by construction; obligations/discharged count the additional dataflow and constant rules')


def clause_kind_predicates(facts, rep):
    """'type tests': every Is* predicate of the node, evaluated (sv/minterp.py) for every type tag of the TypeFlag
    enumeration and, for the integer kinds, over the payload values around 2^63: the answer equals the kind the tag
    and payload denote (IsInt64 <=> signed, or unsigned and <= INT64_MAX; IsUint64 <=> unsigned tag; ...)."""
    from ..minterp import Interp, Unsupported, UndefinedBehaviour
    tags = {}
    for en in facts.enums:
        if en.get('qn', '').endswith('TypeFlag') or en.get('name') == 'TypeFlag':
            for c in en.get('consts', en.get('values', [])):
                tags[c['name']] = int(c['value'] if 'value' in c else c['v'])
    need = ('kNull', 'kFalse', 'kTrue', 'kUint', 'kSint', 'kReal', 'kStringCopy', 'kStringFree', 'kStringConst', 'kObject', 'kArray', 'kRaw')
    rep.require(all(t in tags for t in need), 'C03.kinds: TypeFlag enumerators not found: %s' % sorted(set(need) - set(tags)))
    I64MAX = (1 << 63) - 1
    STR = ('kStringCopy', 'kStringFree', 'kStringConst')
    SPEC = {
        'IsNull': lambda t, u: t == 'kNull',
        'IsBool': lambda t, u: t in ('kTrue', 'kFalse'),
        'IsTrue': lambda t, u: t == 'kTrue',
        'IsFalse': lambda t, u: t == 'kFalse',
        'IsString': lambda t, u: t in STR,
        'IsStringConst': lambda t, u: t == 'kStringConst',
        'IsRaw': lambda t, u: t == 'kRaw',
        'IsNumber': lambda t, u: t in ('kUint', 'kSint', 'kReal'),
        'IsArray': lambda t, u: t == 'kArray',
        'IsObject': lambda t, u: t == 'kObject',
        'IsContainer': lambda t, u: t in ('kArray', 'kObject'),
        'IsDouble': lambda t, u: t == 'kReal',
        'IsUint64': lambda t, u: t == 'kUint',
        'IsInt64': lambda t, u: t == 'kSint' or (t == 'kUint' and u <= I64MAX),
    }
    payloads = [0, 1, I64MAX - 1, I64MAX, I64MAX + 1, I64MAX + 2, (1 << 64) - 1]
    seen = set()
    for f in facts.functions:
        if f.cls_qn != 'sonic_json::GenericNode' or f.short not in SPEC or f.params or f.short in seen:
            continue
        seen.add(f.short)
        rep.fn(f)
        bad = None
        n = 0
        try:
            for t in need:
                for u in (payloads if t in ('kUint', 'kSint') else [0, (1 << 64) - 1]):
                    for hi in (0, 0xABCDE):   # bits above the tag byte (length of strings / containers) must not matter
                        tt = tags[t]
                        mem = {'t.t': tt, 'n.u64': u, 'n.i64': u - (1 << 64) if u > I64MAX else u,
                               'sv.len': (hi << 8) | tt}
                        r = Interp(f, facts).run({}, mem)[0]
                        n += 1
                        if bool(r) != bool(SPEC[f.short](t, u)) and bad is None:
                            bad = '%s() = %s for tag %s, payload %d (0x%x)' % (f.short, bool(r), t, u, u)
        except UndefinedBehaviour as ex:
            bad = 'undefined behaviour: %s' % ex
        except Unsupported as ex:
            raise AnalysisBroken('C03.kinds: %s cannot be evaluated: %s' % (f.short, ex))
        rep.check(bad is None, 'E5.kind-predicate', f.qn, '%s over %d tag/payload states' % (f.short, n), f.loc, bad or '', facts.config)
    # member templates are instantiated on use: the driver reaches most, the integer/real kinds are indispensable
    rep.require(len(seen) >= 13 and {'IsInt64', 'IsUint64', 'IsDouble', 'IsNumber', 'IsString', 'IsNull', 'IsBool'} <= seen,
                'C03.kinds: only %s of the %d predicates found' % (sorted(seen), len(SPEC)))


def clause_dom_build(facts, rep, tier):
    """the events of a text become the tree the text denotes: the SAX handler's event methods are interpreted from their
    CFGs on the node / block model (sv/dom_model.py, sv/schema_model.py) for the canonical event sequence (the one
    E6.events proves the parser emits) of every tree of a universe - all leaf kinds, arrays / objects of <= 3 members,
    nesting to depth 3.  Afterwards the node stack holds exactly one node, and reading it back - through the children
    blocks the End* events built - gives the tree of the text; no slot outside a block is touched."""
    from .. import schema_model as sm
    from ..schema_model import T, Schema, teq, tstr
    from ..dom_model import Machine
    from ..minterp import Unsupported, UndefinedBehaviour
    import itertools
    tags = {}
    for en in facts.enums:
        if en.get('qn', '').endswith('TypeFlag'):
            for c in en.get('values', []):
                tags[c['name']] = int(c['v'])
    nfns, hfns = {}, {}
    for f in facts.functions:
        if f.name.startswith('sonic_json::DNode<sonic_json::SimpleAllocator>') or f.name.startswith('sonic_json::DNode<SAlloc>'):
            if f.short == 'findMemberImpl' and f.params and 'StringView' not in f.params[0]['t'] and 'basic_string_view' not in f.params[0]['t']:
                continue
            nfns.setdefault(f.short, f)
        if f.cls_qn == 'sonic_json::SAXHandler' and ('SAlloc' in f.name or 'SimpleAllocator' in f.name):
            hfns.setdefault(f.short, f)
    need = ('StartObject', 'EndObject', 'StartArray', 'EndArray', 'Key', 'String', 'Null', 'Bool', 'Uint', 'Int', 'Double')      # the SAX interface; private helpers are interpreted under whatever name they have
    rep.require(all(n in hfns for n in need) and 'destroy' in nfns and 'kObject' in tags, 'C03: SAXHandler / DNode functions of the freeing-allocator instantiation not all found')
    for n_ in need:
        rep.fn(hfns[n_])
    S = Schema(facts, hfns, nfns, tags)
    U = lambda v: T('uint', v)
    St = lambda v: T('str', v)
    leaves = [U(1), St('s'), St(''), T('null'), T('true'), T('false'), T('sint', -2), T('real', 1.5), U((1 << 64) - 1), T('sint', -(1 << 63))]
    small = leaves[:2] + [T('null')]

    def conts(vals, maxk):
        out = []
        for k in range(0, maxk + 1):
            for combo in itertools.product(vals, repeat=k):
                out.append(T('arr', None, list(combo)))
                out.append(T('obj', None, [('k%d' % j, c) for j, c in enumerate(combo)]))
        return out
    l1 = conts(small, 3)
    reps = [T('arr'), T('obj'), T('arr', None, [U(1)]), T('obj', None, [('a', U(1)), ('b', St('s'))]), U(7)]
    l2 = conts(reps, 3 if tier == 'thorough' else 2)
    l3 = conts([l2[5], l2[-1], T('arr', None, [T('arr', None, [T('arr')])]), U(1)], 2)
    univ = leaves + conts(leaves, 1) + l1 + l2 + l3
    bad = None
    n = 0
    try:
        for t in univ:
            M = Machine(facts, nfns, tags)
            try:
                ok, stack, np_ = S.build_fresh(M, t)
                n += 1
                if not ok:
                    bad = 'text %s: an event was refused although the stack has room' % tstr(t)
                elif np_ != 1:
                    bad = 'text %s: %d nodes left on the node stack, the root alone is expected' % (tstr(t), np_)
                else:
                    got = S.read(stack.slots[0])
                    if not teq(got, t):
                        bad = 'text %s is built as %s' % (tstr(t), tstr(got))
            except UndefinedBehaviour as ux:
                bad = 'text %s: undefined behaviour: %s' % (tstr(t), ux)
            if bad:
                break
    except Unsupported as ex:
        raise AnalysisBroken('C03: the SAX handler cannot be interpreted on the DOM model: %s' % ex)
    rep.extra['dom_build_trees'] = n
    rep.check(bad is None, 'E6.dom-build', 'sonic_json::SAXHandler', 'the node built from the events of a text equals the tree of the text, for %d trees' % n,
              hfns['EndObject'].loc, bad or '', facts.config)


def run(rep, tier):
    configs = ['K1'] if tier == 'quick' else ['K1', 'K3', 'K7']
    for cfg in configs:
        facts = get_facts(cfg)
        rep.unit(facts)
        c01.clause_a(facts, rep, tier)
        clause_b(facts, rep)
        clause_c(facts, rep)
        if cfg == 'K1':
            try:
                clause_length_pack(facts, rep)
            except AnalysisBroken as ex:
                rep.broken.append(str(ex))
            rep.corroborate('E5.length-shift', 'E5.length-pack')
            rep.corroborate_floor('C03.c:', 'E5.length-pack')
        clause_kind_predicates(facts, rep)
        from . import c19 as _c19
        _c19.clause_event_kind(facts, rep)    # each scalar event stores its value in its own kind (shared with C19)
        from . import c04
        c04.clause_c(get_facts(cfg, norm=True), rep, raw=facts)   # the exact fast path multiplies / divides only exact operands (a double rounding is a wrong value)
        c04.clause_d(facts, rep)   # numbers keep the value the text denotes only if dropped digits are remembered
        c04.clause_f(facts, rep)   # ... and an integer that fits uint64 is stored as an integer
        # 'string values equal to the decoded bytes': escape tables, surrogate handling and the UTF-8 encoder (shared with C05)
        from . import c05
        ok = c05.clause_a(facts, rep)
        c05.clause_b(facts, rep, ok)
        c05.clause_b2(facts, rep)
        c05.clause_pair_value(facts, rep, tier)
        c05.clause_c(facts, rep, tier)
    # elements must not be skipped as white space: table, mask width and mask composition of both kernels (shared with C15 / C01)
    from . import c15
    from .. import ws_table
    for cfg3 in ('K1', 'K3'):
        f3 = get_facts(cfg3)
        rep.unit(f3)
        ws_table.check(f3, rep)
        c15.clause_f(f3, rep)
        c15.clause_g(f3, rep)
    # 'string values equal to the decoded bytes ... placement relative to SIMD block boundaries': the in-place decoder
    # evaluated byte by byte against a reference decoder (sv/strdecode.py; shared with C05 / C15)
    from .. import strdecode
    for cfg5 in (('K1',) if tier == 'quick' else ('K1', 'K3')):
        try:
            strdecode.clause(get_facts(cfg5), rep, tier, negatives=False)
        except AnalysisBroken as ex:
            rep.broken.append(str(ex))
    # 'every number stored with the kind and value the text denotes': parseNumber evaluated on a boundary-driven corpus
    # against exact arithmetic (sv/numvalue.py; shared with C04)
    from .. import numvalue
    try:
        numvalue.clause(get_facts('K1'), rep, tier)
    except AnalysisBroken as ex:
        rep.broken.append(str(ex))
    try:
        clause_dom_build(get_facts('K1'), rep, tier)
    except AnalysisBroken as ex:
        rep.broken.append(str(ex))
    rep.extra['traces_validated_against_impl'] = 0
    rep.trust('clang 14 front end', 'hand-written RFC 8259 reference transducer (sv/e6_vpa.py ref_step)',
              'contract of scalar sub-parsers (one well-formed lexeme of their kind -> their event)')
    rep.assumptions += [
        'decides the canonical SAX event stream of the parser skeleton (Start/End pairing, one count increment per element, End* count argument), the type-flag algebra and the length packing shifts',
        'does not decide node copying (Xmemcpy), parent-index chaining, cached white-space bitmap reuse, accessor behaviour or numeric values',
    ]
