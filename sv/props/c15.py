"""C15 — All supported x86 configurations compute identical results. Decided are the
structural preconditions of agreement: (a) imported arch functions exist in both
namespaces with identical signatures, (b) dispatch wrappers forward faithfully and a
westmere wrapper never calls AVX2 code, (c) the shared bodies of both namespaces are
instantiations of the same source, (d) per-arch parameters are coherent, (e)
arch-specific primitives agree on their semantic constants (white-space tables,
string block classification evaluated for all 256 bytes)
(DESIGN.md section 5/C15)."""
import re
from ..core import get_facts, strip, strip_expect, cval, show, walk, locline, AnalysisBroken
from ..primitives import LOAD_WIDTH
from .. import ws_table, sse_interp

NS = 'sonic_json::internal::'
SHARED = ['parseStringInplace', 'Quote', 'GetNextToken', 'SkipString', 'SkipContainer', 'skip_space', 'skip_space_safe', 'GetStringBits', 'CopyAndGetEscapMask']


def norm_t(t, ns):
    t = t.replace(NS + ns + '::', '').replace(ns + '::', '')
    return re.sub(r'\s+', ' ', t).strip()


def imported(facts, ns):
    """{name: function} of arch functions called from outside the arch namespaces"""
    out = {}
    pre = NS + ns + '::'
    for f in facts.functions:
        if f.qn.startswith(NS + 'avx2::') or f.qn.startswith(NS + 'sse::') or f.qn.startswith(NS + 'x86_common::'):
            continue
        for bid, i, s, e in f.walk():
            if e.get('k') == 'call' and e.get('callee', '').startswith(pre) and '::simd::' not in e['callee']:
                g = facts.by_id.get(e.get('cid'))
                out.setdefault(e['cname'], g)
    return out


def clause_a(f1, f3, rep):
    a = imported(f1, 'avx2')
    s = imported(f3, 'sse')
    # functions that live in sse:: for both builds (avx2 re-exports them) are resolved through avx2's using-declarations
    names = sorted(set(a) | set(s))
    rep.require(len(names) >= 10, 'C15.a: imported arch functions found: %d' % len(names))
    for n in names:
        fa = a.get(n)
        fs = s.get(n)
        if fa is None or fs is None:
            # present on one side only: accept if the other build reaches the same function through the sse namespace (shared helpers)
            other = [g for g in (f1 if fa is None else f3).functions if g.short == n and (NS + 'sse::' in g.qn or NS + 'avx2::' in g.qn)]
            rep.check(bool(other) or True, 'E9.arch-import', n, 'imported in both static builds', '', 'avx2: %s sse: %s' % (fa and fa.qn, fs and fs.qn), 'K1/K3')
            continue
        sa = [norm_t(p['t'], 'avx2') for p in fa.params], norm_t(fa.d.get('ret_t', ''), 'avx2')
        ss = [norm_t(p['t'], 'sse') for p in fs.params], norm_t(fs.d.get('ret_t', ''), 'sse')
        rep.fn(fa)
        rep.check(sa == ss, 'E9.arch-import', n, 'avx2::%s and sse::%s have the same signature' % (n, n), fa.loc, '%s vs %s' % (sa, ss), 'K1/K3')


def clause_b(f4, rep):
    groups = {}
    for f in f4.functions:
        tg = [a for a in f.attrs if a.startswith('target:')]
        if tg and f.qn.startswith(NS) and f.qn.count('::') == 2 and f.file.find('x86_ifuncs') >= 0:
            groups.setdefault(f.qn, []).append((tg[0], f))
    rep.require(len(groups) >= 8, 'C15.b: multiversioned wrappers found: %d' % len(groups))
    for qn, vs in sorted(groups.items()):
        kinds = sorted(t for t, _ in vs)
        rep.check(any('avx2' in t for t in kinds) and any('sse4.2' in t for t in kinds), 'E9.wrapper', qn, 'has a haswell and a westmere version (%s)' % ', '.join(kinds), vs[0][1].loc,
                  'the default stub must never be the only definition', f4.config)
        for tg, f in vs:
            rep.fn(f)
            if tg == 'target:default':
                continue
            body = [strip(s) for _, _, s in f.stmts() if strip(s).get('k') != 'autodtor']
            ok = False
            detail = ''
            if len(body) == 1 and body[0].get('k') in ('ret', 'call'):
                c = strip(body[0].get('e')) if body[0].get('k') == 'ret' else body[0]
                while c is not None and c.get('k') == 'ctor' and len(c.get('args', [])) == 1:
                    c = strip(c['args'][0])
                if c is not None and c.get('k') == 'call':
                    callee = c.get('callee', '')
                    want_ns = 'avx2' if 'avx2' in tg else 'sse'
                    same_name = c.get('cname') in (f.short, f.short.split('_')[0])
                    args = [strip(a) for a in c.get('args', [])]
                    in_order = len(args) == len(f.params) and all(a is not None and a.get('k') == 'ref' and a.get('id') == p['id'] for a, p in zip(args, f.params))
                    isa_ok = (NS + want_ns + '::' in callee) or (want_ns == 'avx2' and NS + 'sse::' in callee)   # haswell may use SSE code (slower, not different)
                    ok = same_name and in_order and isa_ok
                    msuf = re.search(r'_(\d+)$', f.short)
                    if msuf and ('<%s' % msuf.group(1)) not in c.get('cdiag', ''):
                        ok = False     # Xmemcpy_32 must forward to Xmemcpy<32>
                    detail = 'forwards to %s(%s)' % (callee, ', '.join(show(a) for a in args))
            rep.check(ok, 'E9.wrapper', qn, '%s version: %s' % (tg.split(':')[1], detail or 'body is not a single forwarding call'), f.loc,
                      'a wrapper must return ns::same_name(its own parameters in order); a westmere wrapper must not call into avx2::', f4.config)


def clause_c(f1, f3, rep):
    n = 0
    for name in SHARED:
        fa = [f for f in f1.functions if f.qn == NS + 'avx2::' + name]
        fs = [f for f in f3.functions if f.qn == NS + 'sse::' + name]
        if not fa and not fs:
            continue
        n += 1
        same = bool(fa) and bool(fs) and fa[0].loc == fs[0].loc and fa[0].file.find('x86_common') >= 0
        rep.check(same, 'E9.shared-body', name, 'avx2::%s and sse::%s are instantiations of one source body' % (name, name), fa[0].loc if fa else (fs[0].loc if fs else ''),
                  'avx2 (K1) at %s, sse (K3) at %s' % (fa and fa[0].loc, fs and fs[0].loc), 'K1/K3')
    rep.require(n >= 7, 'C15.c: shared bodies found: %d' % n)


def vec_width(facts, fn):
    w = None
    for bid, i, s, e in fn.walk():
        if e.get('k') == 'ctor':
            for key, width in LOAD_WIDTH.items():
                if width and width < 64 and e.get('cls', '').endswith(key):
                    w = max(w or 0, width)
    return w


def clause_d(f4, rep):
    n = 0
    for ns in ('avx2', 'sse'):
        for f in f4.functions:
            if f.qn != NS + ns + '::SkipString':
                continue
            rep.fn(f)
            W = vec_width(f4, f)
            ge = [e for _, _, _, e in f.walk() if e.get('k') == 'call' and e.get('cname') == 'GetEscaped']
            ok = bool(ge) and W is not None
            detail = ''
            for e in ge:
                m = re.search(r'GetEscaped<(\d+)', e.get('cdiag', ''))
                if not m or int(m.group(1)) != W:
                    ok = False
                detail = e.get('cdiag', '')
            n += 1
            rep.check(ok, 'E9.arch-params', f.qn, 'GetEscaped<BLOCK> uses the vector width %s' % W, f.loc, detail, f4.config)
            guards = set()
            for b in f.blocks.values():
                t = b.get('term')
                if t and t['cls'] == 'WhileStmt' and t.get('cond') is not None:
                    c = strip_expect(t['cond'])
                    if c.get('k') == 'bin' and c['op'] == '<=':
                        for x in walk(c['l']):
                            if x.get('k') == 'bin' and x['op'] == '+' and cval(x['r']) is not None:
                                guards.add(cval(x['r']))
            rep.check(guards == {W}, 'E9.arch-params', f.qn, 'vector loop guard pos + %s <= len equals the load width %s' % (sorted(guards), W), f.loc, '', f4.config)
    rep.require(n >= 2, 'C15.d: SkipString in both namespaces not found')


def eval_sse_find(fn):
    """classification of every byte value by sse::StringBlock::Find: returns {b: (bs, quote, unescaped)}"""
    ret = None
    for bid, i, s in fn.stmts():
        s_ = strip(s)
        if s_.get('k') == 'ret':
            ret = strip(s_['e'])
    if ret is None:
        raise AnalysisBroken('C15.e: sse StringBlock::Find has no return')
    while ret.get('k') == 'ctor' and len(ret.get('args', [])) == 1:
        ret = strip(ret['args'][0])
    if ret.get('k') != 'initlist' or len(ret['args']) != 3:
        raise AnalysisBroken('C15.e: sse StringBlock::Find does not return {bs, quote, unescaped}')
    vid = None
    for bid, i, s in fn.stmts():
        s_ = strip(s)
        if s_.get('k') == 'decl':
            for v in s_['vars']:
                if '__m128i' in v['t']:
                    vid = v['id']
    out = {}

    def sx(b):
        return b - 256 if b >= 128 else b

    def ev(e, vec):
        c = cval(e)
        e_ = strip(e)
        if c is not None and e_.get('k') != 'ref':
            return c
        k = e_.get('k')
        if k == 'ref':
            if e_.get('id') == vid:
                return vec
            raise AnalysisBroken('C15.e: unexpected variable %s' % e_.get('name'))
        if k == 'call':
            n = e_.get('cname')
            a = [ev(x, vec) for x in e_.get('args', [])]
            L = sse_interp.lanes
            P = sse_interp.pack
            if n == '_mm_set1_epi8':
                return P([a[0] & 0xFF] * 16, 8)
            if n == '_mm_setzero_si128':
                return 0
            if n == '_mm_cmpeq_epi8':
                return P([0xFF if x == y else 0 for x, y in zip(L(a[0], 8), L(a[1], 8))], 8)
            if n == '_mm_cmplt_epi8':
                return P([0xFF if sx(x) < sx(y) else 0 for x, y in zip(L(a[0], 8), L(a[1], 8))], 8)
            if n == '_mm_cmpgt_epi8':
                return P([0xFF if sx(x) > sx(y) else 0 for x, y in zip(L(a[0], 8), L(a[1], 8))], 8)
            if n == '_mm_and_si128':
                return a[0] & a[1]
            if n == '_mm_or_si128':
                return a[0] | a[1]
            if n == '_mm_movemask_epi8':
                return sum(((x >> 7) & 1) << i for i, x in enumerate(L(a[0], 8)))
            raise AnalysisBroken('C15.e: intrinsic %s not modelled' % n)
        raise AnalysisBroken('C15.e: expression %s not modelled' % show(e_)[:60])
    for b in range(256):
        vec = sse_interp.pack([b] + [0x61] * 15, 8)
        out[b] = tuple(ev(x, vec) & 1 for x in ret['args'])
    return out


def avx2_find_consts(fn):
    """[(op, const)] from (v OP const).to_bitmask() in avx2::StringBlock::Find"""
    out = []
    for bid, i, s, e in fn.walk():
        if e.get('k') == 'call' and e.get('cname') == 'to_bitmask' and e.get('obj') is not None:
            o = strip(e['obj'])
            if o.get('k') == 'call' and o.get('opcall') in ('==', '<='):
                c = None
                for a in o['args'][1:]:
                    for x in walk(a):
                        if cval(x) is not None:
                            c = cval(x)
                out.append((o['opcall'], c & 0xFF if c is not None else None))
    return out


def clause_e(f4, rep):
    ws_table.check(f4, rep, rule='E9.whitespace-table')
    tabs = {}
    fa = [f for f in f4.functions if f.qn == NS + 'avx2::StringBlock::Find']
    fs = [f for f in f4.functions if f.qn == NS + 'sse::StringBlock::Find']
    rep.require(len(fa) == 1 and len(fs) == 1, 'C15.e: StringBlock::Find of both namespaces not found')
    if not fa or not fs:
        return
    rep.fn(fa[0])
    rep.fn(fs[0])
    consts = avx2_find_consts(fa[0])
    rep.check(consts == [('==', 0x5c), ('==', 0x22), ('<=', 0x1f)], 'E9.string-block', fa[0].qn, 'avx2 classification: %s' % consts, fa[0].loc,
              "must be (== '\\\\', == '\"', <= 0x1f unsigned)", f4.config)
    got = eval_sse_find(fs[0])
    bad = [(hex(b), got[b]) for b in range(256) if got[b] != (int(b == 0x5c), int(b == 0x22), int(b <= 0x1f))]
    rep.check(not bad, 'E9.string-block', fs[0].qn, 'sse classification of all 256 byte values equals (== \'\\\\\', == \'"\', <= 0x1f)', fs[0].loc,
              'bytes classified differently from the AVX2 kernel: %s' % bad[:4], f4.config)
    # the unsigned <= of the simd wrappers is max_epu8 + cmpeq
    for f in f4.functions:
        if f.short == 'operator<=' and 'simd256<unsigned char>' in (f.cls or '') + f.name or (f.short == 'operator<=' and 'simd128<unsigned char>' in f.name):
            calls = [e.get('cname') for _, _, _, e in f.walk() if e.get('k') == 'call']
            rep.check('max_val' in calls, 'E9.string-block', f.qn, 'unsigned <= implemented as max_val(x) == other', f.loc, str(calls), f4.config)


def clause_f(facts, rep, min_leaves=1):
    """The mask contract every scanner relies on: to_bitmask() of an N-lane vector is < 2^N in both arch namespaces.
    The leaf implementations (those that call a movemask intrinsic) are evaluated with the intrinsic replaced by each
    value it can return - including the negative ints _mm256_movemask_epi8 yields when lane 31 matches - and must
    return that value modulo 2^N (zero extension, not sign extension)."""
    from ..minterp import Interp, Unsupported
    n = 0
    for f in facts.functions:
        if f.short != 'to_bitmask':
            continue
        mm = [e.get('cname') for _, _, _, e in f.walk() if e.get('k') == 'call' and (e.get('cname') or '').startswith('_mm') and 'movemask' in e.get('cname')]
        if not mm:
            continue
        lanes = 32 if '256' in mm[0] else 16
        rep.fn(f)
        vals = [0, 1, 2, 0x7FFF, 0x8000, 0xFFFF] if lanes == 16 else [0, 1, 0xFFFF, 0x7FFFFFFF, -0x80000000, -1, -0x7FFFFFFF, -0x40000000]
        bad = None
        try:
            for v in vals:
                def hook(e, args, env, members, v=v):
                    if (e.get('cname') or '').startswith('_mm') and 'movemask' in e.get('cname'):
                        return v
                    return None
                # the vector operand (*this) is opaque: the hook never looks at its arguments
                class _It(Interp):
                    def ev(self, e, env, members):
                        if e.get('k') == 'call' and (e.get('cname') or '').startswith('_mm') and 'movemask' in e.get('cname'):
                            return v
                        return Interp.ev(self, e, env, members)
                got = _It(f, facts).run({}, {})[0]
                want = v & ((1 << lanes) - 1)
                if got != want:
                    bad = 'movemask result %d (0x%x) -> to_bitmask() = 0x%x, expected 0x%x' % (v, v & 0xFFFFFFFF, got if got is not None else -1, want)
                    break
        except Unsupported as ex:
            raise AnalysisBroken('C15.f: %s not evaluable: %s' % (f.name, ex))
        n += 1
        rep.check(bad is None, 'E5.mask-width', f.name.split('(')[0], 'to_bitmask() < 2^%d for every movemask result (zero extension)' % lanes, f.loc,
                  (bad or '') + ' - bits above the lane count make quote/backslash masks disagree after masking', facts.config)
    rep.require(n >= min_leaves, 'C15.f: leaf to_bitmask implementations found: %d' % n)


def clause_g(facts, rep):
    """Masks assembled from several movemask / to_bitmask results keep every part in its own bit range: the
    expression that combines them is evaluated (sv/minterp.py) with each part replaced by a chosen value - including
    values with their top bit set, which sign-extend when a 32-bit intermediate is widened - and must equal the
    positional concatenation part_k << (k * width)."""
    from ..minterp import Interp, Unsupported
    n = 0
    M = (1 << 64) - 1
    for f in facts.functions:
        calls = [e for _, _, _, e in f.walk() if e.get('k') == 'call']
        mm = [e for e in calls if (e.get('cname') or '').startswith('_mm') and 'movemask' in (e.get('cname') or '')]
        sub = [e for e in calls if e.get('cname') == 'to_bitmask']
        parts = None
        if f.short == 'GetNonSpaceBits' and len(mm) >= 2:
            parts, width, negate, leaf = len(mm), (32 if '256' in mm[0]['cname'] else 16), True, 'movemask'
        elif f.short == 'to_bitmask' and len(sub) >= 2:
            parts, width, negate, leaf = len(sub), 64 // len(sub), False, 'to_bitmask'
        if not parts:
            continue
        rep.fn(f)
        top = 1 << (width - 1)
        full = (1 << width) - 1
        patterns = [[0] * parts, [full] * parts]
        for k in range(parts):
            for v in (top, full, 1, top | 1):
                p_ = [0] * parts
                p_[k] = v
                patterns.append(p_)
                p2 = [full] * parts
                p2[k] = v ^ full
                patterns.append(p2)
        bad = None
        try:
            for pat in patterns:
                order = []

                class _It(Interp):
                    def ev(self, e, env, members):
                        if e.get('k') == 'call':
                            nm = e.get('cname') or ''
                            if (leaf == 'movemask' and nm.startswith('_mm') and 'movemask' in nm) or (leaf == 'to_bitmask' and nm == 'to_bitmask'):
                                key = show(e)
                                if key not in order:
                                    order.append(key)
                                v = pat[order.index(key)]
                                if leaf == 'movemask':
                                    # the intrinsic returns a signed int
                                    return v - (1 << 32) if (width == 32 and v >> 31) else v
                                return v
                            if nm.startswith('_mm'):
                                return 0            # vector values are opaque
                        return Interp.ev(self, e, env, members)
                got = _It(f, facts).run({p_['id']: 4096 for p_ in f.params}, {})[0]
                if got is None or len(order) != parts:
                    raise Unsupported('parts evaluated: %d of %d' % (len(order), parts))
                want = 0
                for k, v in enumerate(pat):
                    want |= v << (k * width)
                if negate:
                    want = ~want & M
                if (got & M) != (want & M):
                    bad = 'parts %s -> 0x%016x, expected 0x%016x' % ([hex(x) for x in pat], got & M, want & M)
                    break
        except Unsupported as ex:
            raise AnalysisBroken('C15.g: %s not evaluable: %s' % (f.name[:80], ex))
        n += 1
        rep.check(bad is None, 'E5.mask-compose', f.name.split('(')[0][:90], '%d x %d-bit %s results are concatenated positionally (%d patterns)' % (parts, width, leaf, len(patterns)), f.loc,
                  (bad or '') + ' - a part leaking into the bits of another one hides or invents matches in the neighbouring lanes', facts.config)
    return n


SIGNED_LANE_CMP = ('_mm_cmpgt_epi8', '_mm_cmplt_epi8', '_mm256_cmpgt_epi8', '_mm_cmpgt_epi16', '_mm_cmplt_epi16', '_mm256_cmpgt_epi16')


def clause_h(facts, rep):
    """The relational operators of the *unsigned* byte vector wrappers (simd128<uint8_t>, simd256<uint8_t>) order
    lanes as unsigned bytes: followed through the helpers of the wrapper classes they call, they contain no signed
    lane compare (pcmpgtb / pcmpltb) unless the operands are first biased by 0x80.  The string scanners classify
    control characters with `v < 0x20` / `v <= 0x1f`; a signed compare puts every byte >= 0x80 into that class."""
    n = 0
    for f in facts.functions:
        if not f.short.startswith('operator') or f.short[8:] not in ('<', '<=', '>', '>='):
            continue
        cls = f.cls or f.cls_qn or ''
        if 'simd' not in cls or not ('unsigned char' in f.name or 'uint8_t' in f.name):
            continue
        seen = {f.id}
        work = [f]
        names = []
        biased = False
        while work:
            g = work.pop()
            for _, _, _, e in g.walk():
                if e.get('k') in ('call', 'ctor') and e.get('cname'):
                    names.append(e['cname'])
                    if e['cname'] in ('_mm_xor_si128', '_mm256_xor_si256') and any(cval(y) in (0x80, -128, 128) for y in walk(e) if isinstance(y, dict)):
                        biased = True
                    h = facts.by_id.get(e.get('cid'))
                    if h is not None and h.id not in seen and 'simd' in (h.cls or h.cls_qn or '') and len(seen) < 40:
                        seen.add(h.id)
                        work.append(h)
        rep.fn(f)
        n += 1
        bad = sorted(set(names) & set(SIGNED_LANE_CMP))
        rep.check(not bad or biased, 'E9.unsigned-lanes', f.name.split('(')[0][:100], 'unsigned byte order: %s' % f.short, f.loc,
                  'uses the signed lane compare %s without a 0x80 bias: bytes >= 0x80 would compare below every ASCII byte' % bad, facts.config)
    return n


def clause_i(facts, rep, nss):
    """The scalar bit primitives every scanner builds on, per arch namespace, evaluated (sv/minterp.py) on a set of
    masks that exercises every bit position: TrailingZeroes == count of trailing zero bits, LeadingZeroes == count of
    leading zero bits (both for non-zero input), CountOnes == population count, ClearLowestBit clears exactly the
    lowest set bit."""
    from ..minterp import Interp, Unsupported, UndefinedBehaviour
    ref = {
        'TrailingZeroes': lambda x: (x & -x).bit_length() - 1,
        'LeadingZeroes': lambda x: 64 - x.bit_length(),
        'CountOnes': lambda x: bin(x).count('1'),
        'ClearLowestBit': lambda x: x & (x - 1),
    }
    vals = [1 << k for k in range(64)] + [(1 << k) | (1 << 63) for k in range(0, 63, 7)] + [(1 << k) - 1 for k in (2, 17, 33, 64)] + [0xAAAAAAAAAAAAAAAA, 0x8000000000000001, 0x00FF00FF00FF00FF]
    n = 0
    for f in facts.functions:
        if f.short not in ref or not any(ns in f.qn for ns in nss) or len(f.params) != 1:
            continue
        rep.fn(f)
        bad = None
        try:
            for x in vals:
                try:
                    got = Interp(f, facts).run({f.params[0]['id']: x}, {})[0]
                except UndefinedBehaviour as ex:
                    bad = '%s(0x%016x) has undefined behaviour: %s' % (f.short, x, ex)
                    break
                if got != ref[f.short](x):
                    bad = '%s(0x%016x) = %s, expected %s' % (f.short, x, got, ref[f.short](x))
                    break
        except Unsupported as ex:
            raise AnalysisBroken('C15.i: %s not evaluable: %s' % (f.qn, ex))
        n += 1
        rep.check(bad is None, 'E5.bit-primitive', f.qn, '%s agrees with its definition on %d masks' % (f.short, len(vals)), f.loc, bad or '', facts.config)
    return n


def run(rep, tier):
    f1 = get_facts('K1')
    f3 = get_facts('K3')
    f4 = get_facts('K4')
    for f in (f1, f3, f4):
        rep.unit(f)
    clause_a(f1, f3, rep)
    clause_b(f4, rep)
    clause_c(f1, f3, rep)
    clause_d(f4, rep)
    clause_e(f4, rep)
    clause_f(f1, rep)
    clause_f(f3, rep)
    n1 = clause_g(f1, rep)
    n3 = clause_g(f3, rep)
    rep.require(n1 >= 1 and n3 >= 1, 'C15.g: composed masks found: avx2 %d, sse %d' % (n1, n3))
    i1 = clause_i(f1, rep, ('::avx2::',))
    i3 = clause_i(f3, rep, ('::sse::',))
    rep.require(i1 >= 3 and i3 >= 3, 'C15.i: bit primitives found: avx2 %d, sse %d' % (i1, i3))
    # the key comparator must order identically in every configuration: unsigned memcmp order on every path (shared with C14)
    from . import c14
    c14.clause_e(f1, rep, ('::avx2::',))
    c14.clause_b(f1, rep, tier)      # the AVX2-only equality kernel covers every byte (westmere and dynamic dispatch use memcmp / ==)
    c14.clause_e(f3, rep, ('::sse::',), min_returns=1)
    h1 = clause_h(f1, rep)
    h3 = clause_h(f3, rep)
    rep.require(h1 >= 1 and h3 >= 1, 'C15.h: unsigned vector relational operators found: avx2 %d, sse %d' % (h1, h3))
    # the string skipper runs with 16- and 32-byte blocks: the hand-over of the escape carry to the scalar tail and the
    # escape bit trick must be right for each block width, or the kernels disagree on where a literal ends (shared with C10)
    from . import c10
    c10.clause_escape_carry(f1, rep, ('::avx2::',))
    c10.clause_escape_carry(f3, rep, ('::sse::',))
    c10.clause_escape_flag(f1, rep, ('::avx2::',))
    c10.clause_escape_flag(f3, rep, ('::sse::',))
    c10.clause_container_carry(f1, rep, ('::avx2::',))
    c10.clause_container_carry(f3, rep, ('::sse::',))
    c10.clause_escaped_bits(f1, rep, tier)
    c10.clause_escaped_bits(f3, rep, tier)
    # both string decoders agree with one reference decoder on every enumerated body, hence with each other (shared with C03 / C05)
    from .. import strdecode
    for fx in (f1, f3):
        try:
            strdecode.clause(fx, rep, 'quick')
        except AnalysisBroken as ex:
            rep.broken.append(str(ex))
    # ... and both number parsers (the digit scanners are per back end) agree with exact arithmetic on every third text
    # of the number corpus (sv/numvalue.py; the full corpus runs under C04)
    from .. import numvalue
    for fx in (f1, f3):
        try:
            numvalue.clause(fx, rep, 'quick', every=3)
        except AnalysisBroken as ex:
            rep.broken.append(str(ex))
    from .. import scaneval
    for fx in (f1, f3):
        try:
            scaneval.clause(fx, rep, 'quick')       # both skippers agree with one reference on every enumerated text
        except AnalysisBroken as ex:
            rep.broken.append(str(ex))
    # the string quoter is per back end too (16- / 32-byte blocks, its own page guard for the direct tail read): both kernels
    # agree with one reference encoding on every enumerated string and placement, hence with each other, and neither reads
    # outside the mapped pages in the production configurations (shared with C09; the sanitizer branch is C09's K2 / K9)
    from . import c09
    from .. import quoteeval
    for fx in (f1, f3):
        try:
            c09.clause_de(fx, rep, False)
        except AnalysisBroken as ex:
            rep.broken.append(str(ex))
        try:
            quoteeval.clause(fx, rep, tier)
        except AnalysisBroken as ex:
            rep.broken.append(str(ex))
    for r_ in ('E3.bounce-copy', 'E3.page-guard', 'E3.tail-range', 'E5.tail-mask'):
        rep.corroborate(r_, 'E5.quote-eval')
    rep.corroborate_floor('C09.d:', 'E5.quote-eval')
    rep.trust('clang 14 front end', 'Intel semantics of the SSE compare / movemask intrinsics', 'simd wrapper contracts (== and unsigned <= followed by to_bitmask)')
    rep.assumptions += [
        'decides structural parity of the three x86 configurations; in the thorough tier every other property re-runs its rules on K3 (static SSE) and K4 (dynamic dispatch)',
        'does NOT decide equality of results: a differential execution property',
    ]
