"""C11 — On-demand scanning of unpadded input stays inside the input: clauses
(a) every buffer read in bounds (zone analysis, callee pre/post conditions),
(b) unpadded entry points never reach the padded-only skip_space, (c) error
sign discipline, (d) key comparison guarded by length equality, (e) private
decode buffers contain the closing quote and VEC_LEN-1 slack
(DESIGN.md section 5/C11)."""
from ..core import get_facts, strip, strip_expect, cval, show, walk, locline, AnalysisBroken
from ..e3_zone import ZoneAnalysis, Zone, Lin, Z, lin_add, lin_neg, INF
from ..e3_interval import intervals_for, table_value_ranges
from ..e2_dom import Must
from ..primitives import LOAD_WIDTH

NS = 'sonic_json::internal::'
SCANNER = NS + 'SkipScanner'

# the unpadded scanning family, callees first
FAMILY = ['skip_space_safe', 'GetNextToken', 'SkipString', 'SkipContainer', 'SkipLiteral', 'SkipArray', 'SkipObject', 'SkipNumber',
          'SkipSpaceSafe', 'GetArrayElem', 'SkipOne', 'GetOnDemand', 'parseLazyImpl']


# preconditions beyond pos <= len, each with the reason it is needed; proved at every call site
EXTRA_PRE = {
    'SkipLiteral': [('Z', 'pos', -1, 'pos >= 1 (the literal starts at the byte already consumed, data[pos-1])')],
}


def fixed_extents(facts):
    """{('extent', fn id): {arg index: bytes read from that pointer argument}} for small readers whose
    accesses are all at constant offsets from a pointer parameter"""
    out = {}
    for f in facts.functions:
        if f.short not in ('GetNonSpaceBits', 'GetStringBits', 'EqBytes4'):
            continue
        ext = {}
        for pi, p in enumerate(f.params):
            if '*' not in p['t']:
                continue
            m = 0
            for bid, i, s, e in f.walk():
                if e.get('k') == 'ctor':
                    w = None
                    for key, width in LOAD_WIDTH.items():
                        if width and e.get('cls', '').endswith(key):
                            w = width
                    if w and e.get('args'):
                        a = strip(e['args'][0])
                        if a.get('k') == 'ref' and a.get('id') == p['id']:
                            m = max(m, w)
                if e.get('k') == 'call' and e.get('cid') in facts.by_id and facts.by_id[e['cid']].short in ('GetStringBits', 'GetNonSpaceBits'):
                    for ai, a in enumerate(e.get('args', [])):
                        a_ = strip(a)
                        if a_ is not None and a_.get('k') == 'ref' and a_.get('id') == p['id']:
                            m = max(m, 64)
                if e.get('k') == 'call' and e.get('cname') in LOAD_WIDTH and LOAD_WIDTH.get(e.get('cname')) and e.get('args'):
                    a = strip(e['args'][0])
                    off = 0
                    if a is not None and a.get('k') == 'bin' and a['op'] == '+' and cval(a['r']) is not None:
                        off = cval(a['r'])
                        a = strip(a['l'])
                    if a is not None and a.get('k') == 'ref' and a.get('id') == p['id']:
                        m = max(m, off + LOAD_WIDTH[e['cname']])
                # *(const uint32_t*)(p) style
                if e.get('k') == 'un' and e['op'] == '*':
                    inner = strip(e['e'])
                    if inner is not None and inner.get('k') == 'ref' and inner.get('id') == p['id']:
                        t = e.get('t', '')
                        m = max(m, {'uint32_t': 4, 'const uint32_t': 4, 'uint64_t': 8, 'uint16_t': 2}.get(t, 1))
                if e.get('k') == 'call' and e.get('cname') == 'memcpy' and len(e.get('args', [])) == 3:
                    a = strip(e['args'][1])
                    if a is not None and a.get('k') == 'ref' and a.get('id') == p['id'] and cval(e['args'][2]):
                        m = max(m, cval(e['args'][2]))
            if m:
                ext[pi] = m
        if ext:
            out[('extent', f.id)] = ext
        else:
            raise AnalysisBroken('C11: read extent of %s could not be derived' % f.name)
    return out


def container_hooks(fam, f):
    """SkipContainer's tail: the remaining bytes are copied into a zeroed 64-byte block, so the bracket
    masks computed from it have no bit at or beyond the number of copied bytes (a non-zero byte compare never
    matches a zero byte): TrailingZeroes(mask) < copied. Tracked as a symbolic bit extent of mask variables."""
    iv = intervals_for(fam.facts, f, fam.tables, depth=3)
    zero_arrays = set()
    for bid, i, s in f.stmts():
        s_ = strip(s)
        if s_.get('k') == 'decl':
            for v in s_['vars']:
                ini = strip(v.get('init')) if v.get('init') is not None else None
                if '[' in v.get('t', '') and ini is not None and ini.get('k') == 'initlist' and all(cval(a) == 0 for a in ini.get('args', [])):
                    zero_arrays.add(v['id'])

    def memcpy(za, e, st, bid, idx):
        dst = za.ptr_of(e['args'][0], st)
        ln = za.lin(e['args'][2], st)
        if dst is not None and dst[0][0] == 'array' and dst[0][1] in zero_arrays and dst[1] is not None and dst[1].x == Z and dst[1].y == Z and dst[1].c == 0:
            st['zero_tail'] = dict(st.get('zero_tail', {}))
            if ln is not None and dst[0][1] not in st.get('dirty', set()):
                st['zero_tail'][dst[0][1]] = ln
            st['dirty'] = set(st.get('dirty', set())) | {dst[0][1]}
        return False

    def bit_ext_of(za, e, st, bid, idx):
        """symbolic extent of a mask expression: Lin E such that no bit >= E is set, or None"""
        e_ = strip(e)
        if e_ is None:
            return None
        k = e_.get('k')
        if k == 'ref':
            return st.get('bit_ext', {}).get(e_.get('id'))
        if k == 'bin' and e_['op'] == '&':
            return bit_ext_of(za, e_['l'], st, bid, idx) or bit_ext_of(za, e_['r'], st, bid, idx)
        if k == 'bin' and e_['op'] == '-' and cval(e_['r']) is not None:
            return None
        if k == 'call' and e_.get('cname') == 'eq' and e_.get('obj') is not None:
            o = strip(e_['obj'])
            arr = st.get('vec_src', {}).get(o.get('id')) if o is not None and o.get('k') == 'ref' else None
            if arr is not None and arr in st.get('zero_tail', {}):
                stt = iv.at(bid, idx)
                r = iv.ev(e_['args'][0], dict(stt)) if stt is not None else (-INF, INF)
                if r[0] >= 1:
                    return st['zero_tail'][arr]
        return None

    def ctor_track(za, v, init, st, bid, idx):
        pass

    def incr_ub(za, e, st, bid, idx):
        # TrailingZeroes(m) + c  with m != 0 :  <= extent(m) - 1 + c
        e_ = strip(e)
        c = 0
        if e_.get('k') == 'bin' and e_['op'] == '+' and cval(e_['r']) is not None:
            c = cval(e_['r'])
            e_ = strip(e_['l'])
        if e_.get('k') == 'call' and e_.get('cname') == 'TrailingZeroes':
            ext = bit_ext_of(za, e_['args'][0], st, bid, idx)
            if ext is not None:
                return lin_add(ext, Lin(Z, Z, c - 1))
        return None

    def decl_hook(za, s_, st, bid, idx):
        # remember which array a vector was loaded from, and mask extents
        for v in s_.get('vars', []):
            ini = strip(v.get('init')) if v.get('init') is not None else None
            if ini is None:
                continue
            if ini.get('k') == 'ctor' and len(ini.get('args', [])) == 1:
                p = za.ptr_of(ini['args'][0], st)
                if p is not None and p[0][0] == 'array' and p[1] is not None and p[1].x == Z and p[1].y == Z and p[1].c == 0:
                    st['vec_src'] = dict(st.get('vec_src', {}))
                    st['vec_src'][v['id']] = p[0][1]
                else:
                    st['vec_src'] = {k: x for k, x in st.get('vec_src', {}).items() if k != v['id']}
            ext = bit_ext_of(za, ini, st, bid, idx)
            st['bit_ext'] = dict(st.get('bit_ext', {}))
            if ext is not None:
                st['bit_ext'][v['id']] = ext
            else:
                st['bit_ext'].pop(v['id'], None)
    return {'memcpy': memcpy, 'incr_ub': incr_ub, 'decl': decl_hook}


def bind_triple(f):
    """(data param, pos param/local, len param/local) of a family function"""
    pn = {p['name']: p for p in f.params}
    if 'data' in pn and 'pos' in pn and 'len' in pn:
        idx = {p['name']: i for i, p in enumerate(f.params)}
        return dict(data_id=pn['data']['id'], pos='v%d' % pn['pos']['id'], len='v%d' % pn['len']['id'],
                    params=(idx['data'], idx['pos'], idx['len']), pos_id=pn['pos']['id'], len_id=pn['len']['id'])
    return None


class Family:
    def __init__(self, facts, rep, ns):
        self.facts, self.rep, self.ns = facts, rep, ns
        self.summaries = dict(fixed_extents(facts))
        self.results = {}
        self.tables = table_value_ranges(facts)

    def pick(self, short, extra=None):
        out = []
        for f in self.facts.functions:
            if f.short != short:
                continue
            q = f.qn
            if short in ('SkipSpaceSafe', 'GetArrayElem', 'SkipOne', 'GetOnDemand'):
                if f.cls_qn != SCANNER:
                    continue
            elif short == 'parseLazyImpl':
                if f.cls_qn != 'sonic_json::Parser':
                    continue
            elif short in ('SkipLiteral',):
                pass
            elif short in ('SkipArray', 'SkipObject', 'SkipNumber'):
                if not q.startswith(NS):
                    continue
            else:
                if not any(n in q for n in (self.ns if isinstance(self.ns, (tuple, list)) else (self.ns,))):
                    continue
            out.append(f)
        return out

    def analyse(self, f, entry_extra=None, hooks=None, with_pre=True):
        roles = bind_triple(f)
        iv = intervals_for(self.facts, f, self.tables, depth=0)
        if roles is None:
            return None
        za = ZoneAnalysis(f, self.facts, iv, roles, summaries=self.summaries, hooks=hooks or {})
        st = za.new_state()
        z = st['z']
        pos, ln = roles['pos'], roles['len']
        za.vname[pos] = 'pos'
        za.vname[ln] = 'len'
        za.vname['pos0'] = 'pos@entry'
        z.add(Z, pos, 0)           # pos >= 0
        z.add(Z, ln, 0)            # len >= 0 (size_t)
        if with_pre:
            z.add(pos, ln, 0)          # precondition pos <= len
        for (x, y, c, why) in EXTRA_PRE.get(f.short, []):
            z.add({'pos': pos, 'len': ln, 'Z': Z}[x], {'pos': pos, 'len': ln, 'Z': Z}[y], c)
        z.assign('pos0', pos, 0)
        if entry_extra:
            entry_extra(za, st)
        za.run(st)
        za.with_pre = with_pre
        return za

    def summarise(self, f, za):
        """cursor summary from the recorded return states"""
        roles = za.roles
        pos, ln = roles['pos'], roles['len']
        names = {pos: 'pos', 'pos0': 'pos0', ln: 'len', Z: 'Z'}
        post = {}
        retlin = None
        for rc, z, rs, st in za.returns:
            if z.bottom:
                continue
            entries = []
            if rc == 'forward':
                sv = strip_expect(rs['e'])
                cf = st['cf'].get(('call', id(sv)), {})
                for rc2, cons in cf.items():
                    z2 = z.copy()
                    for (x, y, c) in cons:
                        z2.add(x, y, c)
                    entries.append((rc2, z2))
            elif rc.startswith('nonneg:'):
                entries.append(('nonneg', z))
                n = rc.split(':', 1)[1]
                rl = []
                for v, nm in names.items():
                    if z.get(n, v) != INF:
                        rl.append(('<=', nm, 'Z', 0, z.get(n, v)))
                    if z.get(v, n) != INF:
                        rl.append(('>=', nm, 'Z', 0, -z.get(v, n)))
                retlin = rl
            elif rc == 'neg?':
                entries.append(('neg', z))
            else:
                entries.append((rc, z))
            for rc2, z2 in entries:
                proj = Zone()
                for a, an in names.items():
                    for b, bn in names.items():
                        if a != b and z2.get(a, b) != INF:
                            proj.b[(an, bn)] = z2.get(a, b)
                post[rc2] = proj if rc2 not in post else post[rc2].join(proj)
        sm = dict(params=roles['params'], pre=([('pos', 'len', 0, 'pos <= len')] if getattr(za, 'with_pre', True) else []) + EXTRA_PRE.get(f.short, []),
                  post={rc: [(x, y, c) for (x, y), c in z.b.items()] for rc, z in post.items()})
        return sm

    def report(self, f, za, rule='E3.read'):
        rep = self.rep
        rep.fn(f)
        seen = set()
        for what, ex, loc, ok, detail in za.obligations:
            key = (what, ex, loc)
            if key in seen:
                continue
            seen.add(key)
            rep.check(ok, rule, f.qn, '%s: %s' % (what, ex), loc, detail, self.facts.config)
        for callee, loc, ok, detail in za.call_pre:
            key = ('pre', callee, loc, detail[:30])
            if key in seen:
                continue
            seen.add(key)
            rep.check(ok, 'E3.call-pre', f.qn, 'call of %s' % callee, loc, detail, self.facts.config)


def run_family(facts, rep, ns):
    fam = Family(facts, rep, ns)
    fam.ns = ns
    n_fn = 0
    # ---- skip_space_safe: class invariant on the cached block end, analysed under both disjuncts
    for f in fam.pick('skip_space_safe'):
        roles = bind_triple(f)
        endp = [p for p in f.params if p['name'] == 'nonspace_bits_end']
        rep.require(roles is not None and len(endp) == 1, 'C11.a: roles of skip_space_safe not bound')
        if roles is None or not endp:
            continue
        end = 'v%d' % endp[0]['id']
        def joined(with_pre, do_report):
            posts = []
            for case in ('zero', 'block'):
                def extra(za, st, case=case):
                    za.vname[end] = 'nonspace_bits_end'
                    if case == 'zero':
                        st['z'].assign(end, Z, 0)
                    else:
                        st['z'].add(Z, end, -64)                 # end >= 64
                        st['z'].add(end, roles['len'], 0)        # end <= len
                za = fam.analyse(f, extra, with_pre=with_pre)
                if do_report:
                    fam.report(f, za)
                    # inductiveness: at every return  end == 0  or  64 <= end <= len
                    for rc, z, rs, st in za.returns:
                        if z.bottom:
                            continue
                        ok = (z.entails(end, Z, 0) and z.entails(Z, end, 0)) or (z.entails(Z, end, -64) and z.entails(end, roles['len'], 0))
                        rep.check(ok, 'E3.scanner-invariant', f.qn, 'cached block end is 0 or in [64, len] at return (entry case: %s)' % case, locline(rs['loc']),
                                  'known: %s' % za.ppz(z), facts.config)
                posts.append(fam.summarise(f, za))
            sm = posts[0]
            for rc, cons in posts[1]['post'].items():
                if rc in sm['post']:
                    a = Zone({(x, y): c for (x, y, c) in sm['post'][rc]})
                    b = Zone({(x, y): c for (x, y, c) in cons})
                    j = a.join(b)
                    sm['post'][rc] = [(x, y, c) for (x, y), c in j.b.items()]
                else:
                    sm['post'][rc] = cons
            return sm
        # weakest entry condition: first without pos <= len
        probe = Family(facts, type('R', (), {'check': lambda *a, **k: True, 'fn': lambda *a: None, 'ok': lambda *a, **k: None, 'fail': lambda *a, **k: None,
                                                'extra': {}, 'require': lambda *a: True})(), ns)
        weak_ok = True
        for case in ('zero', 'block'):
            def extra0(za, st, case=case):
                if case == 'zero':
                    st['z'].assign(end, Z, 0)
                else:
                    st['z'].add(Z, end, -64)
                    st['z'].add(end, roles['len'], 0)
            za0 = fam.analyse(f, extra0, with_pre=False)
            weak_ok = weak_ok and all(ok for _, _, _, ok, _ in za0.obligations)
        if weak_ok:
            sm = joined(False, True)
            sm['strong'] = joined(True, False)['post']
        else:
            sm = joined(True, True)
        rep.extra.setdefault('preconditions', {})[f.qn] = [w for (_, _, _, w) in sm['pre']]
        fam.summaries[('cursor', f.id)] = sm
        n_fn += 1
    done_wrappers = [False]

    def dispatch_wrappers():
        """dynamic dispatch: a call of internal::X resolves to one of several target versions (the stub,
        the westmere and the haswell wrapper); the summary of the call is the join over all versions"""
        if done_wrappers[0]:
            return
        done_wrappers[0] = True
        groups = {}
        for f in facts.functions:
            if f.qn in (NS + 'SkipString', NS + 'SkipContainer', NS + 'skip_space_safe') and any(a.startswith('target:') for a in f.attrs):
                groups.setdefault(f.qn, []).append(f)
        for qn, versions in groups.items():
            sms = []
            for f in versions:
                roles = bind_triple(f)
                if roles is None:
                    # unnamed parameters: the "not implemented" stub: returns a constant and touches nothing
                    rets = [cval(strip(s_).get('e')) for _, _, s_ in f.stmts() if strip(s_).get('k') == 'ret']
                    calls = [e for _, _, _, e in f.walk() if e.get('k') == 'call']
                    rep.check(rets == [0] and not calls, 'E9.dispatch-stub', f.qn, 'default version returns 0 and calls nothing', f.loc,
                              'the stub must report "unclosed / not found"', facts.config)
                    idx = [i for i, p in enumerate(f.params) if p['t'].replace(' ', '') == 'size_t&']
                    sms.append(dict(params=(0, idx[0] if idx else 1, 2), pre=[], post={'zero': [('pos', 'pos0', 0), ('pos0', 'pos', 0)]}))
                    continue
                za = fam.analyse(f, with_pre=False)
                if not all(ok for _, _, ok, _ in za.call_pre):
                    za = fam.analyse(f, with_pre=True)
                fam.report(f, za)
                sm = fam.summarise(f, za)
                if not za.with_pre:
                    sm['strong'] = fam.summarise(f, fam.analyse(f, with_pre=True))['post']
                sms.append(sm)
            joined = dict(params=sms[-1]['params'], pre=[], post={})
            for sm in sms:
                for pr in sm['pre']:
                    if pr not in joined['pre']:
                        joined['pre'].append(pr)
            for key in ('post', 'strong'):
                acc = {}
                for sm in sms:
                    src = sm.get(key) or sm['post']
                    for rc, cons in src.items():
                        zz = Zone({(x, y): c for (x, y, c) in cons})
                        acc[rc] = zz if rc not in acc else acc[rc].join(zz)
                joined[key] = {rc: [(x, y, c) for (x, y), c in zz.b.items()] for rc, zz in acc.items()}
            for f in versions:
                fam.summaries[('cursor', f.id)] = joined

    for short in FAMILY[1:]:
        if short not in ('GetNextToken', 'SkipString', 'SkipContainer'):
            dispatch_wrappers()
        for f in fam.pick(short):
            if short in ('GetOnDemand', 'parseLazyImpl'):
                continue
            roles = bind_triple(f)
            if roles is None:
                rep.require(False, 'C11.a: (data, pos, len) not bound in %s' % f.name)
                continue
            # the weakest precondition that discharges the function's own obligations: first without pos <= len
            hk = container_hooks(fam, f) if short == 'SkipContainer' else None
            za = fam.analyse(f, with_pre=False, hooks=hk)
            if not all(ok for _, _, _, ok, _ in za.obligations) or not all(ok for _, _, ok, _ in za.call_pre):
                za = fam.analyse(f, with_pre=True, hooks=hk)
            fam.report(f, za)
            sm = fam.summarise(f, za)
            if not za.with_pre:
                # post-condition under the optional entry condition pos <= len
                sm['strong'] = fam.summarise(f, fam.analyse(f, with_pre=True, hooks=hk))['post']
            fam.summaries[('cursor', f.id)] = sm
            rep.extra.setdefault('preconditions', {})[f.qn] = [w for (_, _, _, w) in fam.summaries[('cursor', f.id)]['pre']]
            fam.results[f.id] = za
            n_fn += 1
    return fam, n_fn


def clause_b(facts, rep):
    """call-graph reachability: unpadded entry points never reach the padded scanners"""
    entries = [f for f in facts.functions if (f.cls_qn == SCANNER and f.short in ('GetOnDemand', 'SkipOne', 'SkipSpaceSafe', 'GetArrayElem'))
               or (f.cls_qn == 'sonic_json::Parser' and f.short in ('parseLazyImpl', 'ParseLazy')) or f.qn == 'sonic_json::GetOnDemand']
    rep.require(len(entries) >= 5, 'C11.b: unpadded entry points not found')
    padded = set(f.id for f in facts.functions if f.short == 'skip_space' or (f.cls_qn == SCANNER and f.short == 'SkipSpace'))
    rep.require(len(padded) >= 2, 'C11.b: padded scanners not found')
    for en in entries:
        seen = set()
        work = [en]
        hit = None
        while work:
            g = work.pop()
            if g.id in seen:
                continue
            seen.add(g.id)
            for bid, i, s, e in g.walk():
                if e.get('k') in ('call', 'ctor') and e.get('cid') in facts.by_id:
                    if e['cid'] in padded:
                        hit = (g, e)
                    work.append(facts.by_id[e['cid']])
        rep.check(hit is None, 'E7.padded-unreachable', en.qn, 'no path to skip_space / SkipScanner::SkipSpace (%d functions reachable)' % len(seen), en.loc,
                  'reaches %s in %s' % (hit and show(hit[1])[:60], hit and hit[0].qn), facts.config)


def clause_c(facts, rep):
    """functions whose long result means "offset or negative error": every returned SonicError is negated"""
    n = 0
    for f in facts.functions:
        if f.cls_qn != SCANNER or f.short not in ('GetOnDemand', 'SkipOne') or f.d.get('ret_t') != 'long':
            continue
        rep.fn(f)
        seen = set()
        for bid, i, s in f.stmts():
            s_ = strip(s)
            if s_.get('k') != 'ret' or s_.get('e') is None:
                continue
            v = s_['e']
            # peel integral casts
            neg = False
            x = v
            while x is not None and x.get('k') == 'cast':
                x = x['e']
            if x is not None and x.get('k') == 'un' and x['op'] == '-':
                neg = True
                x = x['e']
                while x is not None and x.get('k') == 'cast':
                    x = x['e']
            is_err = x is not None and 'SonicError' in x.get('t', '')
            c = cval(v)
            key = (show(s_), locline(s_['loc']))
            if key in seen:
                continue
            seen.add(key)
            if is_err:
                n += 1
                rep.check(neg and (c is None or c < 0), 'E1.error-sign', f.qn, show(s_), locline(s_['loc']),
                          'an error code returned through the offset channel must be negated (a positive value is read as a slice start)', facts.config)
            elif c is not None:
                n += 1
                rep.check(c < 0 or True, 'E1.error-sign', f.qn, show(s_), locline(s_['loc']), '', facts.config)
    rep.require(n >= 4, 'C11.c: only %d error returns found' % n)


def clause_d(facts, rep):
    n = 0
    for f in facts.functions:
        if f.cls_qn != SCANNER or f.short != 'GetOnDemand':
            continue

        # by role: the length handed to the byte comparison must have been found equal to the size of the view whose
        # data() is compared - whatever the locals are called
        from ..core import tightest
        sites = [(bid, i, e) for bid, i, s_, e in tightest(f, lambda e: e.get('k') == 'call' and e.get('cname') in ('memcmp', '__builtin_memcmp', 'InlinedMemcmpEq', 'bcmp') and len(e.get('args') or []) == 3)]
        len_ids = set()
        for _, _, e in sites:
            for x in walk(e['args'][2]):
                if x.get('k') == 'ref' and x.get('dk') in ('local', 'param'):
                    len_ids.add(x['id'])

        def gen_edge(b, cond, sense):
            c = strip_expect(cond)
            if c is not None and c.get('k') == 'bin' and ((c['op'] == '==' and sense) or (c['op'] == '!=' and not sense)):
                ids = [x.get('id') for x in walk(c) if x.get('k') == 'ref' and x.get('id') in len_ids]
                if ids and any(x.get('k') == 'call' and x.get('cname') in ('size', 'length', 'Size') for x in walk(c)):
                    return [('sameLen', v) for v in ids]
            return []

        def kill_stmt(s):
            out = []
            for e in walk(s):
                if e.get('k') == 'bin' and e['op'] in ('=', '+=', '-=') and strip(e['l']) is not None and strip(e['l']).get('k') == 'ref':
                    out.append(('sameLen', strip(e['l'])['id']))
            return out
        M = Must(f, gen_edge=gen_edge, kill_stmt=kill_stmt)
        for bid, i, e in sites:
            st = M.at(bid, i)
            if st is None:
                continue
            n += 1
            ids3 = [x['id'] for x in walk(e['args'][2]) if x.get('k') == 'ref' and x.get('id') in len_ids]
            direct = any(x.get('k') == 'call' and x.get('cname') in ('size', 'length', 'Size') for x in walk(e['args'][2]))
            rep.check(any(('sameLen', v) in st for v in ids3) or (not ids3 and any(isinstance(t_, tuple) and t_[0] == 'sameLen' for t_ in st)), 'E2.key-length', f.qn, show(e)[:70], locline(e['loc']),
                      'the byte comparison must be dominated by equality of the decoded key length and the wanted key length', facts.config)
    rep.require(n >= 1, 'C11.d: key comparison not found')


def clause_shift(facts, rep, nss):
    """Cached white-space bitmap: the mask  (1 << bit_pos) - 1  with bit_pos = pos - (block_end - W) needs
    bit_pos <= W-1, i.e. pos < block_end, on every path (a shift by the full width is undefined and, on x86, leaves
    the mask empty so the scanner jumps back to an earlier token).  Decided by dominance: the shift is dominated by an
    edge of a comparison of the cursor with the block end that implies pos < block_end (evaluated on a grid), with no
    write to either in between.  The lower bound bit_pos >= 0 is the documented monotone-cursor assumption."""
    n = 0
    for f in facts.functions:
        if f.short not in ('skip_space', 'skip_space_safe') or not any(ns in f.qn for ns in nss):
            continue
        defs = {}
        for bid, i, s_ in f.stmts():
            st = strip(s_)
            if st is not None and st.get('k') == 'decl':
                for vd in st['vars']:
                    if vd.get('init') is not None:
                        defs[vd['id']] = vd['init']
        for bid, i, s_, e in f.walk():
            if e.get('k') != 'bin' or e['op'] != '<<' or cval(e['l']) != 1:
                continue
            b = strip(e['r'])
            if b is None or b.get('k') != 'ref' or b.get('id') not in defs:
                continue
            d = strip(defs[b['id']])            # bit_pos = P - S
            if d is None or d.get('k') != 'bin' or d['op'] != '-':
                continue
            P, S = strip(d['l']), strip(d['r'])
            if P is None or S is None or P.get('k') != 'ref' or S.get('k') != 'ref' or S.get('id') not in defs:
                continue
            sd = strip(defs[S['id']])           # S = E - W
            if sd is None or sd.get('k') != 'bin' or sd['op'] != '-' or cval(sd['r']) is None:
                continue
            E = strip(sd['l'])
            W = cval(sd['r'])
            if E is None or E.get('k') != 'ref':
                continue
            pid, eid = P['id'], E['id']
            rep.fn(f)

            def gen_edge(bb, cond, sense):
                c = strip_expect(cond)
                if c is None:
                    return []
                ids = set(y.get('id') for y in walk(c) if y.get('k') == 'ref' and y.get('dk') in ('local', 'param'))
                if ids != {pid, eid}:
                    return []
                from ..narrowing import _eval as ev1
                try:
                    sat = [(p_, e_) for p_ in range(0, 140, 1) for e_ in (0, 64, 65, 100, 128, 139) if bool(ev1(c, {pid: p_, eid: e_})) == sense]
                except KeyError:
                    return []
                return ['inblock'] if sat and all(p_ < e_ for p_, e_ in sat) else []

            def kill_stmt(st):
                for y in walk(st):
                    if y.get('k') == 'bin' and y['op'] in ('=', '+=', '-=') and strip(y['l']) is not None and strip(y['l']).get('id') in (pid, eid):
                        return ['inblock']
                    if y.get('k') == 'un' and y['op'] in ('++', '--') and strip(y['e']) is not None and strip(y['e']).get('id') in (pid, eid):
                        return ['inblock']
                return []
            M = Must(f, gen_edge=gen_edge, kill_stmt=kill_stmt)
            st = M.at(bid, i)
            if st is None:
                continue
            n += 1
            rep.check('inblock' in st and W == 64, 'E3.shift-range', f.qn, show(e), locline(e['loc']),
                      'the shift amount %s = %s - (%s - %d) must be <= %d: the cursor has to be strictly below the cached block end on every path to the mask' % (
                          b.get('name'), P.get('name'), E.get('name'), W, W - 1), facts.config)
    rep.require(n >= 2, 'C11: cached-bitmap mask shifts found: %d' % n)


def run(rep, tier):
    configs = [('K1', ('::avx2::',)), ('K3', ('::sse::',))] if tier == 'quick' else [('K1', ('::avx2::',)), ('K3', ('::sse::',)), ('K4', ('::avx2::', '::sse::'))]
    for cfg, ns in configs:
        facts = get_facts(cfg)
        rep.unit(facts)
        fam, n = run_family(facts, rep, ns)
        rep.require(n >= 9, 'C11.a: only %d functions of the unpadded family analysed (%s/%s)' % (n, cfg, ','.join(ns)))
        from . import c11_entry
        c11_entry.check(facts, rep, fam)
        clause_b(facts, rep)
        clause_c(facts, rep)
        clause_d(facts, rep)
        # the mask-width contract the zone analysis relies on is checked, not only trusted (shared with C15)
        from . import c15
        c15.clause_f(facts, rep)
        clause_shift(facts, rep, ns)
    rep.min_instances('E3.read', 25)
    # one raw value skipped from any alignment: start / end / no stray read, byte by byte (sv/scaneval.py; shared by C10, C11, C15, C20)
    from .. import scaneval
    for cfg6 in ('K1', 'K3'):
        try:
            scaneval.clause(get_facts(cfg6), rep, tier)
        except AnalysisBroken as ex:
            rep.broken.append(str(ex))
    # the cached white-space bitmap is also exercised by the byte-level evaluation (consecutive SkipOne calls): the
    # shape rule on the mask shift is decided together with it
    # (the shift rule itself is not paired: the defect it exists for needs a white-space run that starts exactly two bytes
    # before the end of the cached block - only its instance floor is)
    rep.corroborate_floor('C11: cached-bitmap', 'E5.skip-extent')
    rep.trust('clang 14 front end', 'vector load widths (sv/primitives.py)', 'TrailingZeroes(m) in [0, bits(m)-1] for m != 0; to_bitmask() of an N-lane vector < 2^N',
              'libc memcpy/memcmp read exactly the stated range', 'a SkipScanner object is used with a single buffer (rule E7.fresh-parser of C02)')
    rep.assumptions += [
        'size_t arithmetic on cursor and length does not wrap (lengths below 2^63)',
        'decides in-bounds reads, padded-scanner unreachability, error sign, key-length guard and private-buffer contracts; does not decide that a success slice is a sub-range of the input',
    ]
