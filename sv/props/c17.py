"""C17 — Independent and shared read-only documents are race-free: clauses
(a) no hidden shared mutable state (every static-storage variable is const,
atomic, thread_local or never written), (b) the read-only API contains no
const_cast-then-write / mutable write, (c) per-parse scanner state is
function-local, (d) with the locked allocator every access to the shared pool
state lies inside a lock_guard scope, the two guards do not nest, and SpinLock
uses acquire/release orders (DESIGN.md section 5/C17)."""
from ..core import get_facts, strip, strip_expect, cval, show, walk, locline, is_this_member
from ..e2_dom import Must
from . import c02

POOL = 'sonic_json::MemoryPoolAllocator'
READONLY_API = ('IsNull', 'IsBool', 'IsString', 'IsRaw', 'IsNumber', 'IsArray', 'IsObject', 'IsTrue', 'IsFalse', 'IsDouble', 'IsInt64', 'IsUint64',
                'IsStringConst', 'IsContainer', 'GetBool', 'GetString', 'GetStringView', 'GetRaw', 'GetType', 'GetInt64', 'GetUint64', 'GetDouble',
                'Size', 'Empty', 'Capacity', 'Begin', 'End', 'CBegin', 'CEnd', 'MemberBegin', 'MemberEnd', 'CMemberBegin', 'CMemberEnd', 'Back',
                'FindMember', 'HasMember', 'operator[]', 'AtPointer', 'Serialize', 'Dump', 'operator==', 'operator!=')


def written_statics(facts):
    """{static var id: [(function, expr, kind)]} for every write / non-const use of a static-storage variable"""
    sid = {}
    for s in facts.statics:
        sid[s['id']] = s
    out = {}
    for f in facts.functions:
        for bid, i, st, e in f.walk():
            k = e.get('k')
            tgt = None
            kind = None
            if k == 'bin' and e['op'] in ('=', '+=', '-=', '*=', '/=', '|=', '&=', '^=', '<<=', '>>='):
                tgt, kind = e['l'], 'assignment'
            elif k == 'un' and e['op'] in ('++', '--'):
                tgt, kind = e['e'], 'increment'
            elif k == 'call' and e.get('obj') is not None and not e.get('cconst') and not e.get('cstatic'):
                tgt, kind = e['obj'], 'non-const method %s()' % e.get('cname')
            elif k == 'un' and e['op'] == '&':
                tgt, kind = e['e'], None   # address taken: handled below only for non-const
            if tgt is None or kind is None:
                continue
            for x in walk(tgt):
                if x.get('k') == 'ref' and x.get('dk') == 'global' and x.get('id') in sid:
                    # writes *through* a const table element are impossible; any of these on a static is a write to it
                    out.setdefault(x['id'], []).append((f, e, kind))
                    break
    # a mutable static that is used as an lvalue in any other way (array decay or address handed to a callee,
    # bound to a non-const reference, member access that is not immediately read) can be written through the alias:
    # only pure rvalue reads (the reference sits directly under an lvalue-to-rvalue conversion) are harmless
    mutable = {i for i, s_ in sid.items() if not (s_.get('const') or s_.get('constexpr') or s_.get('tls') or s_.get('atomic'))}
    if mutable:
        def scan(x, parent, f, top):
            if isinstance(x, dict):
                if x.get('k') == 'ref' and x.get('dk') == 'global' and x.get('id') in mutable:
                    pure = parent is not None and parent.get('k') == 'cast' and parent.get('ck') == 'LValueToRValue'
                    if not pure and x['id'] not in out:
                        out.setdefault(x['id'], []).append((f, top if isinstance(top, dict) and top.get('loc') else x, 'used as an lvalue (address / array decay / reference may be written through)'))
                for k_, v_ in x.items():
                    if k_ in ('t', 'loc', 'sloc', 'cv'):
                        continue
                    if isinstance(v_, (dict, list)):
                        scan(v_, x, f, top)
            elif isinstance(x, list):
                for y in x:
                    scan(y, parent, f, top)
        for f in facts.functions:
            for bid, B in f.blocks.items():
                for st in B['stmts']:
                    scan(st, None, f, st)
                t = B.get('term')
                if t and t.get('cond') is not None:
                    scan(t['cond'], None, f, t['cond'])
    return sid, out


def clause_a(facts, rep):
    sid, writes = written_statics(facts)
    n = 0
    seen = set()
    for vid, s in sid.items():
        key = (s['qn'], locline(s['loc']))
        if key in seen:
            continue
        seen.add(key)
        n += 1
        benign = s.get('const') or s.get('constexpr') or s.get('tls') or s.get('atomic')
        ws = writes.get(vid, [])
        if benign or not ws:
            rep.ok('E7.static-state', '%s %s: %s' % (s['t'][:40], s['qn'] or s['name'],
                                                     'const' if (s.get('const') or s.get('constexpr')) else 'thread_local' if s.get('tls') else 'atomic' if s.get('atomic') else 'never written'),
                   locline(s['loc']))
        else:
            f, e, kind = ws[0]
            rep.fail('E7.static-state', f.qn, 'static %s written (%s): %s' % (s['name'], kind, show(e)[:60]), locline(e['loc']),
                     'a mutable variable with static storage duration is shared by all threads (declared at %s); it must be const, atomic or thread_local' % locline(s['loc']),
                     facts.config)
    rep.require(n >= 25, 'C17.a: only %d static-storage variables enumerated' % n)


def clause_b(facts, rep):
    """const methods of the node/document types reachable from the read-only API: no write through a
    const_cast, no store to a mutable field"""
    roots = [f for f in facts.functions if f.is_const and f.cls_qn in ('sonic_json::GenericNode', 'sonic_json::DNode', 'sonic_json::GenericDocument')
             and f.short in READONLY_API]
    rep.require(len(roots) >= 30, 'C17.b: only %d read-only API functions found' % len(roots))
    seen = {}
    work = list(roots)
    while work:
        g = work.pop()
        if g.id in seen:
            continue
        seen[g.id] = g
        for bid, i, s, e in g.walk():
            if e.get('k') in ('call', 'ctor') and e.get('cid') in facts.by_id:
                h = facts.by_id[e['cid']]
                # the caller's own WriteBuffer is not shared state: do not descend into serialisation buffers
                if h.cls_qn in ('sonic_json::WriteBuffer', 'sonic_json::internal::Stack'):
                    continue
                work.append(h)
    n = 0
    reported = set()
    for g in seen.values():
        rep.fn(g)
        for bid, i, s, e in g.walk():
            k = e.get('k')
            # (i) store whose target is reached through a const_cast / C-style cast that drops const
            tgt = None
            if k == 'bin' and e['op'] in ('=', '+=', '-=', '|=', '&='):
                tgt = e['l']
            elif k == 'un' and e['op'] in ('++', '--'):
                tgt = e['e']
            elif k == 'call' and e.get('obj') is not None and not e.get('cconst') and e.get('ccls', '').startswith('sonic_json::'):
                tgt = e['obj']
            if tgt is None:
                continue
            drops = [x for x in walk(tgt) if x.get('k') == 'cast' and x.get('explicit') in ('CXXConstCastExpr', 'CStyleCastExpr') and
                     'const' in (strip(x['e']) or {}).get('t', '') and 'const' not in x.get('t', '')]
            mut = [x for x in walk(tgt) if x.get('k') == 'member' and x.get('mutable')]
            through_this = any(x.get('k') == 'this' for x in walk(tgt))
            key = (g.qn, show(e)[:60])
            if (drops and through_this) or (mut and g.is_const and through_this):
                if key in reported:
                    continue
                reported.add(key)
                n += 1
                rep.fail('E7.const-purity', g.qn, show(e)[:80], locline(e['loc']),
                         'a read-only operation writes to the shared object (%s)' % ('const_cast' if drops else 'mutable member'), facts.config)
    rep.ok('E7.const-purity', '%d functions reachable from %d read-only API entry points contain no write through const_cast / mutable' % (len(seen), len(roots)), '')
    rep.extra['readonly_api_functions'] = len(seen)


def clause_d(facts5, rep):
    """locked allocator (K5)"""
    n = 0
    for f in facts5.functions:
        if f.cls_qn != POOL or f.short not in ('Malloc', 'Realloc'):
            continue
        rep.fn(f)
        guards = set()
        for bid, i, s in f.stmts():
            s_ = strip(s)
            if s_.get('k') == 'decl':
                for v in s_['vars']:
                    if 'lock_guard' in v.get('t', ''):
                        ini = v.get('init')
                        on_lock = ini is not None and any(is_this_member(x, 'lock_') for x in walk(ini) if x.get('k') == 'member')
                        if on_lock:
                            guards.add(v['id'])
        rep.require(len(guards) >= 1, 'C17.d: no lock_guard on lock_ in %s (K5)' % f.name)

        def gen_stmt(s):
            s_ = strip(s)
            if s_.get('k') == 'decl':
                return ['locked'] if any(v['id'] in guards for v in s_['vars']) else []
            return []

        def kill_stmt(s):
            s_ = strip(s)
            if s_.get('k') == 'autodtor' and s_.get('id') in guards:
                return ['locked']
            return []
        M = Must(f, gen_stmt=gen_stmt, kill_stmt=kill_stmt)
        seen = set()
        for bid, i, s, e in f.walk():
            st = M.at(bid, i)
            if st is None:
                continue
            # accesses to the shared pool state
            if e.get('k') == 'member' and e.get('name') in ('chunkHead', 'size', 'capacity', 'next', 'ownBaseAllocator') and \
                    any(is_this_member(x, 'shared_') for x in walk(e) if x.get('k') == 'member'):
                key = (show(e), locline(e['loc']))
                if key in seen:
                    continue
                seen.add(key)
                n += 1
                rep.check('locked' in st, 'E7.lock-scope', f.qn, show(e)[:60], locline(e['loc']),
                          'shared pool state may be touched only inside the lock_guard scope', facts5.config)
            if e.get('k') == 'call' and e.get('cname') in ('AddChunk', 'GetChunkBuffer') and e.get('ccls', POOL) == POOL:
                key = (show(e)[:40], locline(e['loc']))
                if key in seen:
                    continue
                seen.add(key)
                n += 1
                rep.check('locked' in st, 'E7.lock-scope', f.qn, show(e)[:60], locline(e['loc']),
                          'AddChunk / GetChunkBuffer read and write the chunk list: lock required', facts5.config)
            # the chunk policy object is part of the pool the threads share, and a policy may keep state (the adaptive one
            # grows its chunk size inside ChunkSize): any call on it belongs inside the lock as well
            if e.get('k') == 'call' and e.get('obj') is not None and any(is_this_member(x, 'cp_') for x in walk(e['obj']) if x.get('k') == 'member'):
                key = ('cp', show(e)[:40], locline(e['loc']))
                if key not in seen:
                    seen.add(key)
                    n += 1
                    rep.check('locked' in st, 'E7.lock-scope', f.qn, show(e)[:60], locline(e['loc']),
                              'the chunk policy is shared pool state (a policy may update itself in ChunkSize): lock required', facts5.config)
            # no re-entrant locking: Malloc must not be called while the guard of Realloc is alive
            if e.get('k') == 'call' and e.get('cname') in ('Malloc', 'Realloc') and e.get('ccls') == POOL:
                key = ('nest', locline(e['loc']))
                if key in seen:
                    continue
                seen.add(key)
                n += 1
                rep.check('locked' not in st, 'E7.lock-nesting', f.qn, show(e)[:60], locline(e['loc']),
                          'SpinLock is not recursive: calling %s with the guard alive self-deadlocks' % e.get('cname'), facts5.config)
    rep.require(n >= 10, 'C17.d: only %d lock obligations (K5)' % n)
    # memory orders
    en = {}
    for e in facts5.enums:
        if e['qn'] in ('std::memory_order',):
            en = {v['name']: int(v['v']) for v in e['values']}
    m = 0
    for f in facts5.functions:
        if f.cls_qn != 'sonic_json::SpinLock':
            continue
        rep.fn(f)
        for bid, i, s, e in f.calls():
            if e.get('cname') == 'exchange' and f.short == 'lock':
                o = cval(e['args'][1]) if len(e['args']) > 1 else 5
                m += 1
                rep.check(o in (2, 4, 5), 'E7.memory-order', f.qn, show(e), locline(e['loc']), 'lock acquisition needs at least acquire ordering', facts5.config)
            if (e.get('cname') or '').startswith('compare_exchange') and f.short == 'lock':
                o = cval(e['args'][2]) if len(e['args']) > 2 else 5
                m += 1
                rep.check(o in (2, 4, 5), 'E7.memory-order', f.qn, show(e)[:70], locline(e['loc']), 'lock acquisition needs at least acquire ordering on success', facts5.config)
            if e.get('cname') == 'store' and f.short == 'unlock':
                o = cval(e['args'][1]) if len(e['args']) > 1 else 5
                m += 1
                rep.check(o in (3, 5), 'E7.memory-order', f.qn, show(e), locline(e['loc']), 'unlock needs at least release ordering', facts5.config)
    # acquisition: lock() may only be left after an atomic read-modify-write that found the lock word false
    for f in facts5.functions:
        if f.cls_qn != 'sonic_json::SpinLock' or f.short != 'lock':
            continue
        cas = [(bid, i, e) for bid, i, s, e in f.walk() if e.get('k') == 'call' and (e.get('cname') or '').startswith('compare_exchange')]
        xch = [(bid, i, e) for bid, i, s, e in f.walk() if e.get('k') == 'call' and e.get('cname') == 'exchange']
        rep.require(bool(cas) or bool(xch), 'C17.d: no atomic read-modify-write in SpinLock::lock')
        for bid, i, e in xch:
            m += 0
            rep.check(bool(e.get('args')) and cval(e['args'][0]) == 1, 'E7.lock-acquire', f.qn, show(e), locline(e['loc']), 'the lock word is set to true by the exchange', facts5.config)
        if cas:
            # every compare_exchange must be attempted with expected == false: a failed attempt writes the observed
            # value (true) into `expected`, so it has to be reset before the next attempt
            def exp_var(e):
                a = strip(e['args'][0]) if e.get('args') else None
                return a['id'] if a is not None and a.get('k') == 'ref' else None
            evar = exp_var(cas[0][2])
            rep.require(evar is not None, 'C17.d: expected operand of compare_exchange not bound')

            def gen_stmt(st):
                s_ = strip(st)
                if s_ is None:
                    return []
                if s_.get('k') == 'decl' and any(vd['id'] == evar and vd.get('init') is not None and cval(vd['init']) == 0 for vd in s_['vars']):
                    return ['expected-false']
                for y in walk(s_):
                    if y.get('k') == 'bin' and y['op'] == '=' and strip(y['l']) is not None and strip(y['l']).get('id') == evar and cval(y['r']) == 0:
                        return ['expected-false']
                return []

            def kill_stmt(st):
                # the attempt itself may overwrite `expected` (on failure)
                for y in walk(st):
                    if y.get('k') == 'call' and (y.get('cname') or '').startswith('compare_exchange'):
                        return ['expected-false']
                return []
            from ..e2_dom import Must as _Must
            # the obligation is evaluated before the call's own kill: use the state at the call's statement start
            Mx = _Must(f, gen_stmt=gen_stmt, kill_stmt=kill_stmt)
            for bid, i, e in cas:
                st = Mx.at(bid, i)
                if st is None:
                    continue
                m += 1
                ok_new = len(e.get('args', [])) >= 2 and cval(e['args'][1]) == 1
                rep.check('expected-false' in st and ok_new, 'E7.lock-acquire', f.qn, show(e)[:70], locline(e['loc']),
                          'every compare_exchange attempt must start from expected == false (a failed attempt stores the observed true into it): '
                          'otherwise true -> true "succeeds" and two threads hold the lock', facts5.config)
    rep.require(m >= 2, 'C17.d: SpinLock orders found: %d' % m)
    for c in facts5.classes:
        if c['qn'] == 'sonic_json::SpinLock':
            at = [x for x in c['fields'] if 'atomic' in x['t']]
            rep.check(len(at) == 1, 'E7.memory-order', c['qn'], 'lock word is std::atomic', locline(c['loc']), str([x['t'] for x in c['fields']]), facts5.config)


def run(rep, tier):
    facts = get_facts('K1')
    rep.unit(facts)
    clause_a(facts, rep)
    clause_b(facts, rep)
    c02.clause_f(facts, rep)
    facts5 = get_facts('K5')
    rep.unit(facts5)
    clause_d(facts5, rep)
    # the run-time dispatch front end (x86_ifuncs) exists only in the dynamic-dispatch configurations: process-wide state
    # there (a lazily bound kernel pointer, a cached CPU feature word) is shared by all threads - K8 in every run
    for cfg in (('K8',) if tier == 'quick' else ('K8', 'K3', 'K4', 'K6')):
        f2 = get_facts(cfg)
        rep.unit(f2)
        clause_a(f2, rep)
        clause_b(f2, rep)
    from . import c17_witness
    c17_witness.check(rep)
    rep.trust('clang 14 front end (const-correctness is enforced by the compiler; the rules look for the escape hatches const_cast / mutable / statics)',
              'std::lock_guard locks in its constructor and unlocks in its destructor', 'standard-library observers (find/end/equal_range/StringView accessors) do not write')
    rep.assumptions += [
        'a static over-approximation: if it passes, no execution of the listed read-only operations can store to shared memory',
        'does NOT decide the locked allocator\'s functional result under contention; copies of an allocator share a pool but not a lock (advisory: the property speaks of one shared pool object)',
    ]
